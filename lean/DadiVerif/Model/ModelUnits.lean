import DadiVerif.Model.ModelDSL
/-!
# C15 — a units (dimension) type system on the model DSL (core Lean only)

dadi's parameters are measured in units of a reference size `Nref`: sizes `nu*` in `Nref`, times `T*` in `2 Nref`
generations, migration rates `m*` and selection coefficients `gamma*` as `2 Nref ·` (per-generation value), `theta0` as
`4 Nref μ`.  A model function is only meaningful if it hands every primitive keyword a quantity of the family the keyword
expects.  This file defines

* `U`: a unit = integer exponents over the five base families Size, Time, Rate, Sel, Theta (`U.one` = dimensionless);
* `paramUnit`: the family of a *model parameter*, read off its name (`nu*` Size, `T*` Time, `m*` Rate, `gamma*` Sel,
  `s`, `F`, `f*`, `p*` dimensionless; the explicit reference size `Nref` and reference θ `theta_ref` — used by `refExplicit` only — Size and Theta);
* `kwExpected`: what every *keyword of a primitive* expects (`nu*` Size, `T`/`initial_t` Time, `m<ij>` Rate, `gamma*` Sel,
  `theta0` Theta, `h*`, `beta`, `f*` dimensionless, `Fs`/`ploidys` tuples of dimensionless numbers, everything else —
  densities, grids, flags, `ns`, ids — not a number);
* `unitOf r tv`: unit inference on `Expr`: products/quotients add/subtract exponents, sums need equal units, a literal `0`
  is unit-polymorphic (`UT.poly`), any other literal is dimensionless, `**`, `exp`, `log` need dimensionless operands;
  `r = true` is the *reference-size convention* (a size is a multiple of the reference size and `theta0` of the reference
  θ: Size and Theta are projected to dimensionless), `r = false` is strict; `tv`: may the time variable occur;
* `unitErrors r`: every (primitive, keyword, expression) of a trace that does not get the unit its keyword expects, and
  every `if` comparing quantities of different units;
* `refSites`: the strict errors that are not errors under the reference-size convention — the places where a literal (or a
  fraction such as `s`, `1-s`) stands for "that many reference sizes";
* `refExplicit`: the trace with the reference size made explicit at keyword level (`nu=1` ↦ `nu=Nref*1`, `nu1=1-s` ↦
  `nu1=Nref*(1-s)`, `theta0=1` ↦ `theta0=1/Nref`).
The theorems are in Lemmas/ModelUnits.lean (semantics) and Props/C15.lean (the generated table).
-/
namespace DadiVerif.ModelDSL

/-- exponents over the base families -/
structure U where
  size : Int
  time : Int
  rate : Int
  sel : Int
  theta : Int
  deriving Repr, DecidableEq

namespace U
def one : U := ⟨0, 0, 0, 0, 0⟩
def Size : U := ⟨1, 0, 0, 0, 0⟩
def Time : U := ⟨0, 1, 0, 0, 0⟩
def Rate : U := ⟨0, 0, 1, 0, 0⟩
def Sel : U := ⟨0, 0, 0, 1, 0⟩
def Theta : U := ⟨0, 0, 0, 0, 1⟩
def mul (a b : U) : U := ⟨a.size + b.size, a.time + b.time, a.rate + b.rate, a.sel + b.sel, a.theta + b.theta⟩
def div (a b : U) : U := ⟨a.size - b.size, a.time - b.time, a.rate - b.rate, a.sel - b.sel, a.theta - b.theta⟩
/-- the reference-size convention forgets the Size and Theta exponents -/
def ref (r : Bool) (u : U) : U := if r then ⟨0, u.time, u.rate, u.sel, 0⟩ else u
/-- degree under the one-parameter rescaling of property C03: sizes, times `× c`; rates, selection, θ0 `÷ c` -/
def deg (u : U) : Int := u.size + u.time - u.rate - u.sel - u.theta
end U

/-- the unit of an expression: `poly` = every unit (the literal 0 and what is built from it) -/
inductive UT where
  | poly
  | u (x : U)
  deriving Repr, DecidableEq

def startsWith (pre bs : List Nat) : Bool := bs.take pre.length == pre

/-- the family of a model parameter, by name -/
def paramUnit (n : Name) : Option U :=
  let bs := nameBytes n
  if n == nm! "Nref" then some U.Size
  else if n == nm! "theta_ref" then some U.Theta
  else if startsWith [110, 117] bs then some U.Size                -- nu*
  else if startsWith [103, 97, 109, 109, 97] bs then some U.Sel    -- gamma*
  else if startsWith [84] bs then some U.Time                      -- T*
  else if startsWith [109] bs then some U.Rate                     -- m*
  else if n == nm! "s" || n == nm! "F" || startsWith [102] bs || startsWith [112] bs then some U.one   -- s, F, f*, p*
  else none

inductive KwKind where
  | num (u : U)
  /-- a tuple of dimensionless numbers (`Fs`, `ploidys`) -/
  | tupleDimless
  /-- not a number: density, grid, flag, `ns`, ids -/
  | other
  deriving Repr, DecidableEq

def opaqueKws : List Name :=
  [nm! "phi", nm! "phi_1D", nm! "phi_2D", nm! "xx", nm! "yy", nm! "zz", nm! "aa", nm! "bb", nm! "ns", nm! "xxs",
   nm! "mask_corners", nm! "pop_ids", nm! "admix_props", nm! "het_ascertained", nm! "force_direct", nm! "deme_ids",
   nm! "enable_cuda_cached", nm! "theta", nm! "frozen"]

/-- what a keyword of a primitive expects (by keyword name; `C15_units_keywords_classified`: every keyword of every
    generated signature is classified) -/
def kwExpected (k : Name) : Option KwKind :=
  if opaqueKws.contains k then some .other
  else if k == nm! "T" || k == nm! "initial_t" then some (.num U.Time)
  else if k == nm! "theta0" then some (.num U.Theta)
  else if k == nm! "beta" || k == nm! "h" || k == nm! "f" then some (.num U.one)
  else if k == nm! "nu" then some (.num U.Size)
  else if k == nm! "gamma" then some (.num U.Sel)
  else if k == nm! "Fs" || k == nm! "ploidys" then some .tupleDimless
  else
    let (pre, idx) := familyIndex k
    if idx != [] && pre ++ idx == nameBytes k then
      if pre == [110, 117] then some (.num U.Size)                       -- nu<i>
      else if pre == [103, 97, 109, 109, 97] then some (.num U.Sel)      -- gamma<i>
      else if pre == [109] then some (.num U.Rate)                       -- m<ij>
      else if pre == [104] then some (.num U.one)                        -- h<i>
      else if pre == [102] then some (.num U.one)                        -- f<i>
      else if pre == [102, 114, 111, 122, 101, 110] then some .other    -- frozen<i>
      else if pre == [110, 111, 109, 117, 116] then some .other         -- nomut<i>
      else none
    else none

def UT.dimless : UT → Bool
  | .poly => true
  | .u x => x == U.one

/-- sums and comparisons need equal units -/
def UT.join : Option UT → Option UT → Option UT
  | some .poly, some b => some b
  | some a, some .poly => some a
  | some (.u a), some (.u b) => if a == b then some (.u a) else none
  | _, _ => none

def UT.mul : Option UT → Option UT → Option UT
  | some (.u a), some (.u b) => some (.u (a.mul b))
  | some _, some _ => some .poly
  | _, _ => none

/-- `x / 0` (a literal zero: never evaluated — `t/Ts` at `Ts = 0` sits behind a zero-duration integration) is polymorphic -/
def UT.div : Option UT → Option UT → Option UT
  | some (.u a), some (.u b) => some (.u (a.div b))
  | some _, some _ => some .poly
  | _, _ => none

def UT.dimlessOp : Option UT → Option UT → Option UT
  | some a, some b => if a.dimless && b.dimless then some (.u U.one) else none
  | _, _ => none

/-- unit inference.  `r`: reference-size convention; `tv`: the time variable may occur (inside a size function) -/
def unitOf (r tv : Bool) : Expr → Option UT
  | .param n => (paramUnit n).map (fun u => .u (u.ref r))
  | .tvar => if tv then some (.u U.Time) else none
  | .lit a _ => if a == 0 then some .poly else some (.u U.one)
  | .neg e => unitOf r tv e
  | .add a b => UT.join (unitOf r tv a) (unitOf r tv b)
  | .sub a b => UT.join (unitOf r tv a) (unitOf r tv b)
  | .mul a b => UT.mul (unitOf r tv a) (unitOf r tv b)
  | .div a b => UT.div (unitOf r tv a) (unitOf r tv b)
  | .pow a b => UT.dimlessOp (unitOf r tv a) (unitOf r tv b)
  | .call1 _ e => UT.dimlessOp (unitOf r tv e) (some .poly)
  | _ => none

/-- the unit of an argument: a size function `lambda t: e` has the unit of its values -/
def argUnit (r : Bool) : Expr → Option UT
  | .lam b => unitOf r true b
  | e => unitOf r false e

def UT.fits (r : Bool) (expected : U) : Option UT → Bool
  | some .poly => true
  | some (.u x) => x == expected.ref r
  | none => false

/-- no model parameter and no time variable occurs -/
def noParams : Expr → Bool
  | .param _ => false
  | .tvar => false
  | .lit _ _ => true
  | .sym _ => true
  | .neg e => noParams e
  | .add a b => noParams a && noParams b
  | .sub a b => noParams a && noParams b
  | .mul a b => noParams a && noParams b
  | .div a b => noParams a && noParams b
  | .pow a b => noParams a && noParams b
  | .call1 _ e => noParams e
  | .lam b => noParams b
  | .app f a => noParams f && noParams a
  | .tnil => true
  | .tcons h t => noParams h && noParams t

def dimlessE (r : Bool) (x : Expr) : Bool :=
  match unitOf r false x with
  | some t => t.dimless
  | none => false

/-- keyword `k` receives an expression of the unit it expects (a keyword that is not a number: something that is not a
    number and does not depend on the parameters) -/
def kwOK (r : Bool) (k : Name) (e : Expr) : Bool :=
  match kwExpected k with
  | none => false
  | some (.num u) => UT.fits r u (argUnit r e)
  | some .tupleDimless => tupleAll (dimlessE r) e
  | some .other => (argUnit r e).isNone && noParams e

def callOK (r : Bool) (c : Call) : Bool := c.args.all (fun a => kwOK r a.1 a.2)

/-- the two sides of a comparison have the same unit -/
def condOK (r : Bool) (c : Cond) : Bool := (UT.join (unitOf r false c.lhs) (unitOf r false c.rhs)).isSome

def runOK (r : Bool) (x : Run) : Bool := callOK r x.start && x.steps.all (callOK r) && callOK r x.fin

/-- **the units check**: in every branch, every keyword of every call receives the unit it expects, and every `if` compares
    quantities of one unit -/
def unitsTr (r : Bool) : Tr → Bool
  | .leaf x => runOK r x
  | .ite c a b => condOK r c && unitsTr r a && unitsTr r b

/-! ### the same, reporting -/

structure UnitErr where
  fn : Name
  kw : Name
  e : Expr
  deriving Repr, DecidableEq

def callErrors (r : Bool) (c : Call) : List UnitErr :=
  (c.args.filter (fun a => !kwOK r a.1 a.2)).map (fun a => ⟨c.fn, a.1, a.2⟩)

def runErrors (r : Bool) (x : Run) : List UnitErr :=
  callErrors r x.start ++ x.steps.flatMap (callErrors r) ++ callErrors r x.fin

/-- every ill-united argument of every call of every branch; an ill-united `if` is reported under the name of its operator -/
def unitErrors (r : Bool) : Tr → List UnitErr
  | .leaf x => runErrors r x
  | .ite c a b => (if condOK r c then [] else [⟨c.op, nm! "if", .tcons c.lhs (.tcons c.rhs .tnil)⟩]) ++ unitErrors r a ++ unitErrors r b

/-- the units obligation for one model: the symbolic run at the model's own parameters is well-united in every branch -/
def modelUnitsOK (tbl : List Model) (sigs : List Sig) (r : Bool) (m : Model) : Bool :=
  match symbolicRun tbl sigs m.name (m.paramNames.map .param) with
  | some t => unitsTr r t
  | none => false

def dedup [BEq α] (l : List α) : List α := l.foldl (fun acc a => if acc.contains a then acc else acc ++ [a]) []

/-- the value a keyword gets in *every* library call unless the model passes something: the reference θ and the reference
    (ancestral) size of the equilibrium density -/
def isDefaultRefSite (x : UnitErr) : Bool :=
  (x.kw == nm! "theta0" && x.e == one) || (x.fn == nm! "PhiManip.phi_1D" && x.kw == nm! "nu" && x.e == one)

/-- (primitive, keyword) pairs of a run, beyond the two defaults above, at which a dimensionless quantity stands for that
    many reference sizes -/
def refSitesOf (t : Tr) : List (Name × Name) :=
  dedup (((unitErrors false t).filter (fun x => !isDefaultRefSite x)).map (fun x => (x.fn, x.kw)))

def refSites (tbl : List Model) (sigs : List Sig) (m : Model) : List (Name × Name) :=
  match symbolicRun tbl sigs m.name (m.paramNames.map .param) with
  | some t => refSitesOf t
  | none => []

/-! ## the reference size made explicit -/

def NrefE : Expr := .param (nm! "Nref")
def ThetaRefE : Expr := .param (nm! "theta_ref")

def timesRef (ref : Expr) : Expr → Expr
  | .lam b => .lam (.mul ref b)
  | e => .mul ref e

/-- a dimensionless argument in a Size position is that many reference sizes `Nref`; in the Theta position that multiple
    of the reference θ `theta_ref` -/
def refExplicitArg (k : Name) (e : Expr) : Expr :=
  match kwExpected k, argUnit false e with
  | some (.num u), some (.u x) =>
      if x == U.one && u == U.Size then timesRef NrefE e
      else if x == U.one && u == U.Theta then timesRef ThetaRefE e
      else e
  | _, _ => e

def refExplicitArgs : List (Name × Expr) → List (Name × Expr)
  | [] => []
  | (k, e) :: r => (k, refExplicitArg k e) :: refExplicitArgs r

def refExplicitCall (c : Call) : Call := ⟨c.fn, refExplicitArgs c.args⟩

def refExplicitRun (x : Run) : Run := ⟨refExplicitCall x.start, x.steps.map refExplicitCall, refExplicitCall x.fin⟩

def refExplicit : Tr → Tr
  | .leaf x => .leaf (refExplicitRun x)
  | .ite c a b => .ite c (refExplicit a) (refExplicit b)

/-- the model's run with the reference size explicit is strictly well-united -/
def modelRefExplicitOK (tbl : List Model) (sigs : List Sig) (m : Model) : Bool :=
  match symbolicRun tbl sigs m.name (m.paramNames.map .param) with
  | some t => unitsTr false (refExplicit t)
  | none => false

/-- the three unit facts about one model in one pass over its symbolic run: (i) well-united under the reference-size
    convention, (ii) its reference-size sites are the tabled ones, (iii) the reference-explicit run is strictly well-united
    unless the model is tabled as keeping the reference size inside a size function -/
def modelUnitsSummaryOK (tbl : List Model) (sigs : List Sig) (refTable : List (Name × List (Name × Name)))
    (inside : List Name) (m : Model) : Bool :=
  match symbolicRun tbl sigs m.name (m.paramNames.map .param) with
  | some t =>
      unitsTr true t && (refSitesOf t == (refTable.lookup m.name).getD [])
        && (unitsTr false (refExplicit t) == !(inside.contains m.name))
  | none => false

end DadiVerif.ModelDSL
