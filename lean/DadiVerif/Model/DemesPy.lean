import DadiVerif.Model.DemesConv
/-
C16 (round 5) — the vocabulary in which `Generated/DemesProg.lean` (the statement-by-statement translation of `_get_demographic_events`,
`_get_integration_parameters`, `_make_nu_func`, `_compute_sfs`, `_apply_event`, `_integrate_phi` and of the tail of `SFS`) is written.
Core Lean only.

* Python containers: `PyDD` (a `defaultdict(list)` / dict in insertion order), sets observed only through `sorted(list(·))`,
  `sorted(...)` of distinct keys, the three reversed slices the source uses, `list.index`, `enumerate`, `zip` of five lists, `np.zeros` and
  element assignment of a matrix.
* the `demes` objects the importer reads: `Graph.epochsOfName` (`g[d].epochs`, every epoch knowing its start time), `Graph.endTimeOf`,
  `Graph.startTimeOf`, `Graph.successors`, the five lists of `g.discrete_demographic_events()` (`LibEvents`, an INPUT of the model).
* `phi` is modelled by its HISTORY: the list of calls of numerical primitives that produced it (`Trace`).  Every primitive appends one
  record holding the arguments it RECEIVES (after Python's keyword binding).  The type `ν` of a population-size argument is a parameter:
  the programs never inspect it.
* `NuEntry`: what `_make_nu_func` puts into `nu_func` — a number or one of its three lambdas with the captured `N0, NF` and the `Ne`, `T`
  of the enclosing call (defunctionalised closure).
-/
namespace DadiVerif.DemesConv
open Gen.Demes

deriving instance DecidableEq for Sym

/-! ### Python containers -/

/-- `defaultdict(list)` (or a dict of lists) in insertion order -/
abbrev PyDD (κ ν : Type) := List (κ × List ν)

/-- `d[k]` (read; an absent key reads as `[]`) -/
def ddGet {κ ν : Type} [DecidableEq κ] (d : PyDD κ ν) (k : κ) : List ν :=
  match d.find? (fun p => decide (p.1 = k)) with
  | some p => p.2
  | none => []

/-- `d[k].append(v)` -/
def ddAppend {κ ν : Type} [DecidableEq κ] (d : PyDD κ ν) (k : κ) (v : ν) : PyDD κ ν :=
  if d.any (fun p => decide (p.1 = k)) then d.map (fun p => if p.1 = k then (p.1, p.2 ++ [v]) else p) else d ++ [(k, [v])]

/-- `d.keys()` -/
def ddKeys {κ ν : Type} (d : PyDD κ ν) : List κ := d.map (·.1)

/-- `s.add(x)` on a set that is only ever read through `sorted(list(s))`: the elements in the order they were added, duplicates kept
    (`pySortedSet` removes them) -/
def pySetAdd (s : List ETime) (x : ETime) : List ETime := s ++ [x]

/-- `sorted(list(s))` of a set / `sorted(d.keys())` of a dict keyed by times: the DISTINCT elements in ascending order -/
def pySortedSet (s : List ETime) : List ETime := (sortDesc s).reverse

/-- Python `>` on times -/
def tgt (a b : ETime) : Bool := !tle a b

/-- Python `>` on `(start, end)` tuples: lexicographic -/
def ivGt (a b : ETime × ETime) : Bool := tgt a.1 b.1 || (decide (a.1 = b.1) && tgt a.2 b.2)

/-- insertion into a list that is descending with respect to `gt` -/
def insDescBy {α : Type} (gt : α → α → Bool) (x : α) : List α → List α
  | [] => [x]
  | y :: ys => if gt x y then x :: y :: ys else y :: insDescBy gt x ys

def sortDescBy {α : Type} (gt : α → α → Bool) (l : List α) : List α := l.foldr (insDescBy gt) []

/-- `sorted(d.items())[::-1]` of a dict keyed by intervals (distinct keys: the values are never compared) -/
def pySortedItemsDesc {ν : Type} (d : List ((ETime × ETime) × ν)) : List ((ETime × ETime) × ν) :=
  sortDescBy (fun a b => ivGt a.1 b.1) d

/-- `sorted(list(d.keys()))[::-1]` -/
def pySortedKeysDesc (l : List (ETime × ETime)) : List (ETime × ETime) := sortDescBy ivGt l

/-- `l[-1:0:-1]`: from the last element down to the one at index 1 -/
def pyRevDropFirst {α : Type} (l : List α) : List α := (l.drop 1).reverse

/-- `l[-2::-1]`: from the last but one element down to the first -/
def pyRevDropLast {α : Type} (l : List α) : List α := l.dropLast.reverse

/-- `l.index(x)` (`none`: ValueError) -/
def pyIndex {α : Type} [DecidableEq α] (l : List α) (x : α) : Option Nat :=
  if l.contains x then some (l.idxOf x) else none

/-- `if c: raise …` -/
def pyRaiseIf (c : Bool) : Option Unit := if c then none else some ()

/-- `zip(a, b, c, d, e)` -/
def pyZip5 {α β γ δ ε : Type} (a : List α) (b : List β) (c : List γ) (d : List δ) (e : List ε) : List (α × β × γ × δ × ε) :=
  a.zip (b.zip (c.zip (d.zip e)))

/-- `enumerate(l)` -/
def pyEnumerate {α : Type} (l : List α) : List (Nat × α) := l.zipIdx.map fun p => (p.2, p.1)

/-- `np.zeros((n, m))` -/
def pyZeros (n m : Nat) : List (List Rat) := List.replicate n (List.replicate m 0)

/-- `M[i, j] = v` -/
def matSet (M : List (List Rat)) (i j : Nat) (v : Rat) : List (List Rat) :=
  match M[i]? with
  | some row => M.set i (row.set j v)
  | none => M

/-! ### the demes objects -/

/-- `g[name]` -/
def Graph.demeOf (g : Graph InEpoch) (n : DName) : Option (GDeme InEpoch) := g.demes.find? (fun d => decide (d.name = n))

/-- `g[name].epochs` as demes `Epoch` objects (an unknown name cannot occur: the names come from the graph) -/
def Graph.epochsOfName (g : Graph InEpoch) (n : DName) : List Epoch :=
  match g.demeOf n with
  | some d => epochsOf d.start d.epochs
  | none => []

/-- `g[name].end_time` -/
def Graph.endTimeOf (g : Graph InEpoch) (n : DName) : ETime :=
  match g.demeOf n with
  | some d => d.endTime
  | none => none

/-- `g[name].start_time` -/
def Graph.startTimeOf (g : Graph InEpoch) (n : DName) : ETime :=
  match g.demeOf n with
  | some d => d.start
  | none => none

/-- `g.successors().items()`: every deme (in graph order) with the demes that list it as an ancestor (in graph order) -/
def Graph.successors (g : Graph InEpoch) : List (DName × List DName) :=
  g.demes.map fun d => (d.name, (g.demes.filter fun x => x.ancestors.contains d.name).map (·.name))

structure LPulse where
  sources : List DName
  dest : DName
  proportions : List Rat
  time : Rat
deriving Repr, DecidableEq

structure LBranch where
  parent : DName
  child : DName
  time : Rat
deriving Repr, DecidableEq

/-- a demes `Merge` or `Admix` object -/
structure LMerge where
  parents : List DName
  proportions : List Rat
  child : DName
  time : Rat
deriving Repr, DecidableEq

structure LSplit where
  parent : DName
  children : List DName
  time : Rat
deriving Repr, DecidableEq

/-- `g.discrete_demographic_events()` — computed by the demes library, an input of the model -/
structure LibEvents where
  pulses : List LPulse
  branches : List LBranch
  mergers : List LMerge
  admixtures : List LMerge
  splits : List LSplit
deriving Repr, DecidableEq

/-- the five lists as one list of dated events, in the order `_get_demographic_events` reads them -/
def LibEvents.toList (l : LibEvents) : List (Rat × DEvt) :=
  l.pulses.map (fun p => (p.time, DEvt.pulses p.sources p.dest p.proportions))
  ++ l.branches.map (fun b => (b.time, DEvt.branch b.parent b.child))
  ++ l.mergers.map (fun m => (m.time, DEvt.merge m.parents m.proportions m.child))
  ++ l.admixtures.map (fun m => (m.time, DEvt.admix m.parents m.proportions m.child))
  ++ l.splits.map (fun s => (s.time, DEvt.split s.parent s.children))

/-- the demes library's `Graph.discrete_demographic_events()` (demes 0.2): every deme with ONE ancestor is the child of a split of that
    ancestor when it starts at the ancestor's end time (the children of one parent are collected in a set: their order is unspecified —
    here graph order), of a branch otherwise; a deme with SEVERAL ancestors is a merger when every ancestor ends at its start time, an
    admixture otherwise; the pulses are the graph's.  Hand-written from the library's source, tied by K (`c16g classify`). -/
def classifyEvents (g : Graph InEpoch) : LibEvents :=
  let splitPairs : List (DName × DName) := g.demes.filterMap fun c =>
    match c.ancestors with
    | [a] => if decide (c.start = g.endTimeOf a) then some (a, c.name) else none
    | _ => none
  { pulses := g.pulses.map fun p => { sources := p.sources, dest := p.dest, proportions := p.props, time := p.time }
    branches := g.demes.filterMap fun c =>
      match c.ancestors with
      | [a] => if decide (c.start = g.endTimeOf a) then none else some { parent := a, child := c.name, time := tval c.start }
      | _ => none
    mergers := g.demes.filterMap fun c =>
      if decide (c.ancestors.length > 1) && c.ancestors.all (fun a => decide (c.start = g.endTimeOf a))
      then some { parents := c.ancestors, proportions := c.proportions, child := c.name, time := tval c.start } else none
    admixtures := g.demes.filterMap fun c =>
      if decide (c.ancestors.length > 1) && !c.ancestors.all (fun a => decide (c.start = g.endTimeOf a))
      then some { parents := c.ancestors, proportions := c.proportions, child := c.name, time := tval c.start } else none
    splits := (splitPairs.foldl (fun (d : PyDD DName DName) p => ddAppend d p.1 p.2) []).map fun q =>
      { parent := q.1, children := q.2, time := tval (g.endTimeOf q.1) } }

/-! ### what `_make_nu_func` returns -/

inductive NuEntry
  /-- all sizes constant: the number `s[0] / Ne` -/
  | num (v : Sym)
  /-- `lambda t, N0=s[0][, NF=s[1]]: …` of the size function `fn`, with the `Ne` and `T` of the call -/
  | lam (fn : SizeFn) (N0 NF : Sym) (Ne T : Rat)
deriving Repr, DecidableEq

/-- the relative size an integrator reads off the entry at dadi time `t` -/
def NuEntry.at : NuEntry → Rat → Sym
  | NuEntry.num v, _ => v
  | NuEntry.lam SizeFn.constant N0 NF Ne T, t => nuConstFn N0 NF Ne T t
  | NuEntry.lam SizeFn.linear N0 NF Ne T, t => nuLinear N0 NF Ne T t
  | NuEntry.lam SizeFn.exponential N0 NF Ne T, t => nuExp N0 NF Ne T t
  | NuEntry.lam SizeFn.other N0 _ _ _, _ => N0

/-! ### the history of `phi` -/

/-- `integration_params = [nu, T, M, gamma_int, h_int, theta, frozen]` -/
structure IntegParams (ν : Type) where
  nu : List ν
  T : Rat
  M : List (List Rat)
  gamma : List Rat
  h : List Rat
  theta : Rat
  frozen : List Bool
deriving Repr, DecidableEq

/-- what `dadi.Integration.<fn>` receives, parameter by parameter: `nu[k]` = the value of `nu<k+1>`, `m[i][j]` = the value of
    `m<i+1><j+1>` (0 on the diagonal), `frozen[k]` = the value of `frozen<k+1>`, … -/
structure IntegRecv (ν : Type) where
  fn : String
  T : Rat
  nu : List ν
  m : List (List Rat)
  gamma : List Rat
  h : List Rat
  theta : Rat
  frozen : List Bool
  ids : List DName
deriving Repr, DecidableEq

inductive PCall (ν : Type)
  /-- `dadi.PhiManip.phi_1D(xx, nu=…, theta0=…, gamma=…, h=…, deme_ids=…)`; `nu = none`: the keyword is not passed (default 1) -/
  | phi1D (nu : Option ν) (theta gamma h : Rat) (ids : List DName)
  | integrate (r : IntegRecv ν)
  /-- `dadi.PhiManip.remove_pop(phi, xx, k)` (k counts from 1) -/
  | removePop (k : Nat)
  /-- `_split_phi(phi, xx, pop_ids, parent, new_pop_ids)` -/
  | split (ids : List DName) (parent : DName) (newIds : List DName)
  /-- `_admix_new_pop_phi(phi, xx, proportions, pop_ids, parents, new_pop_ids)` -/
  | admixNew (props : List Rat) (ids parents newIds : List DName)
  /-- `_admix_phi(phi, xx, proportions, pop_ids, sources, dest)` -/
  | admix (props : List Rat) (ids sources : List DName) (dest : DName)
  /-- `dadi.PhiManip.reorder_pops(phi, neworder)` -/
  | reorder (order : List Nat)
  /-- `dadi.Spectrum.from_phi(phi, sample_sizes, …, pop_ids=…)` -/
  | fromPhi (ids : List DName)
deriving Repr, DecidableEq

abbrev Trace (ν : Type) := List (PCall ν)

def IntegRecv.mapNu {ν μ : Type} (f : ν → μ) (r : IntegRecv ν) : IntegRecv μ :=
  { fn := r.fn, T := r.T, nu := r.nu.map f, m := r.m, gamma := r.gamma, h := r.h, theta := r.theta, frozen := r.frozen, ids := r.ids }

def PCall.mapNu {ν μ : Type} (f : ν → μ) : PCall ν → PCall μ
  | PCall.phi1D nu th ga h ids => PCall.phi1D (nu.map f) th ga h ids
  | PCall.integrate r => PCall.integrate (r.mapNu f)
  | PCall.removePop k => PCall.removePop k
  | PCall.split a b c => PCall.split a b c
  | PCall.admixNew a b c d => PCall.admixNew a b c d
  | PCall.admix a b c d => PCall.admix a b c d
  | PCall.reorder o => PCall.reorder o
  | PCall.fromPhi i => PCall.fromPhi i

/-! ### Python's binding of the call in `_integrate_phi` (the table `integCalls` is generated) -/

/-- the entry `k` of a list (`none`: IndexError) -/
def slotNu {ν : Type} (p : IntegParams ν) : Option Slot → Option ν
  | some (Slot.nu j) => p.nu[j]?
  | _ => none

def slotFrozen {ν : Type} (p : IntegParams ν) : Option Slot → Option Bool
  | some (Slot.frozen j) => p.frozen[j]?
  | _ => none

def slotGamma {ν : Type} (p : IntegParams ν) : Option Slot → Option Rat
  | some (Slot.gamma j) => p.gamma[j]?
  | _ => none

def slotH {ν : Type} (p : IntegParams ν) : Option Slot → Option Rat
  | some (Slot.h j) => p.h[j]?
  | _ => none

def slotM {ν : Type} (p : IntegParams ν) : Option Slot → Option Rat
  | some (Slot.M a b) => (p.M[a]?).bind (·[b]?)
  | _ => none

/-- the arguments that are not per population go where they belong: `phi`, `xx`, `T`, `theta0`, `deme_ids` (`initial_t` absent or 0), and
    no parameter the vocabulary does not know is fed -/
def argsWired (c : IntegCall) : Bool :=
  look c Slot.phi == some Slot.phi && look c Slot.xx == some Slot.xx && look c Slot.T == some Slot.T
  && look c Slot.theta == some Slot.theta && look c Slot.demeIds == some Slot.demeIds
  && (look c Slot.initialT == none || look c Slot.initialT == some Slot.zero)
  && c.args.all fun q => match q.1 with
      | Slot.other _ => false
      | _ => true

/-- evaluation of one branch `len(pop_ids) == c.npop` of `_integrate_phi`: every parameter of the callee is looked up in the generated
    list of (parameter, argument expression) pairs and the argument expression is evaluated on `integration_params`.  `none`: a parameter
    of a population is not fed from an entry of the list of its kind (nothing the model can express), or an index is out of range. -/
def bindIntegrate {ν : Type} (c : IntegCall) (p : IntegParams ν) (pop_ids : List DName) : Option (IntegRecv ν) := do
  let ks := List.range c.npop
  let _ ← pyRaiseIf (!argsWired c)
  let nu ← ks.mapM fun k => slotNu p (look c (Slot.nu k))
  let fr ← ks.mapM fun k => slotFrozen p (look c (Slot.frozen k))
  let ga ← ks.mapM fun k => slotGamma p (look c (Slot.gamma k))
  let hh ← ks.mapM fun k => slotH p (look c (Slot.h k))
  let m ← ks.mapM fun i => ks.mapM fun j => if i == j then some 0 else slotM p (look c (Slot.M i j))
  pure { fn := c.fn, T := p.T, nu := nu, m := m, gamma := ga, h := hh, theta := p.theta, frozen := fr, ids := pop_ids }

/-- the matrix an integrator of the populations `0 … n-1` must receive: the off-diagonal entries of `M` (`m<i+1><j+1> = M[i, j]`) -/
def offDiag (n : Nat) (M : List (List Rat)) : List (List Rat) :=
  (List.range n).map fun i => (List.range n).map fun j => if i == j then 0 else (M.getD i []).getD j 0

end DadiVerif.DemesConv
