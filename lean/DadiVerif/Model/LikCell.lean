/-
C11 — one entry of a masked array as `numpy.ma` / `dadi.Spectrum` arithmetic sees it, polymorphic in the
scalar type `α` (executable instance: `Rat`, with `log`, `gammaln`, `sqrt`, powers supplied as tables by
the harness; proof instance: `ℝ` with `Real.log`, `Real.sqrt`, `Real.rpow`).

* `val`  – the number stored in `.data` (also under a masked cell);
* `mask` – the cell is masked;
* `bad`  – the float would be non-finite because a division by an exact zero happened (Lean's `x/0 = 0`
           must never be compared with the implementation's `inf`/`nan`).

Mask rules modelled (dadi/Spectrum_mod.py arithmetic template, numpy/ma/core.py):
* Spectrum `+ - * / **` with anything: plain arithmetic on `.data`, mask = union of the operand masks
  (no domain masking: the template calls `self.data.__op__`);
* `x.data`: the bare ndarray (mask dropped);
* `numpy.ma.log`: additionally masks `x ≤ 0`; `numpy.ma.sqrt`: additionally masks `x < 0`;
  `numpy.ma.power(x, e)`, `e` a non-integer constant: additionally masks non-finite results (`x < 0`, and `x = 0` when
  `e < 0`); the translator refuses integer exponents (a negative base is then finite and stays visible);
* a ufunc such as `gammaln` keeps the mask;
* comparisons of masked arrays give masked booleans; `numpy.ma.masked_where(c, a)` masks `a` where `c` is
  true *or masked* (`make_mask` fills with True), keeping `a`'s own mask.
Core Lean only.
-/
namespace DadiVerif.Lik

structure Cell (α : Type) where
  val  : α
  mask : Bool := false
  bad  : Bool := false
deriving Repr, DecidableEq

/-- a masked boolean -/
structure BCell where
  val  : Bool
  mask : Bool := false
deriving Repr, DecidableEq

namespace Cell
variable {α : Type}

def plain (x : α) : Cell α := ⟨x, false, false⟩
/-- `x.data` -/
def dataOf (c : Cell α) : Cell α := ⟨c.val, false, c.bad⟩
/-- a mask-preserving ufunc (`gammaln`, `**` with a constant exponent on a Spectrum) -/
def map (f : α → α) (c : Cell α) : Cell α := ⟨f c.val, c.mask, c.bad⟩
/-- integer literal -/
def nat [NatCast α] (n : Nat) : Cell α := plain (n : α)
/-- decimal literal `n/d` -/
def frac [NatCast α] [Div α] (n d : Nat) : Cell α := plain ((n : α) / (d : α))

def neg [Neg α] (c : Cell α) : Cell α := ⟨-c.val, c.mask, c.bad⟩
def add [Add α] (a b : Cell α) : Cell α := ⟨a.val + b.val, a.mask || b.mask, a.bad || b.bad⟩
def sub [Sub α] (a b : Cell α) : Cell α := ⟨a.val - b.val, a.mask || b.mask, a.bad || b.bad⟩
def mul [Mul α] (a b : Cell α) : Cell α := ⟨a.val * b.val, a.mask || b.mask, a.bad || b.bad⟩
def div [Div α] [Zero α] [DecidableEq α] (a b : Cell α) : Cell α :=
  ⟨a.val / b.val, a.mask || b.mask, a.bad || b.bad || decide (b.val = 0)⟩

/-- `numpy.ma.log(x)` / `Spectrum.log()` -/
def maLog [Zero α] [LT α] [DecidableLT α] (log : α → α) (c : Cell α) : Cell α :=
  ⟨log c.val, c.mask || !decide (0 < c.val), c.bad⟩
/-- `numpy.ma.sqrt(x)` -/
def maSqrt [Zero α] [LT α] [DecidableLT α] (sqrt : α → α) (c : Cell α) : Cell α :=
  ⟨sqrt c.val, c.mask || decide (c.val < 0), c.bad⟩
/-- `numpy.ma.power(x, e)` for a constant exponent; `negExp` = the exponent is negative -/
def maPower [Zero α] [LT α] [DecidableLT α] (p : α → α) (negExp : Bool) (c : Cell α) : Cell α :=
  ⟨p c.val, c.mask || (if negExp then !decide (0 < c.val) else decide (c.val < 0)), c.bad⟩

def le [LE α] [DecidableLE α] (a b : Cell α) : BCell := ⟨decide (a.val ≤ b.val), a.mask || b.mask⟩
def eqc [DecidableEq α] (a b : Cell α) : BCell := ⟨decide (a.val = b.val), a.mask || b.mask⟩

/-- `numpy.ma.masked_where(t, c)` -/
def maskedWhere (t : BCell) (c : Cell α) : Cell α := ⟨c.val, c.mask || t.mask || t.val, c.bad⟩

/-- the entry is visible and finite -/
def ok (c : Cell α) : Bool := !c.mask && !c.bad
end Cell

namespace BCell
def and (a b : BCell) : BCell := ⟨a.val && b.val, a.mask || b.mask⟩
def or (a b : BCell) : BCell := ⟨a.val || b.val, a.mask || b.mask⟩
end BCell

end DadiVerif.Lik
