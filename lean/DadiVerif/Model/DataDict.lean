import DadiVerif.Generated.DataDict
/-
Exact model of the genotype-data path of dadi (property C13):

  VCF line / SNP-file row  ──►  data-dictionary entry (`Snp`)            Misc.make_data_dict_vcf / make_data_dict
  data dictionary          ──►  count dictionary                          Misc.count_data_dict
  count dictionary         ──►  spectrum (Σ count · Π_pop projection row; folded when unpolarised)
                                                                          Spectrum._from_count_dict / from_data_dict
  data dictionary          ──►  chunks, bootstraps                        Misc.fragment_data_dict / bootstraps_from_dd_chunks
  spectrum                 ──►  S, π, Watterson θ, θ_L, Tajima D, Fst     Spectrum.S / pi / …
  genotype matrix          ──►  the same statistics by direct counting

Text parsing is NOT modelled in general: strings (alleles, chromosome names) are abstracted to codes whose only use is
equality, a line is abstracted to the fields the code looks at.  Exception (round 6): the token-level decisions of the VCF
reader on FILTER / REF / ALT / INFO (`lineKept`, `lineAa`, `lineSite`) are modelled on the texts, through generated tokens.  The polarisation logic, the wiring of
`_cached_projection`'s arguments and every closed formula of the statistics are the *generated* definitions of
Generated/DataDict.lean (namespace `Gen.DD`), regenerated from the source on every run.
Core Lean only (the driver executes these definitions); the theorems are in Props/C13.lean.
-/
namespace DadiVerif.DataDict
open DadiVerif.Gen.DD

/-! ### sums -/

/-- Σ_{i<n} f i -/
def sumRange : Nat → (Nat → Rat) → Rat
  | 0, _ => 0
  | n+1, f => sumRange n f + f n

/-- Σ_{a∈l} f a -/
def sumMap {α : Type} : List α → (α → Rat) → Rat
  | [], _ => 0
  | a :: t, f => f a + sumMap t f

/-- Σ over all multi-indices `idx` with `idx_k < shape_k` -/
def boxSum : List Nat → (List Nat → Rat) → Rat
  | [], f => f []
  | s :: ss, f => sumRange s fun i => boxSum ss fun is => f (i :: is)

def natSum : List Nat → Nat
  | [] => 0
  | a :: t => a + natSum t

/-! ### hypergeometric projection weights (local copy: `Numerics._cached_projection` itself is property C08) -/

def fact : Nat → Nat
  | 0 => 1
  | n+1 => (n+1) * fact n

def choose (n k : Nat) : Nat := if k ≤ n then fact n / (fact k * fact (n - k)) else 0

/-- entry `j` of `_cached_projection(m, n, i)`: m = proj_to, n = proj_from (successful calls), i = hits (derived calls).
    `n < m` is the short-circuit branch (a row of zeros): the SNP has too few calls in that population. -/
def projWeight (m n i j : Nat) : Rat :=
  if n < m then 0
  else if j ≤ i then ((choose m j * choose (n - m) (i - j) : Nat) : Rat) / ((choose n i : Nat) : Rat)
  else 0

/-! ### data-dictionary entries -/

/-- code of the string '-' (allele strings are abstracted to codes; 1,2,3,4 = A,C,G,T; ≥ 5 anything else) -/
def dash : Nat := 0

def isBase (c : Nat) : Bool := decide (1 ≤ c) && decide (c ≤ 4)

/-- one entry of the data dictionary -/
structure Snp where
  chrom : Nat                 -- chromosome name (code)
  pos : Nat
  info : Nat                  -- additional_info of the key (code; 0 = none)
  nseg : Nat                  -- len(snp_info['segregating'])
  a1 : Nat                    -- segregating[0]
  a2 : Nat                    -- segregating[1]
  out : Option Nat            -- snp_info['outgroup_allele']; none = key absent
  calls : List (Nat × Nat)    -- per requested population: (allele1 calls, allele2 calls)
deriving Repr, DecidableEq

namespace Snp

/-- small codes with the same equality pattern among '-', allele1, allele2 and the outgroup allele ('-' ↦ 0): the key under which the
    generated decision table `polTable` of `count_data_dict` (obtained on one representative per pattern) holds this SNP's row -/
def canonA1 (a1 : Nat) : Nat := if a1 = dash then 0 else 1
def canonA2 (a1 a2 : Nat) : Nat := if a2 = dash then 0 else if a2 = a1 then 1 else 2
def canonOg (og a1 a2 : Nat) : Nat := if og = dash then 0 else if og = a1 then 1 else if og = a2 then 2 else 3

def canonKey (out : Option Nat) (a1 a2 : Nat) : Option Nat × Nat × Nat :=
  (out.map fun og => canonOg og a1 a2, canonA1 a1, canonA2 a1 a2)

def polLookup (k : Option Nat × Nat × Nat) : Bool × Option Nat :=
  ((polTable.find? fun row => row.1 == k).map (·.2)).getD (false, none)

/-- (this_snp_polarized, which allele's calls are the derived ones) as `count_data_dict` decides them -/
def polRow (s : Snp) : Bool × Option Nat := polLookup (canonKey s.out s.a1 s.a2)

def polarized (s : Snp) : Bool := s.polRow.1

/-- which allele's calls are the derived ones (1 or 2); `none` = `derived_calls` is not assigned -/
def derivedSel (s : Snp) : Option Nat := s.polRow.2

def pick (k : Nat) (c : Nat × Nat) : Nat := if k = 1 then c.1 else c.2

def derived (s : Snp) : List Nat :=
  match s.derivedSel with
  | some k => s.calls.map (pick k)
  | none => []

def successful (s : Snp) : List Nat := s.calls.map fun c => successfulCalls c.1 c.2

end Snp

/-! ### count dictionary -/

abbrev Key := List Nat × List Nat × Bool
abbrev CountDict := List (Key × Nat)

def keyOf (s : Snp) : Key := (s.successful, s.derived, s.polarized)

/-- `count_dict[key] += 1` on a defaultdict(int) -/
def bump (k : Key) : CountDict → CountDict
  | [] => [(k, 1)]
  | (k', c) :: rest => if k' = k then (k', c + 1) :: rest else (k', c) :: bump k rest

def countStep (d : CountDict) (s : Snp) : CountDict :=
  if s.nseg ≠ biallelicLen then d else bump (keyOf s) d

/-- `Misc.count_data_dict` -/
def countDict (snps : List Snp) : CountDict := snps.foldl countStep []

/-! ### spectrum from the count dictionary -/

/-- Π over populations of the projection-row entries: `zip(projections, called_by_pop, derived_by_pop)` -/
def prodW : List Nat → List Nat → List Nat → List Nat → Rat
  | p :: ps, n :: ns, i :: is, j :: js =>
      (let a := weightArgs p n i; projWeight a.1 a.2.1 a.2.2 j) * prodW ps ns is js
  | _, _, _, _ => 1

/-- contribution of one count-dictionary entry to the entry `idx` of `fs_total` -/
def entryAt (pol : Bool) (proj : List Nat) (e : Key × Nat) (idx : List Nat) : Rat :=
  if skipEntry pol e.1.2.2 then 0 else (e.2 : Rat) * prodW proj e.1.1 e.1.2.1 idx

/-- `fs_total` before the optional fold (corner entries included, i.e. `mask_corners=False` data) -/
def rawAt (pol : Bool) (proj : List Nat) (cd : CountDict) (idx : List Nat) : Rat :=
  sumMap cd fun e => entryAt pol proj e idx

/-- axis reversal -/
def mirror : List Nat → List Nat → List Nat
  | p :: ps, i :: is => (p - i) :: mirror ps is
  | _, _ => []

/-- `Spectrum.fold` on the data: entries with more than ⌊T/2⌋ derived alleles are added to their mirror image and
    zeroed, ambiguous entries (2·total = T) are averaged with their mirror image -/
def foldAt (proj : List Nat) (u : List Nat → Rat) (idx : List Nat) : Rat :=
  let T := natSum proj
  let t := natSum idx
  if T / 2 < t then 0
  else if 2 * t = T then (u idx + u (mirror proj idx)) / 2
  else u idx + u (mirror proj idx)

/-- data of `Spectrum._from_count_dict(cd, proj, polarized)` at `idx` (unmasked view) -/
def specAt (pol : Bool) (proj : List Nat) (cd : CountDict) (idx : List Nat) : Rat :=
  if pol then rawAt pol proj cd idx
  else if foldIffUnpolarized then foldAt proj (rawAt pol proj cd) idx
  else rawAt pol proj cd idx

/-- data of `Spectrum.from_data_dict(dd, pop_ids, proj, polarized=pol)` at `idx` -/
def spectrumAt (pol : Bool) (proj : List Nat) (snps : List Snp) (idx : List Nat) : Rat :=
  specAt pol proj (countDict snps) idx

def isCorner (proj idx : List Nat) : Bool := idx.all (· == 0) || idx == proj

/-- the mask `Spectrum(data, mask=m, mask_corners=mc)` ends up with: `m`, and the two corner entries if asked -/
def ctorMask (mc : Bool) (proj : List Nat) (m : List Nat → Bool) (idx : List Nat) : Bool :=
  m idx || (mc && isCorner proj idx)

/-- mask of `fs.fold()` for a spectrum with mask `m`: `final_mask = mask | reversed mask | folded-out half`, handed to the
    constructor, which masks the corners again iff its `mask_corners` is on (generated `foldRemasksCorners`) -/
def foldMask (proj : List Nat) (m : List Nat → Bool) (idx : List Nat) : Bool :=
  ctorMask foldRemasksCorners proj (fun i => m i || m (mirror proj i) || decide (natSum proj / 2 < natSum i)) idx

/-- mask of `from_data_dict(…, mask_corners, polarized)`: the constructor's mask of `fs_total`, folded when unpolarised -/
def maskAt (pol maskCorners : Bool) (proj idx : List Nat) : Bool :=
  if pol then ctorMask maskCorners proj (fun _ => false) idx
  else foldMask proj (ctorMask maskCorners proj fun _ => false) idx

/-- contribution of one SNP (what the count dictionary groups) -/
def contribAt (pol : Bool) (proj : List Nat) (s : Snp) (idx : List Nat) : Rat :=
  if s.nseg ≠ biallelicLen then 0
  else if skipEntry pol s.polarized then 0
  else prodW proj s.successful s.derived idx

/-- enough calls in every population -/
def enoughCalls : List Nat → List Nat → Bool
  | p :: ps, n :: ns => decide (p ≤ n) && enoughCalls ps ns
  | _, _ => true

/-- a SNP that contributes: biallelic, polarised if required, called at least `proj` times in every population -/
def usable (pol : Bool) (proj : List Nat) (s : Snp) : Bool :=
  s.nseg == biallelicLen && !(skipEntry pol s.polarized) && enoughCalls proj s.successful

def countUsable (pol : Bool) (proj : List Nat) (snps : List Snp) : Nat := (snps.filter (usable pol proj)).length

/-! ### VCF lines -/

/-- one sample column: population (none = sample not in the popinfo file), GT alleles
    (0 = REF, 1 = ALT, 2.. = other ALT index, 9 = '.'), and "no data" as flagged by DP = 0 / '.' or AD = 0,0 -/
structure Indiv where
  pop : Option Nat
  alleles : List Nat
  nodata : Bool
deriving Repr, DecidableEq

/-- the fields of a VCF data line the parser looks at -/
structure Site where
  chrom : Nat
  pos : Nat
  pass : Bool          -- FILTER is 'PASS' or '.'
  ref : Nat            -- REF.upper() as a code
  alt : Nat            -- ALT.upper() as a code
  aa : Option Nat      -- first AA= / AA_ensembl= / AA_chimp= value, upper-cased, cut at '|'; none = no such field
  inds : List Indiv
deriving Repr, DecidableEq

def countAllele (a : Nat) (l : List Nat) : Nat := (l.filter (· == a)).length

def hasPop (p : Nat) (inds : List Indiv) : Bool := inds.any fun x => x.pop == some p

/-- no-subsampling branch: every sample of population `p` that is not flagged "no data" adds its '0's and '1's -/
def callsOfPop (inds : List Indiv) (p : Nat) : Nat × Nat :=
  inds.foldl (fun acc x =>
    if x.pop == some p && !x.nodata then (acc.1 + countAllele 0 x.alleles, acc.2 + countAllele 1 x.alleles) else acc) (0, 0)

/-- `calls_dict[pop]` for each requested population; `none` = KeyError (no sample of that population) -/
def callsFor (inds : List Indiv) (popIds : List Nat) : Option (List (Nat × Nat)) :=
  popIds.mapM fun p => if hasPop p inds then some (callsOfPop inds p) else none

/-- the outgroup allele recorded for a VCF line -/
def vcfOutgroup (aa : Option Nat) : Nat :=
  match aa with
  | some c => if isBase c then c else dash
  | none => dash

/-- does the line make it into the dictionary at all? -/
def siteKept (filt : Bool) (st : Site) : Bool :=
  !(filt && !st.pass) && isBase st.ref && isBase st.alt

def siteSnp (st : Site) (calls : List (Nat × Nat)) : Snp :=
  { chrom := st.chrom, pos := st.pos, info := 0, nseg := 2, a1 := st.ref, a2 := st.alt,
    out := some (vcfOutgroup st.aa), calls := calls }

/-! ### the text level of a VCF data line (round 6): the reader's token-level decisions, through the GENERATED tokens

    FILTER / REF / ALT / INFO are texts (`List Char`).  Which FILTER texts let the line through (`vcfFilterAccept`), which REF / ALT
    make it a SNP line (`vcfSnpBases`, `vcfAllelesUpper`), which INFO fields are read as the ancestral allele (`vcfAaPrefixes`), how
    the value is extracted (`vcfAaExtract`) and which values are usable (`vcfAaBases`, else `vcfAaMissing`) are the generated
    definitions; here only the control flow of the loop (`for field in info: if <recognised>: …; break  else: '-'`). -/

structure VcfText where
  filter : List Char
  ref : List Char
  alt : List Char
  info : List Char
deriving Repr, DecidableEq

/-- `field.startswith(p)` for one of the recognised prefixes -/
def aaRecognised (f : List Char) : Bool := vcfAaPrefixes.any fun p => p.isPrefixOf f

/-- the outgroup allele a recognised field yields (`none` = the extraction raises IndexError) -/
def aaOfField (f : List Char) : Option (List Char) :=
  (vcfAaExtract f).map fun v => if vcfAaBases.contains v then v else vcfAaMissing

/-- the loop over the INFO fields: the first recognised field decides, no recognised field = missing -/
def vcfAaOf (info : List (List Char)) : Option (List Char) :=
  match info.find? aaRecognised with
  | none => some vcfAaMissing
  | some f => aaOfField f

def vcfInfoFields (info : List Char) : List (List Char) := pySplit vcfInfoSep info

def alleleText (s : List Char) : List Char := if vcfAllelesUpper then pyUpper s else s

/-- does the line enter the dictionary: FILTER accepted (if asked), REF and ALT single bases -/
def lineKept (filt : Bool) (l : VcfText) : Bool :=
  !(filt && !vcfFilterAccept.contains l.filter) && vcfSnpBases.contains (alleleText l.ref) && vcfSnpBases.contains (alleleText l.alt)

/-- `snp_dict['outgroup_allele']` of the line -/
def lineAa (l : VcfText) : Option (List Char) := vcfAaOf (vcfInfoFields l.info)

/-- the allele codes of the abstract `Site`: '-' ↦ 0 (`dash`), A C G T ↦ 1..4, any other text ↦ 5 -/
def baseCode (s : List Char) : Nat :=
  if s = "-".toList then 0 else if s = "A".toList then 1 else if s = "C".toList then 2 else if s = "G".toList then 3
  else if s = "T".toList then 4 else 5

/-- the abstract line the rest of the model works with, read off the text (sample columns given) -/
def lineSite (chrom pos : Nat) (l : VcfText) (inds : List Indiv) : Site :=
  { chrom := chrom, pos := pos, pass := vcfFilterAccept.contains l.filter, ref := baseCode (alleleText l.ref),
    alt := baseCode (alleleText l.alt), aa := (lineAa l).map baseCode, inds := inds }

/-! ### subsampling branch -/

/-- samples that can be drawn: GT without '.', not flagged "no data" -/
def complete (x : Indiv) : Bool := !(x.alleles.any (· == 9)) && !x.nodata

def completeOfPop (inds : List Indiv) (p : Nat) : List Indiv :=
  inds.filter fun x => x.pop == some p && complete x

/-- the accumulation `refcalls += gt[::2].count('0'); altcalls += gt[::2].count('1')` over the chosen samples -/
def chosenCallsFrom (acc : Nat × Nat) (gts : List Indiv) (idx : List Nat) : Nat × Nat :=
  idx.foldl (fun acc ii =>
    match gts[ii]? with
    | some x => (acc.1 + countAllele 0 x.alleles, acc.2 + countAllele 1 x.alleles)
    | none => acc) acc

/-- calls from the chosen samples `idx` (positions in the list of complete samples) -/
def chosenCalls (gts : List Indiv) (idx : List Nat) : Nat × Nat := chosenCallsFrom (0, 0) gts idx

/-- populations of `subsample` in the order in which their first sample column appears -/
def popOrder (inds : List Indiv) (want : List (Nat × Nat)) : List Nat :=
  inds.foldl (fun acc x =>
    match x.pop with
    | some p => if want.any (·.1 == p) && !acc.contains p then acc ++ [p] else acc
    | none => acc) []

def wanted (want : List (Nat × Nat)) (p : Nat) : Nat := ((want.find? (·.1 == p)).map (·.2)).getD 0

/-- the `for pop, genotypes in subsample_dict.items()` loop: consumes one recorded draw per population until a
    population has too few complete samples (then the SNP is dropped).  Returns the calls per population
    (none = dropped) and the unused draws. -/
def subsampleLoop (inds : List Indiv) (want : List (Nat × Nat)) :
    List Nat → List (List Nat) → List (Nat × (Nat × Nat)) → Option (List (Nat × (Nat × Nat))) × List (List Nat)
  | [], draws, acc => (some acc, draws)
  | p :: ps, draws, acc =>
      let gts := completeOfPop inds p
      if gts.length < wanted want p then (none, draws)
      else match draws with
        | [] => (none, [])
        | d :: ds => subsampleLoop inds want ps ds (acc ++ [(p, chosenCalls gts d)])

/-! ### the text level of a sample column (round 7): the genotype-token decisions of both branches, through the GENERATED tests

    `vcfSubDrawable gt dp` (sub-sampling branch: may this individual be drawn?), `vcfNoSubSkip ad dp` (branch without sub-sampling: is
    this sample skipped?), `vcfGtStride`, `vcfGtRefTok`, `vcfGtAltTok` (which characters of GT are alleles, which are counted) are
    generated from the source.  Here: the rendering of the abstract `Indiv` as the texts the reader sees, and the loops around the tests. -/

/-- the character of one allele of a GT field: index 0..8, `9` = the missing allele '.' -/
def alleleChar : Nat → Char
  | 0 => '0' | 1 => '1' | 2 => '2' | 3 => '3' | 4 => '4' | 5 => '5' | 6 => '6' | 7 => '7' | 8 => '8' | 9 => '.' | _ => 'x'

/-- the GT text of an individual (unphased; the tests below do not depend on the separator: `C13_vcf_called_individual`) -/
def gtText (al : List Nat) : List Char := (al.map alleleChar).intersperse '/'

/-- the DP text of an individual: flagged "no data" = a depth of 0, otherwise no DP field -/
def dpText (nodata : Bool) : Option (List Char) := if nodata then some "0".toList else none

/-- the generated test of the sub-sampling branch on the texts of an abstract individual -/
def indivDrawable (x : Indiv) : Bool := vcfSubDrawable (gtText x.alleles) (dpText x.nodata)

/-- python `s[::k]` (k ≥ 1): `skip` characters are passed over before the next one is taken -/
def pyStrideAux (k : Nat) : Nat → List Char → List Char
  | _, [] => []
  | 0, x :: xs => x :: pyStrideAux k (k - 1) xs
  | n + 1, _ :: xs => pyStrideAux k n xs

def pyStride (k : Nat) (l : List Char) : List Char := pyStrideAux k 0 l

/-- `gt[::k].count(tok)` -/
def gtCount (tok : Char) (gt : List Char) : Nat := ((pyStride vcfGtStride gt).filter (· == tok)).length

/-- `(gt[::k].count('0'), gt[::k].count('1'))` with the generated stride and tokens -/
def gtCalls (gt : List Char) : Nat × Nat := (gtCount vcfGtRefTok gt, gtCount vcfGtAltTok gt)

/-- one sample column as the reader sees it: population, GT text, AD and DP texts (`none`: no such field / dropped) -/
structure SampleText where
  pop : Option Nat
  gt : List Char
  ad : Option (List Char)
  dp : Option (List Char)
deriving Repr, DecidableEq

/-- the individuals of population `p` offered to the draw on one line -/
def textPool (l : List SampleText) (p : Nat) : List SampleText :=
  l.filter fun x => x.pop == some p && vcfSubDrawable x.gt x.dp

/-- populations of `subsample` in the order of their first sample column -/
def textPopOrder (l : List SampleText) (want : List (Nat × Nat)) : List Nat :=
  l.foldl (fun acc x =>
    match x.pop with
    | some p => if want.any (·.1 == p) && !acc.contains p then acc ++ [p] else acc
    | none => acc) []

/-- the sizes of the pools the sub-sampling loop draws from on one line, until a population has too few (`break`) -/
def textPoolSizes (l : List SampleText) (want : List (Nat × Nat)) : List Nat → List Nat
  | [] => []
  | p :: ps =>
      let n := (textPool l p).length
      if n < wanted want p then [] else n :: textPoolSizes l want ps

/-- branch without sub-sampling on the texts: the calls of population `p` on one line -/
def textCallsOfPop (l : List SampleText) (p : Nat) : Nat × Nat :=
  l.foldl (fun acc x =>
    if x.pop == some p && !vcfNoSubSkip x.ad x.dp then (acc.1 + (gtCalls x.gt).1, acc.2 + (gtCalls x.gt).2) else acc) (0, 0)

/-! ### dictionary semantics, chunks, bootstraps -/

def sameKey (a b : Snp) : Bool := a.chrom == b.chrom && a.pos == b.pos && a.info == b.info

/-- `data_dict[snp_id] = snp_dict`: a later entry with the same key replaces the earlier one in place -/
def ddInsert (s : Snp) : List Snp → List Snp
  | [] => [s]
  | t :: rest => if sameKey t s then s :: rest else t :: ddInsert s rest

def mkDict (snps : List Snp) : List Snp := snps.foldl (fun d s => ddInsert s d) []

/-! ### the passes over the VCF lines -/

/-- the calls of every requested population, when every one of them has a sample column -/
def siteCalls (st : Site) (popIds : List Nat) : List (Nat × Nat) := popIds.map (callsOfPop st.inds)

/-- the entries `make_data_dict_vcf` writes line by line, before dictionary semantics; `none` = KeyError in
    `count_data_dict` (a requested population without any sample column) -/
def vcfEntries (filt : Bool) (popIds : List Nat) (sites : List Site) : Option (List Snp) :=
  (sites.filter (siteKept filt)).mapM fun st => (callsFor st.inds popIds).map (siteSnp st)

/-- no-subsampling pass over the VCF lines -/
def ddVcf (filt : Bool) (popIds : List Nat) (sites : List Site) : Option (List Snp) :=
  (vcfEntries filt popIds sites).map mkDict

/-- subsampling pass: threads the recorded draws through the lines -/
def ddSub (filt : Bool) (want : List (Nat × Nat)) (popIds : List Nat) :
    List Site → List (List Nat) → List Snp → Option (List Snp × List (List Nat))
  | [], draws, acc => some (mkDict acc, draws)
  | st :: rest, draws, acc =>
      if !siteKept filt st then ddSub filt want popIds rest draws acc
      else
        match subsampleLoop st.inds want (popOrder st.inds want) draws [] with
        | (none, left) => ddSub filt want popIds rest left acc
        | (some calls, left) =>
            match popIds.mapM (fun p => (calls.find? (·.1 == p)).map (·.2)) with
            | none => none
            | some cl => ddSub filt want popIds rest left (acc ++ [siteSnp st cl])

/-- the `while p > end` loop of fragment_data_dict started at `end = chunk_size`, `chunk_index = 0` -/
def chunkLoop (size p : Nat) : Nat → Nat → Nat → Nat
  | 0, _, idx => idx
  | fuel+1, end_, idx => if chunkAdvance p end_ then chunkLoop size p fuel (end_ + size) (idx + 1) else idx

/-- chunk number of position `p` (positions are visited in increasing order, so restarting the loop for every
    position gives the same index as carrying `end` along) -/
def chunkIdx (size p : Nat) : Nat := chunkLoop size p p size 0

def dedupNat : List Nat → List Nat
  | [] => []
  | a :: t => a :: (dedupNat t).filter (· != a)

def maxL : List Nat → Nat
  | [] => 0
  | a :: t => max a (maxL t)

/-- chromosomes in order of first appearance -/
def chroms (snps : List Snp) : List Nat := dedupNat (snps.map (·.chrom))

def chunksOfChrom (size : Nat) (l : List Snp) : List (List Snp) :=
  (List.range (maxL (l.map fun s => chunkIdx size s.pos) + 1)).map fun k =>
    l.filter fun s => chunkIdx size s.pos == k

/-- `Misc.fragment_data_dict`: per chromosome (first-appearance order) the chunks 0..max, empty ones included -/
def fragment (size : Nat) (snps : List Snp) : List (List Snp) :=
  (chroms snps).flatMap fun c => chunksOfChrom size (snps.filter fun s => s.chrom == c)

/-- one bootstrap replicate from the chunks' count dictionaries: the chosen chunk spectra added up -/
def bootAtCd (pol : Bool) (proj : List Nat) (cds : List CountDict) (choice : List Nat) (idx : List Nat) : Rat :=
  sumMap choice fun c => specAt pol proj (cds.getD c []) idx

/-- one bootstrap replicate: `functools.reduce(operator.add, [spectra[c] for c in choice])` -/
def bootAt (pol : Bool) (proj : List Nat) (chunks : List (List Snp)) (choice : List Nat) (idx : List Nat) : Rat :=
  bootAtCd pol proj (chunks.map countDict) choice idx

/-! ### the composition `Misc.bootstraps_subsample_vcf`: sub-sample the VCF, chunk the dictionary, one bootstrap of the chunks

    The glue is generated (`bsvProjections` = how `projections` is built from the `subsample` dictionary — an association list in
    insertion order — and `pop_ids`; `bsvDictFilter`, `bsvDictSubsample`, `bsvFragSize`, `bsvBootPopIds`, `bsvBootMaskCorners`,
    `bsvBootPolarized` = what is handed to `make_data_dict_vcf`, `fragment_data_dict`, `bootstraps_from_dd_chunks`). -/

/-- `subsample[pop]` is defined for every requested population (otherwise KeyError) -/
def bsvKeysOk (want : List (Nat × Nat)) (popIds : List Nat) : Bool := popIds.all fun p => want.any (·.1 == p)

/-- the data dictionary of one replicate as `count_data_dict(dd, pop_ids)` reads it (calls in `pop_ids` order), and the
    recorded draws it did not use -/
def bsvDict (filt mc pol : Bool) (want : List (Nat × Nat)) (popIds : List Nat) (sites : List Site)
    (draws : List (List Nat)) : Option (List Snp × List (List Nat)) :=
  match bsvDictSubsample want with
  | some w => ddSub (bsvDictFilter filt mc pol) w (bsvBootPopIds popIds) sites draws []
  | none => (ddVcf (bsvDictFilter filt mc pol) (bsvBootPopIds popIds) sites).map fun d => (d, draws)

/-- the chunks of one replicate -/
def bsvChunks (nboot size : Nat) (dd : List Snp) : List (List Snp) := fragment (bsvFragSize nboot size) dd

/-- one replicate: `bootstraps_from_dd_chunks(fragments, 1, pop_ids, projections, mask_corners, polarized)[0]` with the
    recorded choice of chunks -/
def bsvReplicateAt (filt mc pol : Bool) (nboot size : Nat) (want : List (Nat × Nat)) (popIds : List Nat)
    (dd : List Snp) (choice : List Nat) (idx : List Nat) : Rat :=
  bootAt (bsvBootPolarized filt mc pol) (bsvProjections want popIds) (bsvChunks nboot size dd) choice idx

def bsvMaskAt (filt mc pol : Bool) (want : List (Nat × Nat)) (popIds : List Nat) (idx : List Nat) : Bool :=
  maskAt (bsvBootPolarized filt mc pol) (bsvBootMaskCorners filt mc pol) (bsvProjections want popIds) idx

/-! ### `Spectrum.from_data_dict_corrected`: the spectrum corrected for ancestral misidentification (Hernandez et al. 2007)

    The generated pieces: which SNPs `_data_by_tri` keeps (`triBiallelicLen`, `triSkip`), which allele is the derived one
    (`triDerivedIfA1Outgroup/…A2…`), the value read from the table (`corrFuxOfFile`), the combination of a class with the class it would
    be mistaken for (`corrRux`, `corrRxuInner`, `corrAcc`), the class spectra (`corrClassPolarized`), the `force_pos` step (`corrNeg`). -/

/-- a dictionary entry with the flanking-base contexts: `context` = i0 · i2 (the middle base is not looked at), `outgroup_context` =
    o0 o1 o2; `hasCtx` = both keys present -/
structure TriSnp where
  snp : Snp
  hasCtx : Bool
  i0 : Nat
  i2 : Nat
  o0 : Nat
  o1 : Nat
  o2 : Nat
deriving Repr, DecidableEq

/-- a class of SNPs: ((flank, derived allele, flank), outgroup base) -/
abbrev TriKey := (Nat × Nat × Nat) × Nat

inductive TriRes where
  | skip
  | keep (k : TriKey)
  | valueError          -- the middle base of the outgroup context is not the recorded outgroup allele
  | keyError            -- no 'outgroup_allele' key
deriving Repr, DecidableEq

/-- the derived allele `_data_by_tri` writes into the class key -/
def triDerived (t : TriSnp) : Nat :=
  if t.snp.a1 == t.o1 then (if triDerivedIfA1Outgroup = 1 then t.snp.a1 else t.snp.a2)
  else (if triDerivedIfA2Outgroup = 1 then t.snp.a1 else t.snp.a2)

/-- one iteration of the loop of `_data_by_tri` -/
def triClassify (t : TriSnp) : TriRes :=
  if t.snp.nseg ≠ triBiallelicLen then .skip
  else if !t.hasCtx then .skip
  else match t.snp.out with
    | none => .keyError
    | some og0 =>
      if t.o1 ≠ og0 then .valueError
      else if triSkip (t.o0 == t.i0) (t.o2 == t.i2) (isBase t.i0) (isBase t.i2) (t.o1 == t.snp.a1 || t.o1 == t.snp.a2)
                (isBase t.snp.a1) (isBase t.snp.a2) then .skip
      else .keep ((t.i0, triDerived t, t.i2), t.o1)

/-- `result.setdefault(key, {}); result[key][snp] = snp_info` (classes in first-appearance order, SNPs in order) -/
def groupInsert (k : TriKey) (s : Snp) : List (TriKey × List Snp) → List (TriKey × List Snp)
  | [] => [(k, [s])]
  | (k', l) :: rest => if k' = k then (k', l ++ [s]) :: rest else (k', l) :: groupInsert k s rest

/-- `_data_by_tri`; `none` = an exception (ValueError / KeyError) -/
def byContext : List TriSnp → List (TriKey × List Snp) → Option (List (TriKey × List Snp))
  | [], acc => some acc
  | t :: rest, acc =>
    match triClassify t with
    | .skip => byContext rest acc
    | .keep k => byContext rest (groupInsert k t.snp acc)
    | _ => none

/-- the class a class would be mistaken for: derived allele and outgroup base exchanged -/
def misKey (k : TriKey) : TriKey := ((k.1.1, k.2, k.1.2.2), k.1.2.1)

/-- `Rux + Rxu` for one pair of classes at the entry `idx` (`Nxu_rev` and the outer `reverse_array` are index mirrorings) -/
def corrPairAt (proj : List Nat) (fux fxu : Rat) (nomis mis : List Snp) (idx : List Nat) : Rat :=
  let nux := fun i => spectrumAt corrClassPolarized proj nomis i
  let nxuRev := fun i => spectrumAt corrClassPolarized proj mis (mirror proj i)
  corrAcc (corrRux fux fxu (nux idx) (nxuRev idx))
          (corrRxuInner fux fxu (nux (mirror proj idx)) (nxuRev (mirror proj idx)))

/-- the `while by_context` loop: the last class is popped, then the class it would be mistaken for (empty if absent) -/
def corrLoop (proj : List Nat) (F : TriKey → Rat) : Nat → List (TriKey × List Snp) → (List Nat → Rat) → (List Nat → Rat)
  | 0, _, acc => acc
  | fuel+1, l, acc =>
    match l.getLast? with
    | none => acc
    | some (k, nomis) =>
      let rest := l.dropLast
      let mk := misKey k
      let mis := ((rest.find? fun e => e.1 == mk).map (·.2)).getD []
      let rest' := rest.filter fun e => e.1 != mk
      corrLoop proj F fuel rest' fun idx => acc idx + corrPairAt proj (F k) (F mk) nomis mis idx

/-- `force_pos`: negative entries are removed and added to the mirrored entry -/
def forcePosAt (proj : List Nat) (u : List Nat → Rat) (idx : List Nat) : Rat :=
  u idx - corrNeg (u idx) + corrNeg (u (mirror proj idx))

/-- data of `Spectrum.from_data_dict_corrected(dd, pop_ids, proj, table, force_pos)`; `F` = the table as read (`fux_dict`) -/
def correctedAt (proj : List Nat) (F : TriKey → Rat) (forcePos : Bool) (ts : List TriSnp) : Option (List Nat → Rat) :=
  (byContext ts []).map fun groups =>
    let u := corrLoop proj F groups.length groups fun _ => 0
    if forcePos then forcePosAt proj u else u

/-! ### statistics from a one-dimensional spectrum `f : Nat → Rat` with sample size `n` -/

/-- `S()`: mask the corners, sum -/
def sOf (n : Nat) (f : Nat → Rat) : Rat := sumRange (n + 1) fun i => if i = 0 ∨ i = n then 0 else f i

/-- Σ_{k=1}^{n-1} term k -/
def harm (term : Rat → Rat) (n : Nat) : Rat := sumRange (n - 1) fun k => term ((k + 1 : Nat) : Rat)

def wattersonOf (n : Nat) (f : Nat → Rat) : Rat := wattersonOuter (sOf n f) (harm harmTerm n)

def thetaLOf (n : Nat) (f : Nat → Rat) : Rat :=
  thetaLOuter (sumRange (n - 1) fun k => ((k + 1 : Nat) : Rat) * f (k + 1)) (n : Rat)

def piOf (n : Nat) (f : Nat → Rat) : Rat :=
  piOuter (n : Rat) (sumRange (n + 1) fun i => piTerm (f i) (piFreq (i : Rat) (n : Rat)))

/-- the argument of the square root in Tajima's D -/
def tajVarOf (n : Nat) (f : Nat → Rat) : Rat :=
  tajVar (n : Rat) (harm tajA1Term n) (harm tajA2Term n) (sOf n f)

/-- Tajima's D with the square root supplied -/
def tajimaOf (sqrtC : Rat) (n : Nat) (f : Nat → Rat) : Rat := tajD (piOf n f) (wattersonOf n f) sqrtC

/-! ### Fst from a d-dimensional spectrum -/

def ratSumNat (l : List Nat) : Rat := sumMap l fun n => (n : Rat)

/-- Σ over populations of a term of (sample size, index) -/
def sumPops : List Nat → List Nat → (Rat → Rat → Rat) → Rat
  | n :: ns, c :: cs, t => t (n : Rat) (c : Rat) + sumPops ns cs t
  | _, _, _ => 0

structure FstConsts where
  r : Rat
  nsum : Rat
  nbar : Rat
  nc : Rat

def fstConsts (ns : List Nat) : FstConsts :=
  let r : Rat := (ns.length : Rat)
  let nsum := ratSumNat ns
  { r := r, nsum := nsum, nbar := nsum / r, nc := fstNc nsum (sumMap ns fun n => (n : Rat) ^ 2) r }

def fstPbar (ns idx : List Nat) : Rat :=
  fstPbarOuter (sumPops ns idx fun n c => fstPbarTerm n (fstPtw c n)) (fstConsts ns).nsum (fstConsts ns).r

def fstS2 (ns idx : List Nat) : Rat :=
  let K := fstConsts ns
  let pbar := fstPbar ns idx
  fstS2Outer (sumPops ns idx fun n c => fstS2Term n (fstPtw c n) pbar) K.r K.nbar

/-- the arrays `a` and `d` of `Fst` at the entry `idx` -/
def fstAAt (ns idx : List Nat) : Rat :=
  let K := fstConsts ns
  fstA K.nbar K.nc K.r (fstPbar ns idx) (fstS2 ns idx)

def fstDAt (ns idx : List Nat) : Rat :=
  let K := fstConsts ns
  fstD K.nbar K.r (fstPbar ns idx) (fstS2 ns idx)

def shapeOf (ns : List Nat) : List Nat := ns.map (· + 1)

def fstASum (ns : List Nat) (f : List Nat → Rat) : Rat := boxSum (shapeOf ns) fun idx => f idx * fstAAt ns idx
def fstDSum (ns : List Nat) (f : List Nat → Rat) : Rat := boxSum (shapeOf ns) fun idx => f idx * fstDAt ns idx

def fstOf (ns : List Nat) (f : List Nat → Rat) : Rat := fstRatio (fstASum ns f) (fstDSum ns f)

/-! ### the same statistics by direct counting on the genotype matrix
    (a column = one SNP in one population, one Boolean per chromosome, `true` = derived allele) -/

def countTrue (col : List Bool) : Nat := (col.filter id).length
def countFalse (col : List Bool) : Nat := (col.filter fun b => !b).length

/-- number of discordant (unordered) pairs of chromosomes -/
def discordant : List Bool → Nat
  | [] => 0
  | b :: rest => (rest.filter (· != b)).length + discordant rest

def isSeg (col : List Bool) : Bool := col.any id && col.any (fun b => !b)

/-- the data-dictionary entry of a fully called, correctly polarised SNP (ancestral allele A, derived T) -/
def snpOfCols (cols : List (List Bool)) : Snp :=
  { chrom := 0, pos := 0, info := 0, nseg := 2, a1 := 1, a2 := 4, out := some 1,
    calls := cols.map fun c => (countFalse c, countTrue c) }

def sDirect (cols : List (List Bool)) : Rat := ((cols.filter isSeg).length : Rat)

def piDirect (n : Nat) (cols : List (List Bool)) : Rat :=
  (sumMap cols fun c => (discordant c : Rat)) / ((choose n 2 : Nat) : Rat)

def wattersonDirect (n : Nat) (cols : List (List Bool)) : Rat := wattersonOuter (sDirect cols) (harm harmTerm n)

def thetaLDirect (n : Nat) (cols : List (List Bool)) : Rat :=
  thetaLOuter (sumMap cols fun c => if isSeg c then (countTrue c : Rat) else 0) (n : Rat)

def tajVarDirect (n : Nat) (cols : List (List Bool)) : Rat :=
  tajVar (n : Rat) (harm tajA1Term n) (harm tajA2Term n) (sDirect cols)

def tajimaDirect (sqrtC : Rat) (n : Nat) (cols : List (List Bool)) : Rat :=
  tajD (piDirect n cols) (wattersonDirect n cols) sqrtC

/-- Weir–Cockerham ratio of sums over SNPs; `snps` = per SNP the columns of the populations -/
def fstDirect (ns : List Nat) (snps : List (List (List Bool))) : Rat :=
  fstRatio (sumMap snps fun cols => fstAAt ns (cols.map countTrue))
           (sumMap snps fun cols => fstDAt ns (cols.map countTrue))

/-! ### the statistics of a spectrum PROJECTED from `n` to `m` chromosomes, by direct counting on the full columns -/

/-- the probability that `m` of the `n` chromosomes of a column with `i` derived alleles are not all alike -/
def segProb (m n i : Nat) : Rat := 1 - projWeight m n i 0 - projWeight m n i m

/-- expected number of columns that still segregate among `m` of their `n` chromosomes (= `S` of the projected spectrum) -/
def sProj (m n : Nat) (cols : List (List Bool)) : Rat := sumMap cols fun c => segProb m n (countTrue c)

def wattersonProj (m n : Nat) (cols : List (List Bool)) : Rat := wattersonOuter (sProj m n cols) (harm harmTerm m)

/-- θ_L of the projected spectrum: the mean derived count m·i/n minus the "all `m` derived" class, over m − 1 -/
def thetaLProj (m n : Nat) (cols : List (List Bool)) : Rat :=
  thetaLOuter (sumMap cols fun c => (m : Rat) * (countTrue c : Rat) / (n : Rat) - (m : Rat) * projWeight m n (countTrue c) m) (m : Rat)

def tajVarProj (m n : Nat) (cols : List (List Bool)) : Rat :=
  tajVar (m : Rat) (harm tajA1Term m) (harm tajA2Term m) (sProj m n cols)

/-- Tajima's D of the projected spectrum: π̂ of the full data (invariant), θ_W and the variance from the projected S -/
def tajimaProj (sqrtC : Rat) (m n : Nat) (cols : List (List Bool)) : Rat :=
  tajD (piDirect n cols) (wattersonProj m n cols) sqrtC

/-! ### what `S` does to the spectrum it is called on (the statements are generated: `sBody`)

    `S` saves the mask, masks the two corner entries in place, sums the visible entries and puts the saved mask back.
    The saved mask is either a copy or the live mask itself; in the second case the in-place `mask_corners()` is seen
    through it and putting it back changes nothing. -/

inductive SavedMask where
  | nothing
  | copy (m : List Nat → Bool)
  | alias

structure SState where
  live : List Nat → Bool
  saved : SavedMask
  s : Rat

def sStep (proj : List Nat) (f : List Nat → Rat) (st : SState) : MaskStmt → SState
  | .saveCopy => { st with saved := .copy st.live }
  | .saveAlias => { st with saved := .alias }
  | .maskCorners => { st with live := fun idx => st.live idx || isCorner proj idx }
  | .sumVisible => { st with s := boxSum (shapeOf proj) fun idx => if st.live idx then 0 else f idx }
  | .restore => match st.saved with
      | .copy m => { st with live := m }
      | _ => st

def sRunWith (body : List MaskStmt) (proj : List Nat) (f : List Nat → Rat) (m : List Nat → Bool) : SState :=
  body.foldl (sStep proj f) { live := m, saved := .nothing, s := 0 }

/-- the state after `fs.S()` on a spectrum with data `f` and mask `m`: `.s` the value returned, `.live` the mask left behind -/
def sRun (proj : List Nat) (f : List Nat → Rat) (m : List Nat → Bool) : SState := sRunWith sBody proj f m

end DadiVerif.DataDict
