import DadiVerif.Generated.DFE
/-!
# C17 — executable model of DFE integration and cache construction (core Lean only)

Everything is *entry-wise*: numpy applies the same scalar program to every entry of the cached spectra, so a cache is
modelled, for one fixed spectrum entry, as a function of the gamma index (`S i`, 1-D) or of the pair of gamma indices
(`S i j`, 2-D).  The driver maps the functions below over the entries.

pdf values (`w`), quad / dblquad results (`wt`, `wv`, `C`) and square roots are *numbers supplied by the caller*: the
model is the assembly (which spectrum slice meets which weight, the trapezoid rule, theta, point masses, mixtures),
and every assembly line is the GENERATED definition of `Generated/DFE.lean` (namespace `Gen.DFE`), re-translated from
the current source on every run.
-/
namespace DadiVerif.DFE
open DadiVerif.Gen.DFE

/-! ## trapezoid rule -/

/-- Σ_{i<n} f i -/
def sumTo : Nat → (Nat → Rat) → Rat
  | 0, _ => 0
  | n + 1, f => sumTo n f + f n

/-- `numpy.trapz(y, x, axis=0)` on `n` nodes: Σ_{i<n-1} (x_{i+1} − x_i)·(y_{i+1} + y_i)/2 -/
def trapz (n : Nat) (x y : Nat → Rat) : Rat :=
  sumTo (n - 1) fun i => (x (i + 1) - x i) * (y (i + 1) + y i) / 2

/-! ## Cache1D.integrate -/

/-- `n` negative gammas `x 0 < … < x (n-1) < 0`, pdf values `w i` at `-x i`, cached entry `S i`, neutral spectrum entry
    `neu`, tail masses `wt Reg.N`, `wt Reg.D` -/
def integrate1D (ext : Bool) (theta : Rat) (n : Nat) (x w S : Nat → Rat) (neu : Rat) (wt : Reg → Rat) : Rat :=
  let fs0 := trapz n x fun i => int1D_weighted (w i) (S i)
  if ext then int1D_ext theta fs0 neu (S 0) (S (n - 1)) wt else int1D_noext theta fs0

/-! ## Cache1D.integrate_point_pos -/

/-- `pdf_params = params[:-2*Npos]`, `ppos_l = params[-2*Npos::2]`, `gammapos_l = params[-2*Npos+1::2]`
    (modelled for `Npos ≥ 1` and `len params ≥ 2*Npos`) -/
def pp1Split (params : List Rat) (npos : Nat) : Except String (List Rat × List Rat × List Rat) :=
  if npos = 0 ∨ params.length < 2 * npos then .error "unmodelled"
  else
    let tail := pyDropNeg params (2 * npos)
    .ok (pyTakeNeg params (2 * npos), everyOther tail, everyOther (tail.drop 1))

/-- the loop over the point masses.  State: cached gammas `gs` and, for this entry, the cached values `sp` (same length).
    `computed g` = the entry of `demo_sel_func(params + (g,))` when a demo function was supplied, `none` otherwise. -/
def pp1Loop (theta : Rat) (computed : Rat → Option Rat) :
    List (Rat × Rat) → List Rat → List Rat → Rat → Except String (Rat × List Rat × List Rat)
  | [], gs, sp, result => .ok (result, gs, sp)
  | (ppos, g) :: rest, gs, sp, result =>
      let st : Except String (List Rat × List Rat) :=
        if gs.contains g then .ok (gs, sp)
        else match computed g with
          | none => .error "IndexError"
          | some c => .ok (gs ++ [g], sp ++ [pp1_store theta c])
      match st with
      | .error e => .error e
      | .ok (gs', sp') =>
          let pos_fs := sp'.getD (gs'.idxOf g) 0
          pp1Loop theta computed rest gs' sp' (pp1_step result ppos theta pos_fs)

/-- `pdf_fs` is what `self.integrate(pdf_params, …, pp1_thetaArg theta, …)` returned for this entry -/
def pointPos1D (theta : Rat) (computed : Rat → Option Rat) (pposL gposL : List Rat) (gs sp : List Rat) (pdf_fs : Rat) :
    Except String (Rat × List Rat × List Rat) :=
  pp1Loop theta computed (pposL.zip gposL) gs sp (pp1_base theta pposL pdf_fs)

/-! ## Cache2D.integrate -/

def ratAbs' (q : Rat) : Rat := if q < 0 then -q else q

/-- `np.allclose(t, t.T, atol, rtol)` on the 3×3 probe matrix -/
def symmetricTest (t : Nat → Nat → Rat) : Bool :=
  (List.range 3).all fun i => (List.range 3).all fun j =>
    decide (ratAbs' (t i j - t j i) ≤ symAtol + symRtol * ratAbs' (t j i))

/-- `w i j` = pdf at (−x i, −x j); `S i j` cached entry for (gamma1 = x i, gamma2 = x j) -/
def integrate2D (ext sym : Bool) (theta : Rat) (n : Nat) (x : Nat → Rat) (w S : Nat → Nat → Rat)
    (wv : Reg → Reg → Nat → Rat) (C : Reg → Reg → Rat) : Rat :=
  let temp := fun j => trapz n x fun i => int2D_weighted (w i j) (S i j)
  let fs0 := trapz n x temp
  if ext then int2D_ext sym theta fs0 n (trapz n x) S wv C else int2D_noext theta fs0

/-! ## Cache2D.integrate_point_pos -/

/-- positions of `g` in the cached gammas (numpy boolean mask `self.gammas == g`) -/
def maskIdx (gs : List Rat) (g : Rat) : List Nat :=
  (List.range gs.length).filter fun i => gs.getD i 0 == g

/-- `np.trapz(weights, neg_gammas, axis)` evaluated at the remaining index `k` -/
def margW (n : Nat) (x : Nat → Rat) (w : Nat → Nat → Rat) (axis k : Nat) : Rat :=
  if axis = 0 then trapz n x (fun i => w i k) else trapz n x (fun j => w k j)

/-- `i1`, `i2` = positions of gammapos1 / gammapos2 in the cache; `negneg` = `self.integrate(biv_params, …, pp2_thetaArg theta, …)` -/
def pointPos2D (sqrt : Rat → Rat) (theta rho : Rat) (n : Nat) (x : Nat → Rat) (w S : Nat → Nat → Rat)
    (i1 i2 : Nat) (ppos1 ppos2 negneg : Rat) : Rat :=
  let pos_neg := trapz n x fun k => pp2_posNegTerm (margW n x w pp2_posNegAxis k) (S i1 k)
  let neg_pos := trapz n x fun k => pp2_negPosTerm (margW n x w pp2_negPosAxis k) (S k i2)
  pp2_ret theta (pp2_combine (p_pos_pos sqrt ppos1 ppos2 rho) (p_pos_neg sqrt ppos1 ppos2 rho)
    (p_neg_pos sqrt ppos1 ppos2 rho) (p_neg_neg sqrt ppos1 ppos2 rho) (S i1 i2) pos_neg neg_pos negneg)

/-- the whole method for one entry, pdf numbers given -/
def integratePointPos2D (sqrt : Rat → Rat) (sym : Bool) (theta rho : Rat) (n : Nat) (x : Nat → Rat) (w S : Nat → Nat → Rat)
    (wv : Reg → Reg → Nat → Rat) (C : Reg → Reg → Rat) (i1 i2 : Nat) (ppos1 ppos2 : Rat) : Rat :=
  pointPos2D sqrt theta rho n x w S i1 i2 ppos1 ppos2
    (integrate2D pp2_negnegExterior sym (pp2_thetaArg theta) n x w S wv C)

/-- value of a named entry of `params[-4:]` according to the generated unpacking order -/
def tailValue (names : List String) (vals : List Rat) (nm : String) : Except String Rat :=
  match (names.zip vals).find? (fun p => p.1 == nm) with
  | some p => .ok p.2
  | none => .error "NameError"

/-- `biv_params = params[:-4]`, the four trailing values by name, and rho as bound by the caller:
    (biv_params, ppos1, gammapos1, ppos2, gammapos2, rho).  `rho = None` fails at the first arithmetic use. -/
def pp2Wire (params : List Rat) (rho : ArgBind) : Except String (List Rat × Rat × Rat × Rat × Rat × Rat) := do
  let tl := pyDropNeg params 4
  if tl.length ≠ 4 then .error "ValueError:unpack" else
  let p1 ← tailValue pp2_tail tl "ppos1"
  let g1 ← tailValue pp2_tail tl "gammapos1"
  let p2 ← tailValue pp2_tail tl "ppos2"
  let g2 ← tailValue pp2_tail tl "gammapos2"
  let r ← match rho with
    | .given v => .ok v
    | .dflt => .ok pp2_rhoDefault
    | .isNone => .error "TypeError:rho=None"
  .ok (pyTakeNeg params 4, p1, g1, p2, g2, r)

/-- integrate_symmetric_point_pos: what reaches integrate_point_pos -/
def sppWire (params : List Rat) : Except String (List Rat × Rat × Rat × Rat × Rat × Rat) := do
  let (p, r) ← spp_wiring params
  pp2Wire p r

/-! ## Vourlaki_mixture -/

/-- `wg k` = PDFs.gamma at −x k, `wt` its tail masses, `posNeg k` = entry of spectra[gamma_pos, k], `negPos k` = entry of
    spectra[k, gamma_pos], m2 = entry of spectra[gamma_pos, gamma_pos], m5 / m6 = the 1-D / 2-D integrals with theta = 1 -/
def vourlaki (theta : Rat) (n : Nat) (x wg : Nat → Rat) (wt : Reg → Rat) (posNeg negPos : Nat → Rat)
    (m2 m5 m6 ppos_wild pchange pchange_pos : Rat) : Rat :=
  let m4 := vk_m4 (trapz n x fun k => vk_m4Term (wg k) (posNeg k)) (posNeg 0) (posNeg (n - 1)) wt
  let m7 := vk_m7 (trapz n x fun k => vk_m7Term (wg k) (negPos k)) (negPos 0) (negPos (n - 1)) wt
  vk_ret theta (vk_mix m2 m2 m4 m5 m6 m7 ppos_wild pchange pchange_pos)

/-! ## cache construction: results list → table -/

section build
variable {κ ν : Type} [DecidableEq κ]

/-- `for key, val in results: table[key] = val` read back as a lookup (later entries win) -/
def assign : List (κ × ν) → κ → Option ν
  | [], _ => none
  | p :: rs, k => match assign rs k with
    | some v => some v
    | none => if p.1 = k then some p.2 else none

/-- the results list may contain exception objects appended by a worker; unpacking one raises TypeError -/
def collect : List (Except String (κ × ν)) → Except String (List (κ × ν))
  | [] => .ok []
  | .error _ :: _ => .error "TypeError:unpack"
  | .ok p :: rs => match collect rs with
    | .ok l => .ok (p :: l)
    | .error e => .error e

/-- the table a multi-process construction ends with (or the error it raises) -/
def buildTable (results : List (Except String (κ × ν))) : Except String (κ → Option ν) :=
  match collect results with
  | .ok l => .ok (assign l)
  | .error e => .error e
end build

/-- the (ii, jj) pairs job `job` of `split` evaluates on a G×G table; `this_eval = ii*G + jj` -/
def jobCells (multi : Bool) (G split job : Nat) : List (Nat × Nat) :=
  ((List.range (G * G)).filter fun k =>
      if multi then jobTestMulti k split job else jobTestSingle k split job).map fun k => (k / G, k % G)

/-- does job `job` evaluate flat cell `k` -/
def jobOwns (multi : Bool) (split job k : Nat) : Bool :=
  if multi then jobTestMulti k split job else jobTestSingle k split job

/-! ## Cache2D.merge on flattened tables `k ↦ Option value`, `k < N` -/

section merge
variable {V : Type} [BEq V]

def firstError (N : Nat) (cur other : Nat → Option V) : Option String :=
  (List.range N).findSome? fun k => match mergeCell (cur k) (other k) with
    | .error e => some e
    | .ok _ => none

/-- one `for other in caches[1:]` iteration -/
def mergeStep (N : Nat) (cur other : Nat → Option V) : Except String (Nat → Option V) :=
  match firstError N cur other with
  | some e => .error e
  | none => .ok fun k => match mergeCell (cur k) (other k) with
      | .ok v => v
      | .error _ => cur k

def mergeAll (N : Nat) : (Nat → Option V) → List (Nat → Option V) → Except String (Nat → Option V)
  | cur, [] => .ok cur
  | cur, o :: os => match mergeStep N cur o with
    | .ok c => mergeAll N c os
    | .error e => .error e

def complete (N : Nat) (t : Nat → Option V) : Bool := (List.range N).all fun k => (t k).isSome

def merge (N : Nat) (caches : List (Nat → Option V)) : Except String (Nat → Option V) :=
  match caches with
  | [] => .error "IndexError"
  | c0 :: rest => match mergeAll N c0 rest with
    | .ok t => if complete N t then .ok t else .error "ValueError:incomplete"
    | .error e => .error e
end merge

/-! ## whole methods composed from the pieces above (one spectrum entry): what `c17.pp1`, `c17.mixfull`, `c17.mixptfull` run -/

/-- `Cache1D.integrate_point_pos`: the continuous part is the model's own `integrate1D` over the cached row `sp`
    (the first `n` entries of `sp` belong to the negative gammas `x`) -/
def integratePointPos1D (ext : Bool) (theta : Rat) (computed : Rat → Option Rat) (pposL gposL gs sp : List Rat)
    (n : Nat) (x w : Nat → Rat) (neu : Rat) (wt : Reg → Rat) : Except String (Rat × List Rat × List Rat) :=
  pointPos1D theta computed pposL gposL gs sp
    (integrate1D ext (pp1_thetaArg theta) n x w (fun i => sp.getD i 0) neu wt)

/-- `DFE.mixture` with both components computed by the model (the wiring of the parameter vector is `mix_wiring`) -/
def mixtureEntry (ext : Bool) (theta p2d : Rat) (n1 : Nat) (x1 w1 S1 : Nat → Rat) (neu : Rat) (wt : Reg → Rat)
    (sym : Bool) (n2 : Nat) (x2 : Nat → Rat) (w2 S2 : Nat → Nat → Rat) (wv : Reg → Reg → Nat → Rat) (C : Reg → Reg → Rat) : Rat :=
  mix_combine p2d (integrate1D ext theta n1 x1 w1 S1 neu wt) (integrate2D ext sym theta n2 x2 w2 S2 wv C)

/-- `DFE.mixture_point_pos` (`symm = false`) / `DFE.mixture_symmetric_point_pos` (`symm = true`): the 1-D component is
    `integrate_point_pos` with one point mass (ppos, gpos), exterior integration and no demo function, the 2-D component
    `integrate_point_pos` with (p1, i1, p2, i2, rho) as delivered by `mixpt_wiring` / `mixsym_wiring` + `sppWire` -/
def mixturePointEntry (symm : Bool) (sqrt : Rat → Rat) (theta p2d : Rat) (ppos gpos : Rat) (gs1 sp1 : List Rat)
    (n1 : Nat) (x1 w1 : Nat → Rat) (neu : Rat) (wt : Reg → Rat)
    (sym : Bool) (rho : Rat) (n2 : Nat) (x2 : Nat → Rat) (w2 S2 : Nat → Nat → Rat) (wv : Reg → Reg → Nat → Rat) (C : Reg → Reg → Rat)
    (i1 i2 : Nat) (p1 p2 : Rat) : Except String Rat :=
  match integratePointPos1D true theta (fun _ => none) [ppos] [gpos] gs1 sp1 n1 x1 w1 neu wt with
  | .error e => .error e
  | .ok (fs1, _, _) =>
      let fs2 := integratePointPos2D sqrt sym theta rho n2 x2 w2 S2 wv C i1 i2 p1 p2
      .ok (if symm then mixsym_combine p2d fs1 fs2 else mixpt_combine p2d fs1 fs2)

end DadiVerif.DFE
