import DadiVerif.Model.ModelDSL
import DadiVerif.Model.ModelUnits
/-!
# C15 — value-dependent branches: both sides of a comparison mean the same on the branch boundary (core Lean only)

A model body may branch on a comparison between parameters — `if T >= Ts: … else: …`, or a conditional expression
`nu2 = nuEu if nuEu0 == nuEu else nuEu_func` (which `tools/gen_Models.py` translates as the statement in both forms under a
`Prog.ite`).  The trace of such a model is a tree (`Tr.ite`).  Whatever the comparison operator is, the model is a continuous
function of its parameters only if the two branch *formulas* agree where the two sides of the comparison are equal.

* `substP n a e`: the parameter `n` replaced by the expression `a` (the boundary: `Ts := T`, `nuEu := nuEu0`, `T := 0`);
* `bsimp`: the normaliser for the boundary, `simp` of Model/ModelDSL.lean (`1*x = x*1 = x`, `x - 0 = x`) plus
  `x - x = 0`, `x*0 = 0*x = 0`, `0/x = 0`, `1**x = 1`, `exp(0) = 1`, and `nu/nu = 1` for a *size* parameter (`nu*`: positive);
* `constLam`: a size function whose body does not mention the time is the constant (`lambda t: nuEu` is `nuEu`);
* `bnormTr`: substitution, `bsimp`, `constLam` on every argument, zero-duration integrations dropped;
* `prune c v`: inside a branch of `if c`, a nested `if c` on the *same* comparison is decided;
* `boundaryTr`: for every `ite c a b` of a trace, `a` and `b` (pruned) have the same boundary normal form.
Soundness (Lemmas/ModelBoundary.lean): in every lawful interpretation that also satisfies these laws (`BoundaryLawful`), at
every valuation on the boundary the two branches have the same meaning.
-/
namespace DadiVerif.ModelDSL

/-- replace the parameter `n` by the expression `a` -/
def substP (n : Name) (a : Expr) : Expr → Expr
  | .param k => if k = n then a else .param k
  | .neg e => .neg (substP n a e)
  | .add x y => .add (substP n a x) (substP n a y)
  | .sub x y => .sub (substP n a x) (substP n a y)
  | .mul x y => .mul (substP n a x) (substP n a y)
  | .div x y => .div (substP n a x) (substP n a y)
  | .pow x y => .pow (substP n a x) (substP n a y)
  | .call1 f e => .call1 f (substP n a e)
  | .lam b => .lam (substP n a b)
  | .app f e => .app (substP n a f) (substP n a e)
  | .tcons h t => .tcons (substP n a h) (substP n a t)
  | e => e

/-- a scalar expression that does not mention the time variable (no function, no tuple inside) -/
def timeFree : Expr → Bool
  | .param _ => true
  | .lit _ _ => true
  | .sym _ => true
  | .neg e => timeFree e
  | .add a b => timeFree a && timeFree b
  | .sub a b => timeFree a && timeFree b
  | .mul a b => timeFree a && timeFree b
  | .div a b => timeFree a && timeFree b
  | .pow a b => timeFree a && timeFree b
  | .call1 _ e => timeFree e
  | _ => false

/-- a size parameter (`nu*`): positive in the documented bounds, so `nu/nu = 1` -/
def isSizeParam (n : Name) : Bool := paramUnit n == some U.Size

def bSub (a b : Expr) : Expr := if a = b then zero else mkSub a b
def bMul (a b : Expr) : Expr := if a = zero ∨ b = zero then zero else mkMul a b
/-- `nu / nu` for a size parameter `nu` -/
def sizeSelfDiv : Expr → Expr → Bool
  | .param n, .param k => n == k && isSizeParam n
  | _, _ => false
def bDiv (a b : Expr) : Expr :=
  if a = zero then zero else if sizeSelfDiv a b = true then one else .div a b
def bPow (a b : Expr) : Expr := if a = one then one else .pow a b
def bCall (f : Name) (e : Expr) : Expr := if f = nm! "numpy.exp" ∧ e = zero then one else .call1 f e

/-- the boundary normaliser on expressions -/
def bsimp : Expr → Expr
  | .neg e => .neg (bsimp e)
  | .add a b => .add (bsimp a) (bsimp b)
  | .sub a b => bSub (bsimp a) (bsimp b)
  | .mul a b => bMul (bsimp a) (bsimp b)
  | .div a b => bDiv (bsimp a) (bsimp b)
  | .pow a b => bPow (bsimp a) (bsimp b)
  | .call1 f e => bCall f (bsimp e)
  | .lam b => .lam (bsimp b)
  | .app f a => .app (bsimp f) (bsimp a)
  | .tcons h t => .tcons (bsimp h) (bsimp t)
  | e => e

/-- a function of time that does not depend on the time is the constant -/
def constLam : Expr → Expr
  | .lam b => if timeFree b = true then b else .lam b
  | e => e

def bArgs (n : Name) (a : Expr) : List (Name × Expr) → List (Name × Expr)
  | [] => []
  | (k, e) :: r => (k, constLam (bsimp (substP n a e))) :: bArgs n a r

def bCallN (n : Name) (a : Expr) (c : Call) : Call := ⟨c.fn, bArgs n a c.args⟩

def bSteps (ints : List Name) (n : Name) (a : Expr) : List Call → List Call
  | [] => []
  | c :: rest =>
      if isZeroDur ints (bCallN n a c) then bSteps ints n a rest else bCallN n a c :: bSteps ints n a rest

def bRun (ints : List Name) (n : Name) (a : Expr) (r : Run) : Run :=
  ⟨bCallN n a r.start, bSteps ints n a r.steps, bCallN n a r.fin⟩

/-- boundary normal form of a trace: the parameter `n` set to `a` -/
def bnormTr (ints : List Name) (n : Name) (a : Expr) : Tr → Tr
  | .leaf r => .leaf (bRun ints n a r)
  | .ite c x y => .ite ⟨c.op, bsimp (substP n a c.lhs), bsimp (substP n a c.rhs)⟩ (bnormTr ints n a x) (bnormTr ints n a y)

/-- inside a branch of `if c` (outcome `v`), a nested `if` on the same comparison is decided -/
def prune (c : Cond) (v : Bool) : Tr → Tr
  | .leaf r => .leaf r
  | .ite c' a b =>
      if c' = c then (if v then prune c v a else prune c v b) else .ite c' (prune c v a) (prune c v b)

/-- the boundary of a comparison as a substitution: `(n, a)` with `n` a parameter on one side and `a` the (time-free) other side -/
def boundarySubst (c : Cond) : Option (Name × Expr) :=
  match c.rhs with
  | .param r => if timeFree c.lhs = true then some (r, c.lhs) else none
  | _ =>
      match c.lhs with
      | .param l => if timeFree c.rhs = true then some (l, c.rhs) else none
      | _ => none

/-- the two branches of `if c` have the same boundary normal form -/
def boundaryNodeOK (ints : List Name) (c : Cond) (a b : Tr) : Bool :=
  match boundarySubst c with
  | some (n, e) => bnormTr ints n e (prune c true a) == bnormTr ints n e (prune c false b)
  | none => false

/-- every comparison of the trace: both branches mean the same where its two sides are equal -/
def boundaryTr (ints : List Name) : Tr → Bool
  | .leaf _ => true
  | .ite c a b => boundaryNodeOK ints c a b && boundaryTr ints a && boundaryTr ints b

/-- the comparisons of a trace, with the verdict of each -/
def boundaryNodes (ints : List Name) : Tr → List (Cond × Bool)
  | .leaf _ => []
  | .ite c a b => (c, boundaryNodeOK ints c a b) :: (boundaryNodes ints a ++ boundaryNodes ints b)

/-- the boundary obligation for one model: its symbolic run at its own parameters -/
def modelBoundaryOK (tbl : List Model) (sigs : List Sig) (m : Model) : Bool :=
  match symbolicRun tbl sigs m.name (m.paramNames.map .param) with
  | some t => boundaryTr (integrators sigs) t
  | none => false

end DadiVerif.ModelDSL
