/-!
# C15 — the library models as programs of a small DSL (core Lean only)

`tools/gen_Models.py` translates every function exposing `__param_names__` in dadi/Demographics1D/2D/3D.py,
dadi/PortikModels/portik_models_2d/3d.py and dadi/DFE/DemogSelModels.py into a `Prog` (Generated/Models.lean), and the
signatures of the primitives the models call (PhiManip.*, Integration.*, Spectrum.from_phi*) into a `Sig` table.

This file defines

* the DSL (`Expr`, `Prog`, `Model`, `Sig`) — `Expr` has no nested `List`, so `DecidableEq` derives;
* `execFuel`: the *symbolic executor*: unpacking of the parameter vector (arity checked exactly as Python's tuple
  unpacking does), `let`s by substitution (β-reduction for `nu_func(T - Ts)`), delegation to another model of the table
  (`return split_mig_sel((nu1, nu2, T, m, gamma, gamma), ns, pts)`), `if` on a parameter comparison; the result is a
  *trace* `Tr`: the primitive calls in order, with keyword-bound argument expressions over the model's parameters;
* `canonTr`: Python's keyword/default binding against the generated signatures (every parameter of the primitive,
  in signature order, default filled in when the call does not pass it);
* `checkRun`/`wellFormed`: the dimension/arity checker (every primitive applied at the dimension the density has,
  `from_phi` receives one grid per population and the requested `ns`, …);
* `normTr`: the symbolic normaliser used for nesting (zero-duration integration is dropped — the integrators return
  their input when `T - initial_t == 0`; `1*x`, `x*1` are `x`);
* `Interp`: an arbitrary interpretation of scalars and primitives, and `runTr`: the meaning of a trace in it;
* `swapCalls`: relabelling of populations 1 ↔ 2 on a trace of one/two-population primitives.
The theorems are in Props/C15.lean.  The driver (Driver/Models.lean) runs *these* definitions.
-/
namespace DadiVerif.ModelDSL

/-- names (of models, parameters, primitives, keywords) are the base-256 value of their UTF-8 bytes: equality of names is
    equality of natural numbers (the kernel decides it with GMP arithmetic; equality of `String`s is far too slow to
    evaluate a hundred models in the kernel).  `nm! "nu1"` is the code of `nu1`, computed at elaboration time. -/
abbrev Name := Nat

open Lean in
macro "nm!" s:str : term =>
  return Syntax.mkNumLit (toString (s.getString.toUTF8.foldl (fun acc b => acc * 256 + b.toNat) 0))

/-- the string a name stands for (run time only: driver output) -/
def decodeName (n : Name) : String :=
  let rec go (fuel : Nat) (n : Nat) (acc : List UInt8) : List UInt8 :=
    match fuel with
    | 0 => acc
    | f + 1 => if n = 0 then acc else go f (n / 256) ((n % 256).toUInt8 :: acc)
  match String.fromUTF8? ⟨(go 4096 n []).toArray⟩ with
  | some s => s
  | none => "?"

/-- argument / parameter expressions.  `param` is a variable reference in a `Prog` (resolved by the executor) and a model
    parameter in a trace; `tvar` is the argument of a size function `lambda t: …`; `lit` is an exact non-negative
    literal in lowest terms; `sym` an opaque constant (`False`, `None`, the `ns`/`pts` arguments of the model, the
    density `phi`); `tnil/tcons` a tuple (`(xx, xx)`). -/
inductive Expr where
  | param (name : Name)
  | tvar
  | lit (num den : Nat)
  | sym (s : Name)
  | neg (e : Expr)
  | add (a b : Expr) | sub (a b : Expr) | mul (a b : Expr) | div (a b : Expr) | pow (a b : Expr)
  | call1 (fn : Name) (arg : Expr)
  | lam (body : Expr)
  | app (f arg : Expr)
  | tnil
  | tcons (hd tl : Expr)
  deriving Repr, DecidableEq, Inhabited

/-- `if lhs <op> rhs:` -/
structure Cond where
  op : Name
  lhs : Expr
  rhs : Expr
  deriving Repr, DecidableEq

/-- one primitive call with keyword-bound arguments -/
structure Call where
  fn : Name
  args : List (Name × Expr)
  deriving Repr, DecidableEq

inductive Prog where
  /-- `a, b, c = params` -/
  | unpack (names : List Name) (rest : Prog)
  /-- `name = params[i]` -/
  | index (name : Name) (i : Nat) (rest : Prog)
  /-- `name = <expr>` / `name = lambda t: <expr>` / `def name(t): return <expr>` / `xx = Numerics.default_grid(pts)` -/
  | letE (name : Name) (e : Expr) (rest : Prog)
  /-- `phi = PhiManip.f(...)` / `phi = Integration.f(...)` -/
  | prim (c : Call) (rest : Prog)
  /-- `if c: thn else: els` (the statements after the `if` are part of both branches) -/
  | ite (c : Cond) (thn els : Prog)
  /-- `fs = Spectrum.from_phi(...); return fs` -/
  | ret (c : Call)
  /-- `return other_model((e1, …, ek), ns, pts)` -/
  | delegate (model : Name) (args : List Expr)
  deriving Repr, DecidableEq

structure Model where
  /-- `<module>.<function>` -/
  name : Name
  /-- `__param_names__` -/
  paramNames : List Name
  /-- the Python signature of the function -/
  argNames : List Name
  body : Prog
  deriving Repr, DecidableEq

/-- an ms-command builder `f(params)`: only the arity clause applies -/
structure MsCore where
  name : Name
  paramNames : List Name
  argNames : List Name
  unpackNames : List Name
  deriving Repr, DecidableEq

inductive Kind where
  | start | step | finish
  deriving Repr, DecidableEq

/-- signature of a primitive, read from the source (`params`: name and default, `none` = required) -/
structure Sig where
  fn : Name
  kind : Kind
  /-- dimension of the density argument (`start`: 0; `finish`: 0 = any) -/
  dimIn : Nat
  /-- dimension of the result (`finish`: 0) -/
  dimOut : Nat
  /-- name of the density parameter -/
  phiParam : Option Name
  /-- parameters that receive a grid -/
  gridParams : List Name
  /-- parameters that receive one value per population (tuples) -/
  perPopParams : List Name
  /-- the source starts with `if T - initial_t == 0: return phi` (after the defensive copies) -/
  zeroDurationIdentity : Bool
  params : List (Name × Option Expr)
  deriving Repr, DecidableEq

abbrev Env := List (Name × Expr)

/-! ## symbolic execution -/

/-- replace the time variable (not under an inner `lam`) -/
def substT (a : Expr) : Expr → Expr
  | .tvar => a
  | .neg e => .neg (substT a e)
  | .add x y => .add (substT a x) (substT a y)
  | .sub x y => .sub (substT a x) (substT a y)
  | .mul x y => .mul (substT a x) (substT a y)
  | .div x y => .div (substT a x) (substT a y)
  | .pow x y => .pow (substT a x) (substT a y)
  | .call1 f e => .call1 f (substT a e)
  | .app f e => .app (substT a f) (substT a e)
  | .tcons h t => .tcons (substT a h) (substT a t)
  | e => e

def bin (f : Expr → Expr → Expr) : Option Expr → Option Expr → Option Expr
  | some a, some b => some (f a b)
  | _, _ => none

/-- resolve variable references (unbound name = failure, as Python's NameError) and β-reduce applications -/
def subst (env : Env) : Expr → Option Expr
  | .param n => env.lookup n
  | .tvar => some .tvar
  | .lit a b => some (.lit a b)
  | .sym s => some (.sym s)
  | .neg e => (subst env e).map .neg
  | .add a b => bin .add (subst env a) (subst env b)
  | .sub a b => bin .sub (subst env a) (subst env b)
  | .mul a b => bin .mul (subst env a) (subst env b)
  | .div a b => bin .div (subst env a) (subst env b)
  | .pow a b => bin .pow (subst env a) (subst env b)
  | .call1 f e => (subst env e).map (.call1 f)
  | .lam b => (subst env b).map .lam
  | .app f a =>
      match subst env f, subst env a with
      | some (.lam b), some a' => some (substT a' b)
      | _, _ => none
  | .tnil => some .tnil
  | .tcons h t => bin .tcons (subst env h) (subst env t)

def substList (env : Env) : List Expr → Option (List Expr)
  | [] => some []
  | e :: r =>
      match subst env e, substList env r with
      | some e', some r' => some (e' :: r')
      | _, _ => none

def substArgs (env : Env) : List (Name × Expr) → Option (List (Name × Expr))
  | [] => some []
  | (k, e) :: r =>
      match subst env e, substArgs env r with
      | some e', some r' => some ((k, e') :: r')
      | _, _ => none

/-- a straight-line run: the call that creates the density, the calls that transform it, the call that samples it -/
structure Run where
  start : Call
  steps : List Call
  fin : Call
  deriving Repr, DecidableEq

/-- a trace: the primitive calls in execution order; `ite` where the program branches on a parameter comparison -/
inductive Tr where
  | leaf (r : Run)
  | ite (c : Cond) (a b : Tr)
  deriving Repr, DecidableEq

/-- the names every model function receives besides the parameter vector -/
def baseEnv : Env := [((nm! "ns"), .sym (nm! "ns")), ((nm! "pts"), .sym (nm! "pts"))]

/-- run a model body on the argument expressions `args` (the elements of the parameter vector) -/
def execBody (deleg : Name → List Expr → Option Tr) : Prog → List Expr → Env → List Call → Option Tr
  | .unpack names rest, args, env, acc =>
      if names.length = args.length then execBody deleg rest args (names.zip args ++ env) acc else none
  | .index n i rest, args, env, acc =>
      match args[i]? with
      | some a => execBody deleg rest args ((n, a) :: env) acc
      | none => none
  | .letE n e rest, args, env, acc =>
      match subst env e with
      | some v => execBody deleg rest args ((n, v) :: env) acc
      | none => none
  | .prim c rest, args, env, acc =>
      match substArgs env c.args with
      | some as => execBody deleg rest args (((nm! "phi"), .sym (nm! "phi")) :: env) (acc ++ [⟨c.fn, as⟩])
      | none => none
  | .ite c a b, args, env, acc =>
      match subst env c.lhs, subst env c.rhs, execBody deleg a args env acc, execBody deleg b args env acc with
      | some l, some r, some ta, some tb => some (.ite ⟨c.op, l, r⟩ ta tb)
      | _, _, _, _ => none
  | .ret c, _, env, acc =>
      match acc, substArgs env c.args with
      | s :: steps, some as => some (.leaf ⟨s, steps, ⟨c.fn, as⟩⟩)
      | _, _ => none
  | .delegate m as, _, env, acc =>
      match acc, substList env as with
      | [], some as' => deleg m as'
      | _, _ => none

def findModel (tbl : List Model) (name : Name) : Option Model := tbl.find? (fun m => m.name == name)

/-- `fuel` bounds the depth of delegation (`IM_sel_single_gamma → IM_sel → IM_pre_sel` is depth 3) -/
def execFuel (tbl : List Model) : Nat → Name → List Expr → Option Tr
  | 0, _, _ => none
  | n + 1, name, args =>
      match findModel tbl name with
      | some m => execBody (execFuel tbl n) m.body args baseEnv []
      | none => none

def delegationFuel : Nat := 4

def exec (tbl : List Model) (name : Name) (args : List Expr) : Option Tr := execFuel tbl delegationFuel name args

/-! ## keyword / default binding against the signatures -/

def findSig (sigs : List Sig) (fn : Name) : Option Sig := sigs.find? (fun s => s.fn == fn)

def bindParams : List (Name × Option Expr) → List (Name × Expr) → Option (List (Name × Expr))
  | [], _ => some []
  | (k, d) :: ps, args =>
      match (match args.lookup k with | some e => some e | none => d), bindParams ps args with
      | some e, some r => some ((k, e) :: r)
      | _, _ => none

def nodupKeys : List (Name × Expr) → Bool
  | [] => true
  | (k, _) :: r => !(r.any (fun a => a.1 == k)) && nodupKeys r

/-- Python's argument binding: unknown keyword, duplicate, or missing required argument = failure (TypeError) -/
def canonCall (sigs : List Sig) (c : Call) : Option Call :=
  match findSig sigs c.fn with
  | none => none
  | some s =>
      if c.args.all (fun a => s.params.any (fun p => p.1 == a.1)) && nodupKeys c.args then
        (bindParams s.params c.args).map (fun as => ⟨c.fn, as⟩)
      else none

def canonCalls (sigs : List Sig) : List Call → Option (List Call)
  | [] => some []
  | c :: r =>
      match canonCall sigs c, canonCalls sigs r with
      | some c', some r' => some (c' :: r')
      | _, _ => none

def canonRun (sigs : List Sig) (r : Run) : Option Run :=
  match canonCall sigs r.start, canonCalls sigs r.steps, canonCall sigs r.fin with
  | some s, some m, some f => some ⟨s, m, f⟩
  | _, _, _ => none

def canonTr (sigs : List Sig) : Tr → Option Tr
  | .leaf r => (canonRun sigs r).map .leaf
  | .ite c a b =>
      match canonTr sigs a, canonTr sigs b with
      | some a', some b' => some (.ite c a' b')
      | _, _ => none

/-! ## dimension / arity checker (on canonical traces) -/

/-- the grid every model uses -/
def gridE : Expr := .call1 (nm! "Numerics.default_grid") (.sym (nm! "pts"))

def tupleLen : Expr → Option Nat
  | .tnil => some 0
  | .tcons _ t => (tupleLen t).map (· + 1)
  | _ => none

def tupleAll (p : Expr → Bool) : Expr → Bool
  | .tnil => true
  | .tcons h t => p h && tupleAll p t
  | _ => false

/-- argument-level requirements of one canonical call at density dimension `d` -/
def argsOk (s : Sig) (d : Nat) (c : Call) : Bool :=
  c.args.map (·.1) == s.params.map (·.1)
  && (match s.phiParam with
      | some p => c.args.lookup p == some (.sym (nm! "phi"))
      | none => true)
  && s.gridParams.all (fun g => c.args.lookup g == some gridE)
  && s.perPopParams.all (fun g =>
        match c.args.lookup g with
        | some e => tupleLen e == some d && (g != (nm! "xxs") || tupleAll (· == gridE) e)
        | none => false)
  && (s.kind != .finish || c.args.lookup (nm! "ns") == some (.sym (nm! "ns")))

/-- the density has `d` dimensions; every step must be applied at the dimension the density has; result: the final
    dimension -/
def checkSteps (sigs : List Sig) : Nat → List Call → Option Nat
  | d, [] => some d
  | d, c :: rest =>
      match findSig sigs c.fn with
      | some s => if s.kind == .step && s.dimIn == d && argsOk s d c then checkSteps sigs s.dimOut rest else none
      | none => none

def checkFinish (sigs : List Sig) (d : Nat) (c : Call) : Bool :=
  match findSig sigs c.fn with
  | some s => s.kind == .finish && (s.dimIn == 0 || s.dimIn == d) && argsOk s d c
  | none => false

def checkRun (sigs : List Sig) (r : Run) : Bool :=
  match findSig sigs r.start.fn with
  | some s =>
      s.kind == .start && argsOk s 0 r.start &&
      (match checkSteps sigs s.dimOut r.steps with
       | some d => checkFinish sigs d r.fin
       | none => false)
  | none => false

def checkTr (sigs : List Sig) : Tr → Bool
  | .leaf r => checkRun sigs r
  | .ite _ a b => checkTr sigs a && checkTr sigs b

/-- the parameter vector is consumed by exactly one tuple unpacking, first, of the named parameters -/
def headOk (m : Model) : Bool :=
  match m.body with
  | .unpack names _ => names == m.paramNames && m.argNames == [(nm! "params"), (nm! "ns"), (nm! "pts")]
  | .index _ _ _ => false
  | _ => m.paramNames == [] && m.argNames.length == 3 && m.argNames.drop 1 == [(nm! "ns"), (nm! "pts")]

/-- no further access to the parameter vector after the head -/
def noParamAccess : Prog → Bool
  | .unpack _ _ => false
  | .index _ _ _ => false
  | .letE _ _ r => noParamAccess r
  | .prim _ r => noParamAccess r
  | .ite _ a b => noParamAccess a && noParamAccess b
  | .ret _ => true
  | .delegate _ _ => true

def tailOk (m : Model) : Bool :=
  match m.body with
  | .unpack _ r => noParamAccess r
  | b => noParamAccess b

def symbolicRun (tbl : List Model) (sigs : List Sig) (name : Name) (args : List Expr) : Option Tr :=
  match exec tbl name args with
  | some t => canonTr sigs t
  | none => none

def wellFormed (tbl : List Model) (sigs : List Sig) (m : Model) : Bool :=
  headOk m && tailOk m && m.paramNames.Nodup &&
  (match symbolicRun tbl sigs m.name (m.paramNames.map .param) with
   | some t => checkTr sigs t
   | none => false)

def msWellFormed (m : MsCore) : Bool := m.unpackNames == m.paramNames && m.argNames == [(nm! "params")]

/-! ## normaliser -/

def one : Expr := .lit 1 1
def zero : Expr := .lit 0 1

/-- not a function, not a tuple -/
def scalarShape : Expr → Bool
  | .lam _ => false
  | .tnil => false
  | .tcons _ _ => false
  | _ => true

def mkMul (a b : Expr) : Expr :=
  if a = one ∧ scalarShape b = true then b else if b = one ∧ scalarShape a = true then a else .mul a b

/-- `x - 0 = x` -/
def mkSub (a b : Expr) : Expr := if b = zero ∧ scalarShape a = true then a else .sub a b

/-- `1*x = x`, `x*1 = x`, `x - 0 = x` everywhere -/
def simp : Expr → Expr
  | .neg e => .neg (simp e)
  | .add a b => .add (simp a) (simp b)
  | .sub a b => mkSub (simp a) (simp b)
  | .mul a b => mkMul (simp a) (simp b)
  | .div a b => .div (simp a) (simp b)
  | .pow a b => .pow (simp a) (simp b)
  | .call1 f e => .call1 f (simp e)
  | .lam b => .lam (simp b)
  | .app f a => .app (simp f) (simp a)
  | .tcons h t => .tcons (simp h) (simp t)
  | e => e

def simpArgs : List (Name × Expr) → List (Name × Expr)
  | [] => []
  | (k, e) :: r => (k, simp e) :: simpArgs r

def simpCall (c : Call) : Call := ⟨c.fn, simpArgs c.args⟩

/-- the functions for which the source returns the density unchanged when `T - initial_t == 0` -/
def integrators (sigs : List Sig) : List Name := (sigs.filter (·.zeroDurationIdentity)).map (·.fn)

def isZeroDur (ints : List Name) (c : Call) : Bool :=
  ints.contains c.fn && c.args.lookup (nm! "T") == some zero && c.args.lookup (nm! "initial_t") == some zero

def normSteps (ints : List Name) : List Call → List Call
  | [] => []
  | c :: rest =>
      if isZeroDur ints (simpCall c) then normSteps ints rest else simpCall c :: normSteps ints rest

def normRun (ints : List Name) (r : Run) : Run :=
  ⟨simpCall r.start, normSteps ints r.steps, simpCall r.fin⟩

def normTr (ints : List Name) : Tr → Tr
  | .leaf r => .leaf (normRun ints r)
  | .ite c a b => .ite ⟨c.op, simp c.lhs, simp c.rhs⟩ (normTr ints a) (normTr ints b)

def normalForm (tbl : List Model) (sigs : List Sig) (name : Name) (args : List Expr) : Option Tr :=
  (symbolicRun tbl sigs name args).map (normTr (integrators sigs))

/-- model `a` instantiated at the parameter expressions `args` (over the parameters of `b`) has the normal form of `b` -/
def nestOK (tbl : List Model) (sigs : List Sig) (a b : Name) (args : List Expr) : Bool :=
  match findModel tbl b with
  | none => false
  | some mb =>
      match normalForm tbl sigs a args, normalForm tbl sigs b (mb.paramNames.map .param) with
      | some ta, some tb => ta == tb
      | _, _ => false

/-- follow the `if`s of a trace along a list of outcomes (`true` = the `then` branch) -/
def selectBranch : List Bool → Tr → Option Tr
  | [], t => some t
  | b :: bs, .ite _ x y => selectBranch bs (if b then x else y)
  | _ :: _, .leaf _ => none

/-- the comparisons decided along the path, with the outcome each must have -/
def pathConds : List Bool → Tr → List (Cond × Bool)
  | b :: bs, .ite c x y => (c, b) :: pathConds bs (if b then x else y)
  | _, _ => []

/-- model `a` at `argsA`, restricted to the branch `path` of its `if`s, has the normal form of model `b` at `argsB` -/
def nestOKAt (tbl : List Model) (sigs : List Sig) (a : Name) (argsA : List Expr) (path : List Bool) (b : Name)
    (argsB : List Expr) : Bool :=
  match normalForm tbl sigs a argsA, normalForm tbl sigs b argsB with
  | some ta, some tb => selectBranch path ta == some tb
  | _, _ => false

/-! ## argument wiring -/

/-- the bytes of a name, most significant first -/
def nameBytes (n : Name) : List Nat :=
  let rec go (fuel : Nat) (n : Nat) (acc : List Nat) : List Nat :=
    match fuel with
    | 0 => acc
    | f + 1 => if n = 0 then acc else go f (n / 256) (n % 256 :: acc)
  go 64 n []

def isDigit (b : Nat) : Bool := 48 ≤ b && b ≤ 57

/-- `gamma12b` -> (`gamma`, `12`): the alphabetic family and the population index that follows it -/
def familyIndex (n : Name) : List Nat × List Nat :=
  let bs := nameBytes n
  let pre := bs.takeWhile (fun b => !isDigit b)
  (pre, (bs.dropWhile (fun b => !isDigit b)).takeWhile isDigit)

/-- keyword `k` receives the bare parameter `p`: when both belong to the same family and carry a population index of the
    same length, the indices agree (`gamma2=gamma2`, `nu1=nu1a`, `m12=m12b`; not judged: `m12=m1`, `nu2=nuA`, `gamma=gamma1`) -/
def wiredOK (k : Name) : Expr → Bool
  | .param p =>
      let (fk, ik) := familyIndex k
      let (fp, ip) := familyIndex p
      !(fk == fp && ik != [] && ik.length == ip.length) || ik == ip
  | _ => true

def callWired (ints : List Name) (c : Call) : Bool :=
  !(ints.contains c.fn) || c.args.all (fun a => wiredOK a.1 a.2)

/-- every integrator call of every branch passes each population-indexed parameter to the keyword of the same index -/
def wiringOK (ints : List Name) : Tr → Bool
  | .leaf r => r.steps.all (callWired ints)
  | .ite _ a b => wiringOK ints a && wiringOK ints b

/-- number of straight-line branches of a trace -/
def branchCount : Tr → Nat
  | .leaf _ => 1
  | .ite _ a b => branchCount a + branchCount b

/-! ## interpretations -/

inductive Val (S : Type) where
  | scalar (s : S)
  | fn (f : S → S)
  | tup (l : List S)

/-- an interpretation of the scalar operations and of the primitives (partial: a primitive may refuse its arguments) -/
structure Interp where
  S : Type
  Φ : Type
  Out : Type
  lit : Nat → Nat → S
  sym : Name → S
  neg : S → S
  add : S → S → S
  sub : S → S → S
  mul : S → S → S
  div : S → S → S
  pow : S → S → S
  call1 : Name → S → S
  cmp : Name → S → S → Bool
  start : Name → List (Name × Val S) → Option Φ
  step : Name → Φ → List (Name × Val S) → Option Φ
  finish : Name → Φ → List (Name × Val S) → Option Out

section Sem
variable (I : Interp) (ρ : Name → I.S)

/-- scalar value of an expression; `τ` is the value of the time variable -/
def evalS (τ : I.S) : Expr → I.S
  | .param n => ρ n
  | .tvar => τ
  | .lit a b => I.lit a b
  | .sym s => I.sym s
  | .neg e => I.neg (evalS τ e)
  | .add a b => I.add (evalS τ a) (evalS τ b)
  | .sub a b => I.sub (evalS τ a) (evalS τ b)
  | .mul a b => I.mul (evalS τ a) (evalS τ b)
  | .div a b => I.div (evalS τ a) (evalS τ b)
  | .pow a b => I.pow (evalS τ a) (evalS τ b)
  | .call1 f e => I.call1 f (evalS τ e)
  | .lam _ => I.sym (nm! "<lambda>")
  | .app _ _ => I.sym (nm! "<app>")
  | .tnil => I.sym (nm! "()")
  | .tcons _ _ => I.sym (nm! "<tuple>")

def evalTuple : Expr → List I.S
  | .tcons h t => evalS I ρ (I.sym (nm! "t")) h :: evalTuple t
  | _ => []

/-- an argument is a scalar, a function of time, or a tuple of scalars -/
def evalV : Expr → Val I.S
  | .lam b => .fn (fun τ => evalS I ρ τ b)
  | .tnil => .tup []
  | .tcons h t => .tup (evalTuple I ρ (.tcons h t))
  | e => .scalar (evalS I ρ (I.sym (nm! "t")) e)

def evalArgs : List (Name × Expr) → List (Name × Val I.S)
  | [] => []
  | (k, e) :: r => (k, evalV I ρ e) :: evalArgs r

def runSteps : I.Φ → List Call → Option I.Φ
  | φ, [] => some φ
  | φ, c :: rest =>
      match I.step c.fn φ (evalArgs I ρ c.args) with
      | some φ' => runSteps φ' rest
      | none => none

/-- the first call creates the density, the last turns it into a spectrum, the others transform it -/
def runRun (r : Run) : Option I.Out :=
  match I.start r.start.fn (evalArgs I ρ r.start.args) with
  | some φ =>
      match runSteps I ρ φ r.steps with
      | some φ' => I.finish r.fin.fn φ' (evalArgs I ρ r.fin.args)
      | none => none
  | none => none

def runTr : Tr → Option I.Out
  | .leaf r => runRun I ρ r
  | .ite c a b =>
      if I.cmp c.op (evalS I ρ (I.sym (nm! "t")) c.lhs) (evalS I ρ (I.sym (nm! "t")) c.rhs) then runTr a else runTr b

end Sem

/-- meaning of model `name` called with the parameter expressions `args`, parameters valued by `ρ` -/
def sem (I : Interp) (ρ : Name → I.S) (tbl : List Model) (sigs : List Sig) (name : Name) (args : List Expr) :
    Option I.Out :=
  match symbolicRun tbl sigs name args with
  | some t => runTr I ρ t
  | none => none

/-! ## relabelling populations 1 ↔ 2 -/

/-- `(fn, fn after relabelling, argument renaming)`; a function that is not listed cannot be relabelled -/
structure SwapRule where
  fn : Name
  fn' : Name
  ren : List (Name × Name)
  deriving Repr, DecidableEq

def renKey (ren : List (Name × Name)) (k : Name) : Name :=
  match ren.lookup k with
  | some k' => k'
  | none => k

/-- re-read the renamed arguments in signature order -/
def reorder (ren : List (Name × Name)) : List Name → List (Name × α) → Option (List (Name × α))
  | [], _ => some []
  | k :: ks, args =>
      match args.lookup (renKey ren k), reorder ren ks args with
      | some v, some r => some ((k, v) :: r)
      | _, _ => none

def swapCall (rules : List SwapRule) (c : Call) : Option Call :=
  match rules.find? (fun r => r.fn == c.fn) with
  | some r => (reorder r.ren (c.args.map (·.1)) c.args).map (fun as => ⟨r.fn', as⟩)
  | none => none

def swapCalls (rules : List SwapRule) : List Call → Option (List Call)
  | [] => some []
  | c :: r =>
      match swapCall rules c, swapCalls rules r with
      | some c', some r' => some (c' :: r')
      | _, _ => none

def swapRun (rules : List SwapRule) (r : Run) : Option Run :=
  match swapCall rules r.start, swapCalls rules r.steps, swapCall rules r.fin with
  | some s, some m, some f => some ⟨s, m, f⟩
  | _, _, _ => none

def swapTr (rules : List SwapRule) : Tr → Option Tr
  | .leaf r => (swapRun rules r).map .leaf
  | .ite c a b =>
      match swapTr rules a, swapTr rules b with
      | some a', some b' => some (.ite c a' b')
      | _, _ => none

/-- relabelling 1 ↔ 2 for the one- and two-population primitives (hand table: the new argument `k` receives the old
    argument `ren k`).  One-population primitives and the split are unchanged; `two_pops` exchanges the per-population
    arguments; admixture `1 into 2` becomes `2 into 1`. -/
def swapRules12 : List SwapRule :=
  [⟨(nm! "PhiManip.phi_1D"), (nm! "PhiManip.phi_1D"), []⟩,
   ⟨(nm! "Integration.one_pop"), (nm! "Integration.one_pop"), []⟩,
   ⟨(nm! "PhiManip.phi_1D_to_2D"), (nm! "PhiManip.phi_1D_to_2D"), []⟩,
   ⟨(nm! "Integration.two_pops"), (nm! "Integration.two_pops"),
      [((nm! "nu1"), (nm! "nu2")), ((nm! "nu2"), (nm! "nu1")), ((nm! "m12"), (nm! "m21")), ((nm! "m21"), (nm! "m12")), ((nm! "gamma1"), (nm! "gamma2")), ((nm! "gamma2"), (nm! "gamma1")),
       ((nm! "h1"), (nm! "h2")), ((nm! "h2"), (nm! "h1")), ((nm! "frozen1"), (nm! "frozen2")), ((nm! "frozen2"), (nm! "frozen1")), ((nm! "nomut1"), (nm! "nomut2")),
       ((nm! "nomut2"), (nm! "nomut1"))]⟩,
   ⟨(nm! "PhiManip.phi_2D_admix_1_into_2"), (nm! "PhiManip.phi_2D_admix_2_into_1"), [((nm! "xx"), (nm! "yy")), ((nm! "yy"), (nm! "xx"))]⟩,
   ⟨(nm! "PhiManip.phi_2D_admix_2_into_1"), (nm! "PhiManip.phi_2D_admix_1_into_2"), [((nm! "xx"), (nm! "yy")), ((nm! "yy"), (nm! "xx"))]⟩,
   ⟨(nm! "Spectrum.from_phi"), (nm! "Spectrum.from_phi"), []⟩]

/-- model `name` at the permuted parameters `args` is the relabelled model -/
def swapOK (tbl : List Model) (sigs : List Sig) (rules : List SwapRule) (name : Name) (args : List Expr) : Bool :=
  match findModel tbl name with
  | none => false
  | some m =>
      match normalForm tbl sigs name args, normalForm tbl sigs name (m.paramNames.map .param) with
      | some ta, some tb => (swapTr rules tb) == some ta
      | _, _ => false

end DadiVerif.ModelDSL
