/-
M12 — memo tables.  The code pattern of every module-level cache in dadi
(`_projection_cache`, `_multinomln_cache`, `_BetaBinomln_cache`, `_part_cache`, `_part_precalc_cache`,
`_dbeta_cache`, `Godambe.cache`):      if key not in cache: cache[key] = compute(args);  return cache[key]
Core Lean only.
-/
namespace DadiVerif
section
variable {κ ν : Type} [DecidableEq κ]

abbrev Memo (κ ν : Type) := List (κ × ν)

def Memo.lookup (c : Memo κ ν) (k : κ) : Option ν := (c.find? (fun p => p.1 = k)).map Prod.snd

/-- one call through the cache: `arg ↦ key arg`; on a miss `f arg` is computed and stored under the key -/
def Memo.call {α : Type} (key : α → κ) (f : α → ν) (c : Memo κ ν) (a : α) : Memo κ ν × ν :=
  match c.lookup (key a) with
  | some v => (c, v)
  | none => ((key a, f a) :: c, f a)

def Memo.runOps {α : Type} (key : α → κ) (f : α → ν) : Memo κ ν → List α → Memo κ ν × List ν
  | c, [] => (c, [])
  | c, a :: as =>
    let r := Memo.call key f c a
    let rs := Memo.runOps key f r.1 as
    (rs.1, r.2 :: rs.2)
end
end DadiVerif
