import DadiVerif.Generated.Optim
/-!
C12 — executable exact-rational model of dadi's optimiser plumbing (Inference.py, NLopt_mod.py, Misc.perturb_params).
Core Lean only.

What is GENERATED from the current source (Generated/Optim.lean) and only *used* here:
`lowerViolated`, `upperViolated`, `oobReturnLower/Upper`, `nanResult`, `objReturn`, `outOfBoundsVal` (the arithmetic and the
tests of `_object_func`), `downKeeps`, `upTakesFree` (the `is None` tests of the two projections), `upOutDtype` (element type of the
array `_project_params_up` allocates, from its allocation statement), the table `wrappers`
(per wrapper: objective, start vector, bounds, result assembly as `VE` terms) and `perturbSteps` (the clamp formulas).

What is hand-written here: the two projection loops, the control flow of `_object_func` (bound check BEFORE the model is
called, NaN guard, sentinel), the evaluation of `VE` terms, an optimiser as an arbitrary sequential *strategy*
(history of (query, value) pairs ↦ next query or stop), the run of a wrapper around such a strategy, and `checkTrace`, which
evaluates the clauses of the property on a run.  The driver executes exactly these definitions on recorded traces; the
theorems of Props/C12.lean are about them.

`numpy.exp` / `numpy.log` are parameters `expF logF : Rat → Rat` (the driver instantiates them with the table of the values
the float implementation actually computed; the theorems assume only `expF (logF x) = x` for `x > 0` where needed).
An absent bound (`None`, `-inf`, `+inf`, and `nan` after `a[isnan(a)] = None`) is `none`.
-/
namespace DadiVerif.Optim
open Gen.Optim

abbrev Fixed := List (Option Rat)
abbrev Bounds := List (Option Rat)

/-! ## projections around fixed parameters -/

/-- `_project_params_down(pin, fixed_params)` for a list `fixed_params`: keep the entries whose fixed value is `None`
    (`zip` semantics; the real code raises ValueError unless the lengths agree — the driver refuses those inputs) -/
def projectDown {α : Type} : List α → Fixed → List α
  | p :: ps, f :: fs => if downKeeps f then p :: projectDown ps fs else projectDown ps fs
  | _, _ => []

/-- `_project_params_up(pin, fixed_params)` for a list `fixed_params`: walk over `fixed_params`, take the next entry of `pin`
    where the fixed value is `None`, the fixed value otherwise.  (A too short `pin` is an IndexError in the real code; the
    driver refuses those inputs, the theorems carry the length hypothesis; the `0` below is never reached then.) -/
def projectUp : List Rat → Fixed → List Rat
  | _, [] => []
  | ps, f :: fs =>
    if upTakesFree f then
      match ps with
      | p :: ps' => p :: projectUp ps' fs
      | [] => 0 :: projectUp [] fs
    else f.getD 0 :: projectUp ps fs

/-- `if fixed_params is None: return pin` -/
def projectDownO {α : Type} (pin : List α) : Option Fixed → List α
  | none => pin
  | some fx => projectDown pin fx

def projectUpO (pin : List Rat) : Option Fixed → List Rat
  | none => pin
  | some fx => projectUp pin fx

/-- `_project_params_up` WITH the element types: the output array is allocated with the element type `upOutDtype dt` (generated from the
    allocation statement; `dt` = the element type numpy infers for `pin`: integer for an integer array / a list of ints / an int scalar)
    and every value, free or fixed, is STORED into it.  `Props/C12.lean` `C12_up_dtype`: this is `projectUp` for every `dt`. -/
def projectUpT (dt : DType) (pin : List Rat) (fx : Fixed) : List Rat := (projectUp pin fx).map (upOutDtype dt).store

def projectUpTO (dt : DType) (pin : List Rat) : Option Fixed → List Rat
  | none => pin
  | some fx => projectUpT dt pin fx

/-- number of free (not fixed) parameters -/
def nFree (fx : Fixed) : Nat := (fx.filter Option.isNone).length

/-! ## `_object_func` -/

/-- one bound loop: `for pval,bound in zip(params_up, bounds): if <generated test>: return …` (`bounds is None`: skipped) -/
def anyViolated (viol : Rat → Option Rat → Bool) (pu : List Rat) : Option Bounds → Bool
  | none => false
  | some bs => (List.zipWith viol pu bs).any id

/-- the model function followed by `ll` / `ll_multinom`: log-likelihood at a full parameter vector, `none` = NaN -/
abbrev ModelFn := List Rat → Option Rat

/-- `_object_func(params, …, lower_bound, upper_bound, …, fixed_params, ll_scale)`:
    returned value, and the point at which the model function was evaluated (`none`: it was not called) -/
def objectFunc (lower upper : Option Bounds) (fixed : Option Fixed) (llScale : Rat) (m : ModelFn) (params : List Rat) :
    Rat × Option (List Rat) :=
  let pu := projectUpO params fixed
  if anyViolated lowerViolated pu lower then (oobReturnLower llScale, none)
  else if anyViolated upperViolated pu upper then (oobReturnUpper llScale, none)
  else (objReturn ((m pu).getD nanResult) llScale, some pu)

/-- `_object_func` called with a parameter vector of element type `dt` (float from scipy / nlopt, integer from a grid written with
    integers): the same control flow as `objectFunc`, the fixed values folded in by the typed projection -/
def objectFuncT (dt : DType) (lower upper : Option Bounds) (fixed : Option Fixed) (llScale : Rat) (m : ModelFn) (params : List Rat) :
    Rat × Option (List Rat) :=
  let pu := projectUpTO dt params fixed
  if anyViolated lowerViolated pu lower then (oobReturnLower llScale, none)
  else if anyViolated upperViolated pu upper then (oobReturnUpper llScale, none)
  else (objReturn ((m pu).getD nanResult) llScale, some pu)

/-! ## evaluation of the generated vector expressions -/

structure Problem where
  p0 : List Rat
  lower : Option Bounds
  upper : Option Bounds
  fixed : Option Fixed
  llScale : Rat

/-- one entry of a bound list as the float code sees it: no bound (`None`, or the infinity of the natural direction: `-inf` for a
    lower, `+inf` for an upper bound), a number, `nan`, or the infinity of the WRONG direction (an empty box) -/
inductive BV where
  | absent
  | val (r : Rat)
  | nan
  | winf
deriving DecidableEq, Repr

def BV.ofOpt : Option Rat → BV
  | none => .absent
  | some r => .val r

/-- a bound as `_object_func` uses it: comparisons with `nan` are false, so `nan` never rejects anything -/
def BV.toOpt : BV → Option Rat
  | .val r => some r
  | _ => none

/-- `numpy.log` of a bound entry: `log(0) = -inf`, `log(negative) = nan`, `log(-inf) = nan`, `log(+inf) = +inf` -/
def logB (logF : Rat → Rat) (isLower : Bool) : BV → BV
  | .val x => if 0 < x then .val (logF x) else if x == 0 then (if isLower then .absent else .winf) else .nan
  | .absent => if isLower then .nan else .absent
  | .nan => .nan
  | .winf => if isLower then .winf else .nan

/-- `numpy.exp` of a bound entry -/
def expB (expF : Rat → Rat) (isLower : Bool) : BV → BV
  | .val x => .val (expF x)
  | .absent => if isLower then .val 0 else .absent
  | .nan => .nan
  | .winf => if isLower then .winf else .val 0

/-- `numpy.maximum(b, c)` -/
def maxB (isLower : Bool) (c : Rat) : BV → BV
  | .val x => .val (ratMax x c)
  | .absent => if isLower then .val c else .absent
  | .nan => .nan
  | .winf => if isLower then .winf else .val c

/-- bound expressions: outer `none` = Python `None` -/
def evalB (expF logF : Rat → Rat) (pb : Problem) (isLower : Bool) : VE → Option (List BV)
  | .lower => pb.lower.map (·.map BV.ofOpt)
  | .upper => pb.upper.map (·.map BV.ofOpt)
  | .noneList => some (pb.p0.map fun _ => BV.absent)
  | .log e => (evalB expF logF pb isLower e).map (·.map (logB logF isLower))
  | .exp e => (evalB expF logF pb isLower e).map (·.map (expB expF isLower))
  | .down e => (evalB expF logF pb isLower e).map (projectDownO · pb.fixed)
  | .nanToNone e => (evalB expF logF pb isLower e).map (·.map fun b => if b == BV.nan then BV.absent else b)
  | .noneToInf e => evalB expF logF pb isLower e
  | .maxConst e c => (evalB expF logF pb isLower e).map (·.map (maxB isLower c))
  | .ifNone c a b =>
      match evalB expF logF pb isLower c with
      | none => evalB expF logF pb isLower a
      | some _ => evalB expF logF pb isLower b
  | _ => none

/-- bounds in the form `_object_func` tests them -/
def evalBObj (expF logF : Rat → Rat) (pb : Problem) (isLower : Bool) (e : VE) : Option Bounds :=
  (evalB expF logF pb isLower e).map (·.map BV.toOpt)

/-- `numpy.clip(x, lo, hi) = minimum(maximum(x, lo), hi)` on one entry; `none`: the result is not a finite number (a `nan` bound
    propagates, the infinity of the wrong direction gives ±inf) -/
def clipEntry (x : Rat) (lo hi : BV) : Option Rat :=
  let y : Option Rat := match lo with
    | .absent => some x
    | .val l => some (ratMax x l)
    | _ => none
  y.bind fun y => match hi with
    | .absent => some y
    | .val u => some (ratMin y u)
    | _ => none

/-- a bound list as `numpy.clip` broadcasts it against a vector of length `n`: `None` = no bound on any entry; a list of another
    length does not broadcast (ValueError; here: no result) -/
def clipSide (n : Nat) : Option (List BV) → Option (List BV)
  | none => some (List.replicate n BV.absent)
  | some l => if l.length = n then some l else none

/-- `numpy.clip(v, lo, hi)`; `none`: some entry is not a finite number, or the shapes do not agree -/
def clipVec (v : List Rat) (lo hi : Option (List BV)) : Option (List Rat) :=
  match clipSide v.length lo, clipSide v.length hi with
  | some l, some u => (List.zipWith (fun (x : Rat) (b : BV × BV) => clipEntry x b.1 b.2) v (l.zip u)).mapM id
  | _, _ => none

/-- start / result expressions: vectors of numbers (`none`: the expression is not vector-valued in this sense) -/
def evalV (expF logF : Rat → Rat) (pb : Problem) (xopt : List Rat) : VE → Option (List Rat)
  | .p0 => some pb.p0
  | .xopt => some xopt
  | .log e => (evalV expF logF pb xopt e).map (·.map logF)
  | .exp e => (evalV expF logF pb xopt e).map (·.map expF)
  | .down e => (evalV expF logF pb xopt e).map (projectDownO · pb.fixed)
  | .up e => (evalV expF logF pb xopt e).map (projectUpO · pb.fixed)
  | .clip e lo hi => (evalV expF logF pb xopt e).bind fun v =>
      clipVec v (evalB expF logF pb true lo) (evalB expF logF pb false hi)
  | _ => none

/-- element type of a vector expression: `dp` = element type of the caller's `p0`, `da` = of the optimiser's answer; `numpy.log` /
    `numpy.exp` produce floats, `down` keeps the type, `up` allocates -/
def veDType (dp da : DType) : VE → DType
  | .p0 => dp
  | .xopt => da
  | .down e => veDType dp da e
  | .up e => upOutDtype (veDType dp da e)
  | _ => .float          -- `numpy.log`, `numpy.exp`, `numpy.clip` against float bounds: float arrays

/-- `evalV` with the element types (only `up` looks at them) -/
def evalVT (dp da : DType) (expF logF : Rat → Rat) (pb : Problem) (xopt : List Rat) : VE → Option (List Rat)
  | .p0 => some pb.p0
  | .xopt => some xopt
  | .log e => (evalVT dp da expF logF pb xopt e).map (·.map logF)
  | .exp e => (evalVT dp da expF logF pb xopt e).map (·.map expF)
  | .down e => (evalVT dp da expF logF pb xopt e).map (projectDownO · pb.fixed)
  | .up e => (evalVT dp da expF logF pb xopt e).map (projectUpTO (veDType dp da e) · pb.fixed)
  | .clip e lo hi => (evalVT dp da expF logF pb xopt e).bind fun v =>
      clipVec v (evalB expF logF pb true lo) (evalB expF logF pb false hi)
  | _ => none

/-- the function the optimiser is given, as a function of its query vector -/
def wrapperObjective (w : Wrapper) (expF logF : Rat → Rat) (pb : Problem) (m : ModelFn) (x : List Rat) :
    Rat × Option (List Rat) :=
  let params := if w.objLog then x.map expF else x
  let lo := w.objLower.bind (evalBObj expF logF pb true)
  let up := w.objUpper.bind (evalBObj expF logF pb false)
  let r := objectFunc lo up (if w.objFixed then pb.fixed else none) (if w.objLlScale then pb.llScale else 1) m params
  (if w.negated then - r.1 else r.1, r.2)

/-- `wrapperObjective` for queries of element type `dq` (`numpy.exp` of a query is a float array) -/
def wrapperObjectiveT (dq : DType) (w : Wrapper) (expF logF : Rat → Rat) (pb : Problem) (m : ModelFn) (x : List Rat) :
    Rat × Option (List Rat) :=
  let params := if w.objLog then x.map expF else x
  let lo := w.objLower.bind (evalBObj expF logF pb true)
  let up := w.objUpper.bind (evalBObj expF logF pb false)
  let r := objectFuncT (if w.objLog then .float else dq) lo up (if w.objFixed then pb.fixed else none)
    (if w.objLlScale then pb.llScale else 1) m params
  (if w.negated then - r.1 else r.1, r.2)

/-! ## an optimiser is any sequential strategy -/

inductive Step where
  | query (x : List Rat)
  | stop (xopt : List Rat) (fopt : Rat)

/-- (query, value) pairs, oldest first -/
abbrev History := List (List Rat × Rat)
abbrev Strategy := History → Step
/-- what the wrapper hands over: start vector, lower and upper bounds -/
abbrev Opt := Option (List Rat) → Option (List BV) → Option (List BV) → Strategy

structure OptRun where
  history : History               -- every query with the value it was answered with, in order
  evals : List (List Rat)         -- the points at which the model function was called, in order
  final : Option (List Rat × Rat) -- (xopt, fopt) of the optimiser; none: it was still querying when the fuel ran out

def runOpt (obj : List Rat → Rat × Option (List Rat)) (strat : Strategy) : Nat → History → OptRun
  | 0, h => ⟨[], [], match strat h with | .stop x f => some (x, f) | .query _ => none⟩
  | n + 1, h =>
    match strat h with
    | .stop x f => ⟨[], [], some (x, f)⟩
    | .query x =>
      let r := obj x
      let rest := runOpt obj strat n (h ++ [(x, r.1)])
      ⟨(x, r.1) :: rest.history, r.2.toList ++ rest.evals, rest.final⟩

structure WrapperRun where
  start : Option (List Rat)
  optLower : Option (List BV)
  optUpper : Option (List BV)
  run : OptRun
  result : Option (List Rat)
  reported : Option Rat

/-- one call of a wrapper: assemble start and bounds, run the optimiser on the objective, assemble the result -/
def runWrapper (w : Wrapper) (expF logF : Rat → Rat) (pb : Problem) (m : ModelFn) (opt : Opt) (fuel : Nat) : WrapperRun :=
  let start := w.start.bind (evalV expF logF pb [])
  let olo := w.optLower.bind (evalB expF logF pb true)
  let oup := w.optUpper.bind (evalB expF logF pb false)
  let run := runOpt (wrapperObjective w expF logF pb m) (opt start olo oup) fuel []
  { start := start, optLower := olo, optUpper := oup, run := run,
    result := run.final.bind fun xf => evalV expF logF pb xf.1 w.result,
    reported := run.final.bind fun xf => if w.reportsFopt then some xf.2 else none }

/-- `runWrapper` with the element types of the caller's `p0` (`dp`), of the optimiser's queries (`dq`) and of its answer (`da`): what the
    driver executes on a recorded trace.  `Props/C12.lean` `C12_run_dtype`: it is `runWrapper`, whatever the three types. -/
def runWrapperT (dp dq da : DType) (w : Wrapper) (expF logF : Rat → Rat) (pb : Problem) (m : ModelFn) (opt : Opt) (fuel : Nat) :
    WrapperRun :=
  let start := w.start.bind (evalVT dp da expF logF pb [])
  let olo := w.optLower.bind (evalB expF logF pb true)
  let oup := w.optUpper.bind (evalB expF logF pb false)
  let run := runOpt (wrapperObjectiveT dq w expF logF pb m) (opt start olo oup) fuel []
  { start := start, optLower := olo, optUpper := oup, run := run,
    result := run.final.bind fun xf => evalVT dp da expF logF pb xf.1 w.result,
    reported := run.final.bind fun xf => if w.reportsFopt then some xf.2 else none }

/-- the optimiser that replays a recorded trace: its queries in order, then its recorded answer -/
def replay (qs : List (List Rat)) (fin : List Rat × Rat) : Opt := fun _ _ _ h =>
  match qs.drop h.length with
  | q :: _ => .query q
  | [] => .stop fin.1 fin.2

/-! ## the clauses of the property, evaluated on a run -/

/-- `b ≤ v` up to a relative tolerance (0 for wrappers whose bounds are tested by `_object_func` itself; the log-transformed
    bounds of the others can be off by one rounding of `exp(log b)`) -/
def geTol (tol v b : Rat) : Bool := decide (b ≤ v + tol * ratMax (ratAbs b) (ratAbs v))

def geOpt (tol x : Rat) : Option Rat → Bool
  | none => true
  | some b => geTol tol x b

def leOpt (tol x : Rat) : Option Rat → Bool
  | none => true
  | some b => geTol tol b x

def aboveAll (tol : Rat) (v : List Rat) : Option Bounds → Bool
  | none => true
  | some bs => (List.zipWith (geOpt tol) v bs).all id

def belowAll (tol : Rat) (v : List Rat) : Option Bounds → Bool
  | none => true
  | some bs => (List.zipWith (leOpt tol) v bs).all id

def inBox (tol : Rat) (pb : Problem) (v : List Rat) : Bool := aboveAll tol v pb.lower && belowAll tol v pb.upper

/-- the vector carries every fixed value (and has the full length) -/
def eqOpt (x : Rat) : Option Rat → Bool
  | none => true
  | some c => x == c

def fixedOk (fixed : Option Fixed) (v : List Rat) : Bool :=
  match fixed with
  | none => true
  | some fx => v.length == fx.length && (List.zipWith eqOpt v fx).all id

/-- the user's starting point: `p0` with the fixed values written over the corresponding entries -/
def startFull (pb : Problem) : List Rat := projectUpO (projectDownO pb.p0 pb.fixed) pb.fixed

def closeTol (tol a b : Rat) : Bool := decide (ratAbs (a - b) ≤ tol * ratMax (ratAbs a) (ratAbs b))

/-- entrywise `closeTol` (same length) -/
def vecClose (tol : Rat) (a b : List Rat) : Bool := a.length == b.length && (List.zipWith (closeTol tol) a b).all id

/-- value the wrapper's objective takes at a FULL natural parameter vector (what "the likelihood of the returned
    parameters" means in the units the wrapper reports) -/
def objectiveAtFull (w : Wrapper) (expF logF : Rat → Rat) (pb : Problem) (m : ModelFn) (v : List Rat) : Rat :=
  let lo := w.objLower.bind (evalBObj expF logF pb true)
  let up := w.objUpper.bind (evalBObj expF logF pb false)
  let r := objectFunc lo up none (if w.objLlScale then pb.llScale else 1) m v
  if w.negated then - r.1 else r.1

/-- the optimiser's answer is one of its own (query, value) pairs (the value up to the rounding of `-ll/ll_scale`) -/
def answerEvaluated (vtol : Rat) (r : OptRun) : Bool :=
  match r.final with
  | none => false
  | some xf => r.history.any fun q => q.1 == xf.1 && closeTol vtol q.2 xf.2

/-- names of the clauses of C12 that FAIL on this run (empty = the run satisfies the property) -/
def checkTrace (w : Wrapper) (expF logF : Rat → Rat) (pb : Problem) (m : ModelFn) (tol vtol : Rat) (r : WrapperRun) :
    List String :=
  let c1 := if r.run.evals.all (inBox tol pb) then [] else ["evals_in_bounds"]
  let c2 := if r.run.evals.all (fixedOk pb.fixed) then [] else ["evals_fixed"]
  let c3 := match r.start with
    | none => []
    | some _ => if (r.run.evals.head?.map (vecClose tol (startFull pb))).getD false then [] else ["first_eval_is_start"]
  let c4 := match r.result with
    | none => ["no_result"]
    | some v =>
      (if inBox tol pb v then [] else ["result_in_bounds"]) ++
      (if fixedOk pb.fixed v then [] else ["result_fixed"]) ++
      -- the two likelihood clauses are claimed under the hypothesis of C12_reported_is_ll_of_result: the optimiser answered with a
      -- point it evaluated and the value it got there (checked here on the trace; a third-party optimiser that answers otherwise
      -- is reported by the harness as such, not as a failure of the wrapper)
      (if answerEvaluated vtol r.run then
        (match r.reported with
         | none => []
         | some f => if closeTol vtol (objectiveAtFull w expF logF pb m v) f then [] else ["ll_result_is_reported"]) ++
        (if w.maximize && w.start.isSome then
           (if decide (objectiveAtFull w expF logF pb m (startFull pb) ≤
                       objectiveAtFull w expF logF pb m v + vtol * ratAbs (objectiveAtFull w expF logF pb m v))
            then [] else ["no_worse_than_start"])
         else [])
       else [])
  c1 ++ c2 ++ c3 ++ c4

/-! ## `Misc.perturb_params` -/

/-- the clamp statements applied to one entry; a statement guarded by `if <bound list> is not None` whose entry is absent
    (`None` → ∓inf) leaves the value unchanged -/
def perturbEntry (steps : List PerturbStep) (p : Rat) (lb ub : Option Rat) : Rat :=
  steps.foldl (fun acc s =>
    if (!s.usesLower || lb.isSome) && (!s.usesUpper || ub.isSome) then s.f acc (lb.getD 0) (ub.getD 0) else acc) p

def optAt (bs : Option Bounds) (i : Nat) : Option Rat :=
  match bs with
  | none => none
  | some l => (l[i]?).join

/-- `perturb_params(params, fold, lower_bound, upper_bound)` with the random factors `2**(fold*(2u-1))` given -/
def perturb (params factors : List Rat) (lower upper : Option Bounds) : List Rat :=
  (List.zipWith (· * ·) params factors).zipIdx.map fun (p, i) => perturbEntry perturbSteps p (optAt lower i) (optAt upper i)

/-- the draw `pnew = params * 2**(<generated exponent in fold and the uniform variate u>)`, then the clamps: `pow2` stands for `2**·`
    (the driver gets the table of the floats numpy computes; the theorems hold for EVERY function) -/
def perturbFold (pow2 : Rat → Rat) (params : List Rat) (fold : Rat) (us : List Rat) (lower upper : Option Bounds) : List Rat :=
  perturb params (us.map fun u => pow2 (perturbExponent fold u)) lower upper

/-! ## grid search: `scipy.optimize.brute(…, finish=False)` is a finite enumeration, so it is MODELLED, not a parameter -/

/-- number of points of `a:b:s` — `ceil((b - a)/s)`, as `numpy.mgrid` / `numpy.arange` compute it (none for a step that is not positive) -/
def stepCount (a b s : Rat) : Nat := if 0 < s then ((b - a) / s).ceil.toNat else 0

/-- the values `numpy.mgrid` produces along one axis: `a:b:mj` ↦ `a + i*(b-a)/(m-1)`, i < m (`m = 1`: the step stays 1, the single value is
    `a`); `a:b:s` ↦ `a + i*s`, i < ceil((b-a)/s) -/
def GridSlice.axis : GridSlice → List Rat
  | .count a b m => (List.range m).map fun (i : Nat) => a + (i : Rat) * (if m = 1 then 1 else (b - a) / ((m : Rat) - 1))
  | .step a b s _ => (List.range (stepCount a b s)).map fun (i : Nat) => a + (i : Rat) * s

/-- the points in the order `brute` evaluates them: `mgrid` reshaped to (N, prod).T, i.e. C order — the LAST axis varies fastest -/
def gridProduct : List (List Rat) → List (List Rat)
  | [] => [[]]
  | ax :: rest => ax.flatMap fun x => (gridProduct rest).map (x :: ·)

/-- element type of the arrays `brute` hands to the objective: integer exactly when every axis is written `a:b:s` with integers only -/
def gridDType (sl : List GridSlice) : DType :=
  if sl.all (fun | .step _ _ _ true => true | _ => false) then .int else .float

/-- `numpy.argmin(Jout.ravel())`: the FIRST entry with the smallest value (a later entry wins only when strictly smaller) -/
def argminFirst : History → Option (List Rat × Rat)
  | [] => none
  | q :: rest =>
    match argminFirst rest with
    | none => some q
    | some r => if r.2 < q.2 then some r else some q

/-- `scipy.optimize.brute(func, ranges=grid, finish=False)` as a strategy: query every grid point in order, then answer with the first
    minimum (an empty grid is a ValueError of `argmin` in the real code; the driver refuses it, the theorems assume a point) -/
def bruteOpt (pts : List (List Rat)) : Opt := fun _ _ _ h =>
  match pts.drop h.length with
  | q :: _ => .query q
  | [] => match argminFirst h with
    | some xf => .stop xf.1 xf.2
    | none => .stop [] 0

def gridPoints (sl : List GridSlice) : List (List Rat) := gridProduct (sl.map GridSlice.axis)

/-- one call of `optimize_grid`: the generated wrapper row around the enumeration -/
def runGrid (w : Wrapper) (expF logF : Rat → Rat) (pb : Problem) (m : ModelFn) (sl : List GridSlice) : WrapperRun :=
  runWrapper w expF logF pb m (bruteOpt (gridPoints sl)) (gridPoints sl).length

/-- … with the element types: integer queries for a grid written with integers; `brute` answers with a float array (`xmin = empty(N, float)`) -/
def runGridT (w : Wrapper) (expF logF : Rat → Rat) (pb : Problem) (m : ModelFn) (sl : List GridSlice) : WrapperRun :=
  runWrapperT .float (gridDType sl) .float w expF logF pb m (bruteOpt (gridPoints sl)) (gridPoints sl).length

end DadiVerif.Optim
