import DadiVerif.Model.Prelude
/-
Core-only arithmetic used by the generated low-pass formulas (Generated/LowPass.lean) and by the
model (Model/LowPass.lean): factorial, binomial coefficients, integer powers with an `Int`
exponent (Python's `x ** k`), scipy's `comb` and `binom.pmf` on exact rationals, list sums.
Everything is local to `DadiVerif.LowPass` (no dependence on other properties' model files).
-/
namespace DadiVerif.LowPass

/-- Σ_{i<n} f i -/
def sumTo : Nat → (Nat → Rat) → Rat
  | 0, _ => 0
  | n+1, f => sumTo n f + f n

/-- sum of a list -/
def lsum : List Rat → Rat
  | [] => 0
  | a :: l => a + lsum l

def fact : Nat → Nat
  | 0 => 1
  | n+1 => (n+1) * fact n

/-- binomial coefficient n! / (k! (n−k)!) (identified with Mathlib's `Nat.choose` in Lemmas/LowPassSums) -/
def choose (n k : Nat) : Nat := if k ≤ n then fact n / (fact k * fact (n - k)) else 0

/-- Python `x ** k` for an integer `k` (negative exponents are reciprocals; `0 ** -1` is a float error in
    Python and `0` here — every use multiplies such a factor by `0`, see `C18_nocall_closed`) -/
def zpowR (x : Rat) (k : Int) : Rat :=
  if k ≥ 0 then x ^ k.toNat else 1 / x ^ (-k).toNat

/-- `x ** k` is *defined* in Python arithmetic: not a zero base with a negative exponent (float `0.0 ** -1` is `inf` with a
    warning / ZeroDivisionError, and `0 * inf = nan`; the totalised `zpowR 0 (-1)` is `0`) -/
def zpowOk (x : Rat) (k : Int) : Bool := decide (0 ≤ k) || decide (x ≠ 0)

/-- `x / y` is defined: the denominator is not zero -/
def divOk (y : Rat) : Bool := decide (y ≠ 0)

/-- `scipy.special.comb(n, k)` for integers -/
def combZ (n k : Int) : Rat :=
  if 0 ≤ k ∧ k ≤ n then (choose n.toNat k.toNat : Rat) else 0

/-- `scipy.stats.binom.pmf(k, n, p)` -/
def binomPmf (k n : Nat) (p : Rat) : Rat :=
  if k ≤ n then (choose n k : Rat) * p ^ k * (1 - p) ^ (n - k) else 0

/-- `exp(Numerics.multinomln([a, b, c]))` = (a+b+c)! / (a! b! c!) -/
def multinom3 (a b c : Nat) : Rat :=
  (fact (a + b + c) : Rat) / ((fact a : Rat) * (fact b : Rat) * (fact c : Rat))

/-- rising factorial a (a+1) … (a+k−1) -/
def rising (a : Rat) : Nat → Rat
  | 0 => 1
  | k+1 => rising a k * (a + (k : Rat))

/-- `exp(Numerics.BetaBinomln(i, n, a, b))` = C(n,i) B(i+a, n−i+b) / B(a, b), as a ratio of rising factorials
    (Γ(a+i)/Γ(a) = rising a i) -/
def betaBinom (i n : Nat) (a b : Rat) : Rat :=
  (choose n i : Rat) * rising a i * rising b (n - i) / rising (a + b) n

end DadiVerif.LowPass
