/- Shared core-only helpers for the executable model (exact rationals). -/
namespace DadiVerif

def ratAbs (x : Rat) : Rat := if x < 0 then -x else x
def ratMin (x y : Rat) : Rat := if x ≤ y then x else y
def ratMax (x y : Rat) : Rat := if x ≤ y then y else x

end DadiVerif
