import DadiVerif.Model.ND
import DadiVerif.Generated.PopTables
/-
C10 — population bookkeeping on frequency spectra (`Spectrum_mod.py`: marginalize, filter_pops,
reorder_pops, combine_two_pops, combine_pops, scramble_pop_ids, fold/unfold as used by those;
`Misc.combine_pops`).

A spectrum is modelled *functionally*: shape, entry function, mask function, folded flag, labels.
Multi-indices are `List Nat` (numpy C order = `boxIdx shape`).  Every bookkeeping operation is an
explicit re-indexing `pushL box f x j = Σ_{i ∈ box, f i = j} x i` along an index map `f`
(drop an axis, merge two axes, permute axes, total allele count).  The model mirrors the *code*:
`marginalize` sums one axis at a time from the highest to the lowest, `combine_pops` iterates
`combine_two_pops` from the highest to the lowest index; the theorems in Props/C10.lean show that
these iterations equal ONE explicit re-indexing.

numpy facts that are part of the model (observed on the real code, checked by K):
* `ma.sum(axis)` treats masked entries as 0 and masks a result entry iff *all* contributors are masked;
* `combine_two_pops` masks a result entry iff *any* contributor is masked, and `Spectrum(...)` masks
  the two corners of every newly constructed spectrum;
* data under masked entries are unspecified (numpy does not accumulate into masked cells): only the
  mask and the data at unmasked entries are compared.
-/
namespace DadiVerif.PopOps

abbrev Idx := List Nat

/-- explicit re-indexing (push-forward) of `x` along `f`, source indices enumerated by `box` -/
def pushL (box : List Idx) (f : Idx → Idx) (x : Idx → Rat) (j : Idx) : Rat :=
  ((box.filter fun i => f i == j).map x).sum

/-- is some contributor of `j` flagged? -/
def anyL (box : List Idx) (f : Idx → Idx) (m : Idx → Bool) (j : Idx) : Bool :=
  (box.filter fun i => f i == j).any m

/-- are all contributors of `j` flagged? -/
def allL (box : List Idx) (f : Idx → Idx) (m : Idx → Bool) (j : Idx) : Bool :=
  (box.filter fun i => f i == j).all m

structure FS where
  shape  : List Nat
  dat    : Idx → Rat
  msk    : Idx → Bool
  folded : Bool
  labels : Option (List String)

namespace FS
/-- value as numpy's masked reductions see it: masked = 0 -/
def val (S : FS) (i : Idx) : Rat := if S.msk i then 0 else S.dat i
def box (S : FS) : List Idx := boxIdx S.shape
def ndim (S : FS) : Nat := S.shape.length
end FS

/-- `mask.flat[0]`, `mask.flat[-1]` -/
def isCorner (shape : List Nat) (i : Idx) : Bool :=
  i == shape.map (fun _ => 0) || i == shape.map (· - 1)

def maskCorners (S : FS) : FS := { S with msk := fun i => S.msk i || isCorner S.shape i }

/-! ### index maps (used for indices, shapes and labels alike) -/

/-- delete the listed positions one after the other (the code deletes from the highest to the lowest) -/
def dropAxes {α : Type} (ks : List Nat) (l : List α) : List α := ks.foldl (fun acc k => acc.eraseIdx k) l

/-- delete every position that belongs to `over` (positions counted from `p`) — the explicit form -/
def dropSet {α : Type} (over : List Nat) : Nat → List α → List α
  | _, [] => []
  | p, c :: cs => if over.contains p then dropSet over (p + 1) cs else c :: dropSet over (p + 1) cs

/-- insertion sort (structural, so that closed instances evaluate in the kernel); Python `sorted` -/
def insertAsc (a : Nat) : List Nat → List Nat
  | [] => [a]
  | b :: l => if a ≤ b then a :: b :: l else b :: insertAsc a l
def sortAsc (l : List Nat) : List Nat := l.foldr insertAsc []
/-- `sorted(l)[::-1]` -/
def sortDesc (l : List Nat) : List Nat := (sortAsc l).reverse

/-- `new_index[a] = index[a] + index[b]; del new_index[b]` — the list program GENERATED from the source -/
def merge2 (a b : Nat) (i : Idx) : Idx := Gen.c2NewIndex a b i

/-- `new_ns[a] = ns[a] + ns[b]; del new_ns[b]; shape = [n+1 for n in new_ns]` — GENERATED, on shape = ns + 1 -/
def mergeShape (a b : Nat) (sh : List Nat) : List Nat := Gen.c2NewShape a b (sh.map (· - 1))

/-- the mask statement of the fill loop, GENERATED, folded over the contributors of one cell -/
def accMask (l : List Bool) : Bool := l.foldl Gen.c2MaskStep false

/-- iterate `merge2 a r` over `rs` (the code: highest index first) -/
def mergeAll (a : Nat) (rs : List Nat) (i : Idx) : Idx := rs.foldl (fun acc r => merge2 a r acc) i

/-- the explicit form: entry `a` receives the sum of all merged coordinates, the merged axes disappear -/
def mergeExplicit (a : Nat) (rs : List Nat) (i : Idx) : Idx :=
  (dropAxes rs i).set a (i.getD a 0 + (rs.map fun r => i.getD r 0).sum)

/-- numpy `transpose(axes)`: `out[j] = in[i]` with `j[k] = i[axes[k]]` -/
def permIdx {α : Type} (d : α) (axes : List Nat) (l : List α) : List α := axes.map fun a => l.getD a d

/-! ### marginalize / filter_pops -/

/-- `output.sum(axis=k)` of a masked array -/
def sumAxis (k : Nat) (S : FS) : FS :=
  { shape := S.shape.eraseIdx k
    dat := pushL S.box (fun i => i.eraseIdx k) S.val
    msk := allL S.box (fun i => i.eraseIdx k) S.msk
    folded := S.folded
    labels := S.labels }

/-- `for axis in sorted(over)[::-1]: output = output.sum(axis=axis)` -/
def marginalizeCore (ks : List Nat) (S : FS) : FS := ks.foldl (fun acc k => sumAxis k acc) S

def nTotal (shape : List Nat) : Nat := (shape.map (· - 1)).sum
def mirror (shape : List Nat) (i : Idx) : Idx := List.zipWith (fun s c => s - 1 - c) shape i
/-- `total_per_entry > int(total_samples/2)` -/
def foldedOut (shape : List Nat) (i : Idx) : Bool := decide (i.sum > nTotal shape / 2)

/-- `Spectrum.fold` (statement by statement) -/
def foldCore (S : FS) : FS :=
  let sh := S.shape
  let fo := foldedOut sh
  let amb : Idx → Rat := fun i => if 2 * i.sum = nTotal sh then S.dat i else 0
  { shape := sh
    dat := fun i =>
      (if fo i then 0 else S.dat i + (if fo (mirror sh i) then S.dat (mirror sh i) else 0))
        + (-(1/2 : Rat) * amb i + (1/2 : Rat) * amb (mirror sh i))
    msk := fun i => S.msk i || S.msk (mirror sh i) || fo i || isCorner sh i
    folded := true
    labels := S.labels }

/-- `Spectrum.unfold` -/
def unfoldCore (S : FS) : FS :=
  let sh := S.shape
  let nm : Idx → Bool := fun i => Bool.xor (S.msk i) (foldedOut sh i)
  { shape := sh
    dat := fun i => (S.dat i + S.dat (mirror sh i)) / 2
    msk := fun i => nm i || nm (mirror sh i) || isCorner sh i
    folded := false
    labels := S.labels }

def foldFS (S : FS) : Option FS := if S.folded then none else some (foldCore S)
def unfoldFS (S : FS) : Option FS := if S.folded then some (unfoldCore S) else none

/-- `Spectrum.marginalize(over, mask_corners)`; `none` = the real code raises
    (axis out of range, or nothing left), duplicates are outside the domain and rejected. -/
def marginalize (over : List Nat) (mc : Bool) (S : FS) : Option FS :=
  let ks := sortDesc over
  if ks.any (fun k => decide (S.ndim ≤ k)) || !(decide ks.Nodup) || decide (S.ndim ≤ ks.length) then none
  else
    let S0 := if S.folded then unfoldCore S else S
    let out := marginalizeCore ks S0
    let out := { out with folded := false, labels := S.labels.map (dropAxes ks) }
    let out := if mc then maskCorners out else out
    some (if S.folded then foldCore out else out)

/-- `toremove = list(range(ndim)); for p in tokeep: toremove.remove(p-1)`; `none` = ValueError -/
def toRemove (d : Nat) (tokeep : List Nat) : Option (List Nat) :=
  tokeep.foldlM (fun acc p => if p ≥ 1 ∧ acc.contains (p - 1) then some (acc.erase (p - 1)) else none) (List.range d)

/-- `Spectrum.filter_pops(tokeep, mask_corners)`; whether the flag reaches `marginalize` is GENERATED from the
    call in the source (`marginalize`'s own default is True) -/
def filterPops (tokeep : List Nat) (mc : Bool) (S : FS) : Option FS :=
  match toRemove S.ndim tokeep with
  | none => none
  | some rm => marginalize rm (if Gen.filterForwardsMaskCorners then mc else true) S

/-! ### combine_two_pops / combine_pops -/

def combineTwoCore (a b : Nat) (S : FS) : FS :=
  let sh' := mergeShape a b S.shape
  { shape := sh'
    dat := pushL S.box (merge2 a b) S.val
    msk := fun j => accMask ((S.box.filter fun i => merge2 a b i == j).map S.msk) || isCorner sh' j
    folded := Gen.c2PropagatesFolded && S.folded
    labels := S.labels.map (Gen.c2NewIds a b) }

/-- `Spectrum.combine_two_pops([p, q])`, populations numbered from 1, in the order the caller lists them; the pair the list
    programs work with is GENERATED from the normalisation statement `tocombine = sorted([_-1 for _ in tocombine])` -/
def combineTwo (p q : Nat) (S : FS) : Option FS :=
  if p = 0 ∨ q = 0 ∨ p = q ∨ S.ndim < p ∨ S.ndim < q then none
  else some (combineTwoCore (Gen.c2Pair p q).1 (Gen.c2Pair p q).2 S)

/-- `Spectrum.combine_pops(tocombine)`, populations numbered from 1, in the order the caller lists them.  The processing order
    (`Gen.cpOrder`, from `tocombine = sorted(tocombine)`), the chain of pairs handed to `combine_two_pops` (`Gen.cpPairs`) and the
    label fix-up (`Gen.cpLabelSlot`, `Gen.cpLabelSrc`, `Gen.cpLabelSep`) are GENERATED from the statements of the source. -/
def combinePops (tc : List Nat) (S : FS) : Option FS :=
  let t := Gen.cpOrder sortAsc tc
  if t.isEmpty || t.any (fun x => decide (x = 0 ∨ S.ndim < x)) || !(decide t.Nodup) then none
  else
    let res := (Gen.cpPairs sortAsc t).foldl
      (fun acc pr => combineTwoCore (Gen.c2Pair pr.1 pr.2).1 (Gen.c2Pair pr.1 pr.2).2 acc) S
    some { res with labels := match S.labels, res.labels with
                               | some l, some l' =>
                                 some (l'.set (Gen.cpLabelSlot t)
                                   (Gen.cpLabelSep.intercalate ((Gen.cpLabelSrc sortAsc t).map fun x => l.getD (x - 1) "")))
                               | _, _ => res.labels }

/-! ### reorder_pops -/

def reorderCore (axes : List Nat) (S : FS) : FS :=
  { shape := permIdx 0 axes S.shape
    dat := pushL S.box (permIdx 0 axes) S.dat
    msk := anyL S.box (permIdx 0 axes) S.msk
    folded := S.folded
    labels := S.labels.map (permIdx "" axes) }

/-- `Spectrum.reorder_pops(neworder)`, 1-based; `none` = ValueError -/
def reorderPops (neworder : List Nat) (S : FS) : Option FS :=
  if sortAsc neworder = (List.range S.ndim).map (· + 1) then some (reorderCore (neworder.map (· - 1)) S) else none

/-! ### scramble_pop_ids -/

/-- binomial coefficient by the multiplicative formula (exact at every step) -/
def chooseN (n k : Nat) : Nat := (List.range k).foldl (fun acc t => acc * (n - t) / (t + 1)) 1

def prodN (l : List Nat) : Nat := l.foldr (· * ·) 1

/-- multivariate hypergeometric weight  Π C(n_l, c_l) / C(N, Σ c) -/
def hypW (ns : List Nat) (c : Idx) : Rat :=
  (prodN (List.zipWith chooseN ns c) : Rat) / (chooseN ns.sum c.sum : Rat)

/-- the pooled one-dimensional spectrum -/
def pool (S : FS) (t : Nat) : Rat := pushL S.box (fun i => [i.sum]) S.val [t]

def scrambleCore (mc : Bool) (S : FS) : FS :=
  let ns := S.shape.map (· - 1)
  { shape := S.shape
    dat := fun c => hypW ns c * pool S c.sum
    msk := fun c => mc && isCorner S.shape c
    folded := false
    labels := none }

/-- cells that the real code fills with NaN: a masked entry contributes to the pooled class -/
def scrambleNaN (S : FS) (c : Idx) : Bool := anyL S.box (fun i => [i.sum]) S.msk [c.sum]

/-- NaN cells of the folded path: `fold` adds the mirrored entry to every entry that is not folded out -/
def scrambleNaNFolded (S : FS) (c : Idx) : Bool :=
  let U := unfoldCore S
  !foldedOut S.shape c && (scrambleNaN U c || scrambleNaN U (mirror S.shape c))

def scramble (mc : Bool) (S : FS) : FS :=
  if S.folded then foldCore (scrambleCore mc (unfoldCore S)) else scrambleCore mc S

/-! ### one-axis projection (`Spectrum._project_one_axis`), needed to state "commutes with projection" -/

/-- `least ≤ j ≤ most`: the slice of the result that source count `h` reaches — GENERATED from the statement
    `least, most = max(n - (proj_from - hits), 0), min(hits,n)` (proj_to = m, proj_from = n, hits = h) -/
def inWin (n m h j : Nat) : Bool := decide (Gen.projLeast m n h ≤ j ∧ j ≤ Gen.projMost m n h)

/-- `_cached_projection(proj_to=m, proj_from=n, hits=h)[j]` on the slice `least..most` the code uses, 0 outside:
    C(m,j)·C(n−m,h−j)/C(n,h) -/
def projW (n m h j : Nat) : Rat :=
  if inWin n m h j then ((chooseN m j * chooseN (n - m) (h - j) : Nat) : Rat) / ((chooseN n h : Nat) : Rat) else 0

/-- `fs._project_one_axis(m, axis=k)`: raw data are combined (also under the mask); a cell is masked iff one of the
    source slices that reach it is; the result is a fresh unfolded, unlabelled Spectrum without corner masking -/
def projectAxis (k m : Nat) (S : FS) : FS :=
  let nk := S.shape.getD k 0
  { shape := S.shape.set k (m + 1)
    dat := fun j => ((List.range nk).map fun h => projW (nk - 1) m h (j.getD k 0) * S.dat (j.set k h)).sum
    msk := fun j => (List.range nk).any fun h => inWin (nk - 1) m h (j.getD k 0) && S.msk (j.set k h)
    folded := false
    labels := none }

/-- `none` = ValueError (axis out of range or target larger than the sample size) -/
def projectOne (k m : Nat) (S : FS) : Option FS :=
  if k < S.ndim ∧ m + 1 ≤ S.shape.getD k 0 then some (projectAxis k m S) else none

/-- the loop of `Spectrum.project`:
    `for axis, proj in enumerate(ns): if proj != self.sample_sizes[axis]: output = output._project_one_axis(proj, axis)`;
    `p` = current axis, second argument = extents of `self` from axis `p` on, third = requested sizes from axis `p` on -/
def projFrom : Nat → List Nat → List Nat → FS → FS
  | p, s :: ss, m :: ms, S => projFrom (p + 1) ss ms (if m + 1 = s then S else projectAxis p m S)
  | _, _, _, S => S

def projectCore (ms : List Nat) (S : FS) : FS := projFrom 0 S.shape ms S

/-- `Spectrum.project(ns)`; `none` = ValueError (wrong number of sizes, or a size larger than the original);
    a folded spectrum is unfolded, projected and folded again; the labels are kept -/
def project (ms : List Nat) (S : FS) : Option FS :=
  if ms.length ≠ S.ndim || (List.zipWith (fun m s => decide (s < m + 1)) ms S.shape).any id then none
  else
    let S0 := if S.folded then unfoldCore S else S
    let out := projectCore ms S0
    let out := { out with folded := false, labels := S.labels }
    some (if S.folded then foldCore out else out)

/-! ### closed forms for projecting a MERGED population and a SCRAMBLED spectrum (round 5; the theorems
       `C10_project_merged_mixture`, `C10_project_scramble` say that the loops above produce them) -/

/-- "project population a to `ma` and population b to `mb`, then merge them" -/
def splitTerm (a b ma mb : Nat) (S : FS) : FS := combineTwoCore a b (projectAxis b mb (projectAxis a ma S))

/-- probability that `ma` of the `M` chromosomes drawn from the pool of `na + nb` come from population a:
    C(na,ma)·C(nb,M−ma)/C(na+nb,M) -/
def splitW (na nb M ma : Nat) : Rat :=
  ((chooseN na ma * chooseN nb (M - ma) : Nat) : Rat) / ((chooseN (na + nb) M : Nat) : Rat)

/-- the hypergeometric mixture over the splits `M = ma + (M − ma)` of `splitTerm`; a fresh unfolded Spectrum with the corners masked -/
def mixSplit (a b M : Nat) (S : FS) : FS :=
  let na := S.shape.getD a 0 - 1
  let nb := S.shape.getD b 0 - 1
  let sh' := (mergeShape a b S.shape).set a (M + 1)
  { shape := sh'
    dat := fun j => ((List.range (M + 1)).map fun ma => splitW na nb M ma * (splitTerm a b ma (M - ma) S).dat j).sum
    msk := isCorner sh'
    folded := false
    labels := none }

/-- the pooled one-dimensional spectrum (`pooled` in `scramble_pop_ids`) as a spectrum -/
def poolFS (S : FS) : FS :=
  { shape := [nTotal S.shape + 1], dat := fun i => pool S (i.getD 0 0), msk := fun _ => false, folded := false, labels := none }

/-- re-deal (sizes `ms`) of the pooled spectrum projected to `Σ ms` -/
def redealProj (mc : Bool) (ms : List Nat) (S : FS) : FS :=
  let sh' := ms.map (· + 1)
  { shape := sh'
    dat := fun c => hypW ms c * (projectAxis 0 ms.sum (poolFS S)).dat [c.sum]
    msk := fun c => mc && isCorner sh' c
    folded := false
    labels := none }

/-! ### Misc.combine_pops (older 2-D / 3-D routine), interpreted from the GENERATED dispatch table -/

def sumAt (vars : Idx) (ks : List Nat) : Nat := (ks.map fun k => vars.getD k 0).sum

def miscDst (r : Gen.MiscRow) (vars : Idx) : Idx := r.dst.map (sumAt vars)
def miscSrc (r : Gen.MiscRow) (vars : Idx) : Idx := r.src.map fun p => vars.getD p 0

/-- first branch taken by the `len(ns)` / `idx == [...]` dispatch; `none` = the code prints an error and exits -/
def miscRow (rows : List Gen.MiscRow) (ndim : Nat) (idx : List Nat) : Option Gen.MiscRow :=
  rows.find? fun r => r.ndim == ndim && (match r.idx with | none => true | some l => l == idx)

def miscCombine (rows : List Gen.MiscRow) (idx : List Nat) (S : FS) : Option FS :=
  match miscRow rows S.ndim idx with
  | none => none
  | some r =>
    let ns := S.shape.map (· - 1)
    let vbox := boxIdx (r.loopAxes.map fun k => ns.getD k 0 + 1)
    let sh' := r.shape.map fun ks => (ks.map fun k => ns.getD k 0).sum + 1
    some { shape := sh'
           dat := pushL vbox (miscDst r) (fun v => S.dat (miscSrc r v))
           msk := isCorner sh'
           folded := false
           labels := none }

/-- what the table should say for `idx = [a,b]`: merged axis first, the others behind it in order -/
def miscCanonical (a b : Nat) (i : Idx) : Idx :=
  let m := merge2 a b i
  m.getD a 0 :: m.eraseIdx a

/-- structural well-formedness of one generated branch (decidable; `C10_misc_table` checks it for every branch):
    loop variable at source position p spans axis p; the target subscripts are (the two merged variables summed, then
    the remaining variable); the `zeros` extents are (n_a+n_b+1, n_rest+1). -/
def miscRowOk (r : Gen.MiscRow) : Bool :=
  match r.idx with
  | none => r.ndim == 2 && r.loopAxes == [0, 1] && r.src == [0, 1] && (r.dst == [[0, 1]] || r.dst == [[1, 0]])
              && (r.shape == [[0, 1]] || r.shape == [[1, 0]])
  | some [a, b] =>
      let rest := (List.range 3).filter fun p => p != a && p != b
      let va := r.src.getD a 0
      let vb := r.src.getD b 0
      decide (a < b ∧ b < 3) && r.ndim == 3 && r.src.length == 3 && r.loopAxes.length == 3
        && (List.range 3).all (fun p => r.loopAxes.getD (r.src.getD p 0) 99 == p)
        && (r.dst == [va, vb] :: rest.map (fun p => [r.src.getD p 0]) || r.dst == [vb, va] :: rest.map (fun p => [r.src.getD p 0]))
        && (r.shape == [a, b] :: rest.map (fun p => [p]) || r.shape == [b, a] :: rest.map (fun p => [p]))
  | some _ => false

/-! ### tabulation (driver side) -/

def ofArrays (shape : List Nat) (data : Array Rat) (mask : Array Bool) (folded : Bool)
    (labels : Option (List String)) : FS :=
  { shape := shape
    dat := fun i => data.getD (flatIdx shape i) 0
    msk := fun i => mask.getD (flatIdx shape i) false
    folded := folded, labels := labels }

def tabDat (S : FS) : List Rat := S.box.map S.dat
def tabMsk (S : FS) : List Bool := S.box.map S.msk
def total (S : FS) : Rat := (S.box.map S.val).sum

end DadiVerif.PopOps
