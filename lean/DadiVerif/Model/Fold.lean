import DadiVerif.Model.ND
import DadiVerif.Generated.Fold
/-!
Executable model for C09: folding, unfolding, axis reversal, ancestral misidentification, the
arithmetic templates of `Spectrum` (folding guard, mask algebra, labels), slicing, automatic folding.

A spectrum is a C-ordered flat array (numpy `ravel(order='C')`) together with its shape, mask,
folding flag and labels.  *Reversing every axis of a C-ordered array is reversing the flat array*
(`mirrorFlat N k = N-1-k`, proved equal to the per-axis reversal in Lemmas/Fold.lean), and
`_total_per_entry` at flat index `k` is the digit sum of `k` in the mixed radix given by the shape.

The pointwise formulas (`fold_outData`, `fold_outMask`, `unfold_*`, `misidExpr`, `foldingRefused`,
`binop*`, `cornerFlat`, `autofold_*`), the statement lists of the two operator templates (`binaryProgram`,
`inplaceProgram`: folding check, `self.data.<op>(…)`, mask statements, in source order — executed here by the
interpreter `runT` for every kind of operand) and the attribute rules of the numpy subclass hooks
(`finalize_folded`, `updateFrom_folded`, `wrap_folded`, `log_folded`, … : `AttrRule`) are NOT written here: they are
regenerated from the current source into Generated/Fold.lean by tools/gen_Fold.py on every run.  Core Lean only.
-/
namespace DadiVerif
namespace Fold
open Gen.Fold

structure Spec where
  shape  : List Nat
  data   : Array Rat
  mask   : Array Bool
  folded : Bool
  popIds : Option (List String)
deriving Repr

/-- number of entries -/
def Spec.N (S : Spec) : Nat := prodL S.shape
def Spec.x (S : Spec) (k : Nat) : Rat := S.data.getD k 0
def Spec.m (S : Spec) (k : Nat) : Bool := S.mask.getD k false

/-- `numpy.sum(self.sample_sizes)`, sample_sizes = shape − 1 -/
def totalSamples (shape : List Nat) : Nat := (shape.map (· - 1)).sum
/-- `_total_per_entry` at flat index `k`: sum of the multi-index -/
def totalFlat (shape : List Nat) (k : Nat) : Nat := (unflat shape k).sum
/-- `reverse_array` on the flat C-order array -/
def mirrorFlat (N k : Nat) : Nat := N - 1 - k
/-- per-axis reversal of a multi-index: i ↦ (shape − 1) − i -/
def mirrorIdx : List Nat → List Nat → List Nat
  | s :: ss, i :: is => (s - 1 - i) :: mirrorIdx ss is
  | _, _ => []

def tabulate {α : Type} (N : Nat) (f : Nat → α) : Array α := Array.ofFn (n := N) fun k => f k.val

/-- sum of all entries of the data array (masked or not) -/
def sumData (S : Spec) : Rat := (List.range S.N).foldl (fun acc k => acc + S.x k) 0
/-- sum over unmasked entries (`fs.sum()` of a masked array) -/
def sumUnmasked (S : Spec) : Rat := (List.range S.N).foldl (fun acc k => acc + (if S.m k then 0 else S.x k)) 0

inductive Res where
  | ok (S : Spec)
  | raise (what : String)       -- the real code raises this exception
  | undefined (why : String)    -- outside the exact model (division by zero, irrational power, shape mismatch)
deriving Repr

/-- `reverse_array(fs)` = `fs[::-1, ::-1, …]`: a Spectrum view with the same folding flag and labels -/
def reverseSpec (S : Spec) : Spec :=
  { shape := S.shape
    data := tabulate S.N fun k => S.x (mirrorFlat S.N k)
    mask := tabulate S.N fun k => S.m (mirrorFlat S.N k)
    folded := S.folded
    popIds := S.popIds }

/-- what `Spectrum.fold` constructs when it does not raise -/
def foldOut (S : Spec) : Spec :=
  { shape := S.shape
    data := tabulate S.N fun k => fold_outData (mirrorFlat S.N) (totalFlat S.shape) (totalSamples S.shape) S.x S.m k
    mask := tabulate S.N fun k =>
      fold_outMask (mirrorFlat S.N) (totalFlat S.shape) (totalSamples S.shape) S.x S.m k
        || (fold_maskCorners && cornerFlat S.N k)
    folded := fold_outFolded
    popIds := if fold_popIdsFromSelf then S.popIds else none }

/-- `Spectrum.fold` -/
def foldSpec (S : Spec) : Res :=
  if fold_raises S.folded then .raise fold_raisesWhat else .ok (foldOut S)

/-- what `Spectrum.unfold` constructs when it does not raise -/
def unfoldOut (S : Spec) : Spec :=
  { shape := S.shape
    data := tabulate S.N fun k => unfold_outData (mirrorFlat S.N) (totalFlat S.shape) (totalSamples S.shape) S.x S.m k
    mask := tabulate S.N fun k =>
      unfold_outMask (mirrorFlat S.N) (totalFlat S.shape) (totalSamples S.shape) S.x S.m k
        || (unfold_maskCorners && cornerFlat S.N k)
    folded := unfold_outFolded
    popIds := if unfold_popIdsFromSelf then S.popIds else none }

/-- `Spectrum.unfold` -/
def unfoldSpec (S : Spec) : Res :=
  if unfold_raises S.folded then .raise unfold_raisesWhat else .ok (unfoldOut S)

/-! ### what `fold` / `unfold` leave behind in the spectrum they were called on

`fold_selfDataAfter` / `fold_selfMaskAfter` (generated) are the content of `self.data` / `self.mask` when the method
returns: the translator follows local names bound to `self.mask` / `self.data` (numpy views of the caller's buffers) and
turns every in-place statement through them (`|=`, `+=`, masked stores) into an update of this state; a store into any
other attribute of `self` is a translation error.  A method that raises has not executed any of them. -/

/-- the spectrum `S.fold()` was called on, afterwards -/
def foldSelfAfter (S : Spec) : Spec :=
  if fold_raises S.folded then S else
  { S with
    data := tabulate S.N fun k => fold_selfDataAfter (mirrorFlat S.N) (totalFlat S.shape) (totalSamples S.shape) S.x S.m k
    mask := tabulate S.N fun k => fold_selfMaskAfter (mirrorFlat S.N) (totalFlat S.shape) (totalSamples S.shape) S.x S.m k }

/-- the spectrum `S.unfold()` was called on, afterwards -/
def unfoldSelfAfter (S : Spec) : Spec :=
  if unfold_raises S.folded then S else
  { S with
    data := tabulate S.N fun k => unfold_selfDataAfter (mirrorFlat S.N) (totalFlat S.shape) (totalSamples S.shape) S.x S.m k
    mask := tabulate S.N fun k => unfold_selfMaskAfter (mirrorFlat S.N) (totalFlat S.shape) (totalSamples S.shape) S.x S.m k }

/-! ### the constructor `Spectrum.__new__` on a plain array

Between building the masked array and `if mask_corners: subarr.mask_corners()` the constructor runs its `if data_folded:` block.
What that block does to data and mask of the array under construction is generated (`ctor_selfDataAfter`, `ctor_selfMaskAfter`,
translated statement by statement; on the source as it is the block only warns).  Every binary operator builds its result through
this constructor with `data_folded = self.folded`, for spectra of every shape — whole ones and slices alike. -/

/-- mask of the array under construction at flat index `k`, when the `data_folded` block is left -/
def ctorMask (shape : List Nat) (dataFolded : Bool) (x : Nat → Rat) (m : Nat → Bool) (k : Nat) : Bool :=
  if dataFolded then ctor_selfMaskAfter (mirrorFlat (prodL shape)) (totalFlat shape) (totalSamples shape) x m k else m k

/-- data of the array under construction at flat index `k`, when the `data_folded` block is left -/
def ctorData (shape : List Nat) (dataFolded : Bool) (x : Nat → Rat) (m : Nat → Bool) (k : Nat) : Rat :=
  if dataFolded then ctor_selfDataAfter (mirrorFlat (prodL shape)) (totalFlat shape) (totalSamples shape) x m k else x k

/-- `Spectrum(data, mask=mask, mask_corners=mc, data_folded=S.folded, pop_ids=S.popIds)` for plain `data`, `mask` -/
def ctorSpec (S : Spec) (mc : Bool) : Spec :=
  { shape := S.shape
    data := tabulate S.N fun k => ctorData S.shape S.folded S.x S.m k
    mask := tabulate S.N fun k => ctorMask S.shape S.folded S.x S.m k || (mc && cornerFlat S.N k)
    folded := S.folded
    popIds := S.popIds }

/-! ### arithmetic templates -/

inductive Operand where
  | spectrum (S : Spec)                               -- another Spectrum
  | masked (data : Array Rat) (mask : Array Bool)     -- numpy.ma.masked_array that is not a Spectrum
  | plain (data : Array Rat)                          -- numpy.ndarray of the same shape
  | scalar (c : Rat)
deriving Repr

namespace Operand
def isSpectrum : Operand → Bool | spectrum _ => true | _ => false
def isMasked : Operand → Bool | spectrum _ => true | masked _ _ => true | _ => false
def folded : Operand → Bool | spectrum S => S.folded | _ => false
def popIds : Operand → Option (List String) | spectrum S => S.popIds | _ => none
def dataAt : Operand → Nat → Rat
  | spectrum S, k => S.x k | masked d _, k => d.getD k 0 | plain d, k => d.getD k 0 | scalar c, _ => c
def maskAt : Operand → Nat → Bool
  | spectrum S, k => S.m k | masked _ m, k => m.getD k false | _, _ => false
/-- array operands must have exactly the entries of `self` (broadcasting is not modelled).  Only the data array is
    measured — it is what the forwarded ndarray method receives (`other.data`); masks are read entry by entry (`maskAt`),
    and the driver only builds operands whose mask is as long as their data -/
def fits : Operand → Nat → Bool
  | spectrum S, N => S.data.size == N
  | masked d _, N => d.size == N
  | plain d, N => d.size == N
  | scalar _, _ => true
end Operand

inductive Arith where | add | sub | mul | div | floordiv | pow
deriving Repr, DecidableEq

structure Method where
  op : Arith
  reflected : Bool
deriving Repr, DecidableEq

/-- Python data-model meaning of the method names in the generated lists (`__div__` is the Python-2 name) -/
def methodOf : String → Option Method
  | "__add__" => some ⟨.add, false⟩ | "__radd__" => some ⟨.add, true⟩ | "__iadd__" => some ⟨.add, false⟩
  | "__sub__" => some ⟨.sub, false⟩ | "__rsub__" => some ⟨.sub, true⟩ | "__isub__" => some ⟨.sub, false⟩
  | "__mul__" => some ⟨.mul, false⟩ | "__rmul__" => some ⟨.mul, true⟩ | "__imul__" => some ⟨.mul, false⟩
  | "__div__" => some ⟨.div, false⟩ | "__rdiv__" => some ⟨.div, true⟩ | "__idiv__" => some ⟨.div, false⟩
  | "__truediv__" => some ⟨.div, false⟩ | "__rtruediv__" => some ⟨.div, true⟩ | "__itruediv__" => some ⟨.div, false⟩
  | "__floordiv__" => some ⟨.floordiv, false⟩ | "__rfloordiv__" => some ⟨.floordiv, true⟩
  | "__ifloordiv__" => some ⟨.floordiv, false⟩
  | "__pow__" => some ⟨.pow, false⟩ | "__rpow__" => some ⟨.pow, true⟩ | "__ipow__" => some ⟨.pow, false⟩
  | _ => none

def ratPow (b e : Rat) : Option Rat :=
  if e.den = 1 then
    if e.num ≥ 0 then some (b ^ e.num.toNat)
    else if b = 0 then none else some ((1 / b) ^ (-e.num).toNat)
  else none

/-- one entry of `self.data.<method>(other)`; `none` = not an exact rational (÷0, fractional power) -/
def arith (M : Method) (a b : Rat) : Option Rat :=
  let l := if M.reflected then b else a
  let r := if M.reflected then a else b
  match M.op with
  | .add => some (l + r)
  | .sub => some (l - r)
  | .mul => some (l * r)
  | .div => if r = 0 then none else some (l / r)
  | .floordiv => if r = 0 then none else some ((l / r).floor : Int)
  | .pow => ratPow l r

def arithDefined (M : Method) (S : Spec) (o : Operand) : Bool :=
  (List.range S.N).all fun k => (arith M (S.x k) (o.dataAt k)).isSome

/-! #### interpreter of the generated statement lists (`Gen.Fold.binaryProgram`, `Gen.Fold.inplaceProgram`)

The statements of the two templates that check the folding status and compute data and mask are translated one by one into
`TStmt`s (Model/FoldIR.lean); they are executed here in source order, for every kind of operand.  `self.data.<method>(a)`
works on the data arrays — entries under the mask included —, `numpy.ma.mask_or` on the masks. -/

/-- state while a template runs: `self` as it is now, the locals `newdata` / `newmask`, other local names -/
structure TState where
  self    : Spec
  newData : Option (Array Rat)
  newMask : Option (Array Bool)
  env     : List (String × Operand)
deriving Repr

inductive TRes where
  | done (st : TState)
  | raise (what : String) (st : TState)      -- the exception, and the state it leaves behind
  | undefined (why : String)
deriving Repr

/-- `isinstance(other, numpy.ma.masked_array)` decides which guarded statements run -/
def TCond.holds (o : Operand) : TCond → Bool
  | .always => true
  | .ifMasked => o.isMasked
  | .ifNotMasked => !o.isMasked

/-- `other.data` (of a masked array: its data as a plain ndarray) -/
def Operand.dataOf : Operand → Option Operand
  | .spectrum S => some (.plain S.data)
  | .masked d _ => some (.plain d)
  | _ => none

def evalArg (o : Operand) (env : List (String × Operand)) : TArg → Option Operand
  | .other => some o
  | .otherData => o.dataOf
  | .var n => env.lookup n

/-- a mask expression; `none`: `other.mask` of an operand that has no mask -/
def evalMask (S : Spec) (o : Operand) : TMask → Option (Array Bool)
  | .selfMask => some (tabulate S.N fun k => S.m k)
  | .maskOr => if o.isMasked then some (tabulate S.N fun k => S.m k || o.maskAt k) else none

inductive DataRes where
  | ok (d : Array Rat)
  | raise (what : String)
  | undefined (why : String)

/-- `self.data.<name>(v)`: the forwarded ndarray method, on every entry of the data array (masked or not) -/
def dataOp (name : String) (M? : Option Method) (S : Spec) (v : Operand) : DataRes :=
  if ndarrayLacks.contains name then .raise "AttributeError"
  else if v.isMasked then .undefined "ndarray-method-on-masked-operand"
  else if !v.fits S.N then .undefined "shape"
  else match M? with
    | none => .undefined "method"
    | some M =>
      if !arithDefined M S v then .undefined "arith"
      else .ok (tabulate S.N fun k => (arith M (S.x k) (v.dataAt k)).getD 0)

/-- one statement -/
def stepT (name : String) (M? : Option Method) (o : Operand) (a : TAct) (st : TState) : TRes :=
  match a with
  | .check t =>
    match evalArg o st.env t with
    | none => .undefined "argument"
    | some v => if foldingRefused v.isSpectrum st.self.folded v.folded then .raise foldingRefusedWhat st else .done st
  | .bind n t =>
    match evalArg o st.env t with
    | none => .undefined "argument"
    | some v => .done { st with env := (n, v) :: st.env }
  | .newData t =>
    match evalArg o st.env t with
    | none => .undefined "argument"
    | some v =>
      match dataOp name M? st.self v with
      | .ok d => .done { st with newData := some d }
      | .raise w => .raise w st
      | .undefined w => .undefined w
  | .newMask e =>
    match evalMask st.self o e with
    | none => .undefined "mask"
    | some mk => .done { st with newMask := some mk }
  | .selfData t =>
    match evalArg o st.env t with
    | none => .undefined "argument"
    | some v =>
      match dataOp name M? st.self v with
      | .ok d => .done { st with self := { st.self with data := d } }
      | .raise w => .raise w st
      | .undefined w => .undefined w
  | .selfMask e =>
    match evalMask st.self o e with
    | none => .undefined "mask"
    | some mk => .done { st with self := { st.self with mask := mk } }

/-- the statement list, in order; stops at the first exception -/
def runT (name : String) (M? : Option Method) (o : Operand) : List TStmt → TState → TRes
  | [], st => .done st
  | s :: rest, st =>
    if s.cond.holds o then
      match stepT name M? o s.act st with
      | .done st' => runT name M? o rest st'
      | r => r
    else runT name M? o rest st

def TState.init (S : Spec) : TState := { self := S, newData := none, newMask := none, env := [] }

/-- binary template (`__add__`, `__radd__`, …): the generated statements, then the constructor call
    `self.__class__.__new__(self.__class__, newdata, newmask, mask_corners=…, data_folded=…, pop_ids=newpop_ids)` -/
def binop (name : String) (S : Spec) (o : Operand) : Res :=
  if !binaryMethods.contains name then .undefined "not-a-template-method" else
  match runT name (methodOf name) o binaryProgram (TState.init S) with
  | .undefined w => .undefined w
  | .raise w _ => .raise w
  | .done st =>
    match st.newData, st.newMask with
    | some d, some mk =>
      .ok { shape := S.shape
            data := d
            mask := tabulate S.N fun k =>
              ctorMask S.shape (binopFolded S.folded o.folded) (fun j => d.getD j 0) (fun j => mk.getD j false) k
                || (binopMaskCorners && cornerFlat S.N k)
            folded := binopFolded S.folded o.folded
            popIds := if o.isSpectrum then binopPopIds S.popIds o.popIds else S.popIds }
    | _, _ => .undefined "template"

/-- the in-place template up to its `return self` -/
def inplaceRun (name : String) (S : Spec) (o : Operand) : TRes :=
  runT name (methodOf name) o inplaceProgram (TState.init S)

/-- in-place template (`__iadd__`, …): `self` updated and returned -/
def inplace (name : String) (S : Spec) (o : Operand) : Res :=
  if !inplaceMethods.contains name then .undefined "not-a-template-method" else
  if !inplaceShapeOk then .undefined "template" else
  match inplaceRun name S o with
  | .undefined w => .undefined w
  | .raise w _ => .raise w
  | .done st => .ok st.self

/-- the spectrum an in-place operator was applied to, afterwards — whether the call returned or raised -/
def inplaceSelfAfter (name : String) (S : Spec) (o : Operand) : Option Spec :=
  if !inplaceMethods.contains name then none else
  match inplaceRun name S o with
  | .undefined _ => none
  | .raise _ st => some st.self
  | .done st => some st.self

/-! ### ancestral misidentification: interpreter of the generated expression `Gen.Fold.misidExpr` -/

/-- what a sub-expression of `apply_anc_state_misid` evaluates to -/
inductive MVal where
  | spec (S : Spec)             -- a Spectrum
  | arr (d : Array Rat)         -- a plain ndarray (C-order data; no mask, no attributes)
  | num (c : Rat)               -- a Python / numpy scalar
deriving Repr

inductive MRes where
  | ok (v : MVal)
  | raise (what : String)
  | undefined (why : String)
deriving Repr

def MRes.ofRes : Res → MRes
  | .ok S => .ok (.spec S)
  | .raise w => .raise w
  | .undefined w => .undefined w

inductive MOp where | add | sub | mul
deriving Repr, DecidableEq

/-- the Spectrum method Python calls when the LEFT operand is the Spectrum / when only the RIGHT one is
    (a float, and an ndarray — lower `__array_priority__` — both defer to the reflected method) -/
def MOp.method : MOp → String
  | .add => "__add__" | .sub => "__sub__" | .mul => "__mul__"
def MOp.reflected : MOp → String
  | .add => "__radd__" | .sub => "__rsub__" | .mul => "__rmul__"
def MOp.rat : MOp → Rat → Rat → Rat
  | .add, a, b => a + b | .sub, a, b => a - b | .mul, a, b => a * b

/-- `a <op> b`: Python's dispatch on the kinds of the operands -/
def evalBin (op : MOp) : MVal → MVal → MRes
  | .spec A, .spec B => .ofRes (binop op.method A (.spectrum B))
  | .spec A, .arr d => .ofRes (binop op.method A (.plain d))
  | .spec A, .num c => .ofRes (binop op.method A (.scalar c))
  | .arr d, .spec B => .ofRes (binop op.reflected B (.plain d))
  | .num c, .spec B => .ofRes (binop op.reflected B (.scalar c))
  | .arr d, .arr e => if d.size = e.size then .ok (.arr (tabulate d.size fun k => op.rat (d.getD k 0) (e.getD k 0)))
                      else .undefined "shape"
  | .arr d, .num c => .ok (.arr (tabulate d.size fun k => op.rat (d.getD k 0) c))
  | .num c, .arr e => .ok (.arr (tabulate e.size fun k => op.rat c (e.getD k 0)))
  | .num c, .num c' => .ok (.num (op.rat c c'))

def evalM (p : Rat) (S : Spec) : MExpr → MRes
  | .fs => .ok (.spec S)
  | .scal f => .ok (.num (f p))
  | .getdata e =>
    match evalM p S e with
    | .ok (.spec A) => .ok (.arr (tabulate A.N fun k => A.x k))
    | .ok (.arr d) => .ok (.arr d)
    | .ok (.num _) => .undefined "getdata-of-scalar"
    | r => r
  | .rev e =>
    match evalM p S e with
    | .ok (.spec A) => .ok (.spec (reverseSpec A))
    | .ok (.arr d) => .ok (.arr (tabulate d.size fun k => d.getD (mirrorFlat d.size k) 0))
    | .ok (.num _) => .undefined "reverse-of-scalar"
    | r => r
  | .add a b =>
    match evalM p S a with
    | .ok va => match evalM p S b with
      | .ok vb => evalBin .add va vb
      | r => r
    | r => r
  | .sub a b =>
    match evalM p S a with
    | .ok va => match evalM p S b with
      | .ok vb => evalBin .sub va vb
      | r => r
    | r => r
  | .mul a b =>
    match evalM p S a with
    | .ok va => match evalM p S b with
      | .ok vb => evalBin .mul va vb
      | r => r
    | r => r

/-- `Numerics.apply_anc_state_misid(fs, p)`: the generated expression, evaluated with the templates -/
def applyMisid (S : Spec) (p : Rat) : Res :=
  match evalM p S misidExpr with
  | .ok (.spec R) => .ok R
  | .ok _ => .undefined "not-a-spectrum"
  | .raise w => .raise w
  | .undefined w => .undefined w

/-! ### slicing -/

/-- one axis of a basic index: positions `start + step*j`, `j < count`; `drop` for an integer index -/
structure AxisSel where
  start : Nat
  count : Nat
  step  : Int
  drop  : Bool
deriving Repr

def selPos (a : AxisSel) (j : Nat) : Nat := ((a.start : Int) + a.step * (j : Int)).toNat

def selCounts (sel : List AxisSel) : List Nat := sel.map fun a => if a.drop then 1 else a.count
/-- flat source index of flat result index `k` -/
def selSrc (shape : List Nat) (sel : List AxisSel) (k : Nat) : Nat :=
  flatIdx shape (List.zipWith selPos sel (unflat (selCounts sel) k))

/-! ### attributes of views, slices, ufunc results and copies

`Spectrum` keeps `folded` and `pop_ids` through numpy's subclass protocol: `__array_finalize__`, `_update_from`,
`__array_wrap__` (and `log`, which re-assigns them by hand).  What each of these does to an attribute is *generated*
(`Gen.Fold.finalize_folded : AttrRule`, …).  The order in which numpy / numpy.ma call them is numpy's; it is written down
in `hooksOf` (order of the hooks' own assignments, i.e. the order in which the calls *return*) and compared with the call
sequence observed on the implementation by the harness.  `A` = the hook is handed the plain data ndarray (numpy.ma builds
results from `self._data`), `S` = it is handed the Spectrum the result derives from. -/

inductive ViewKind where
  | slice       -- `fs[index]`, `reverse_array(fs)`, transposes: `dout = self.data[indx].view(type(self)); dout._update_from(self)`
  | ufunc       -- `-fs`, `+fs`, `abs(fs)`: numpy ufunc, result wrapped by `__array_wrap__`
  | copy        -- `fs.copy()`
  | deepcopy    -- `copy.deepcopy(fs)`
  | view        -- `fs.view()`
  | log         -- `fs.log()`
deriving Repr, DecidableEq

inductive Hook where
  | finalize (fromSpectrum : Bool)      -- `__array_finalize__(res, obj)`
  | updateFrom (fromSpectrum : Bool)    -- `res._update_from(obj)`
  | wrap                                -- the assignments of `__array_wrap__`
  | log                                 -- the assignments of `log`
deriving Repr, DecidableEq

def hooksOf : ViewKind → List Hook
  | .slice => [.updateFrom false, .finalize false, .updateFrom true]
  | .copy => [.updateFrom false, .finalize false, .updateFrom true]
  | .ufunc => [.updateFrom false, .finalize false, .updateFrom false, .finalize false, .updateFrom true, .wrap]
  | .deepcopy => [.updateFrom true, .finalize true, .updateFrom true, .finalize true]
  | .view => [.updateFrom true, .finalize true]
  | .log => [.updateFrom false, .finalize false, .updateFrom true, .log]

def Hook.show : Hook → String
  | .finalize b => if b then "fin(S)" else "fin(A)"
  | .updateFrom b => if b then "upd(S)" else "upd(A)"
  | .wrap => "wrap"
  | .log => "log"

/-- one attribute through one hook.  `cur`: value the result has now (`none` = no proper value: absent / `'unspecified'` /
    `None`); `obj`: `none` if the object the hook copies from does not have the attribute, else its value; `operand`: the
    attribute of the Spectrum the operation was applied to -/
def AttrRule.apply {α : Type} (r : AttrRule) (lit : Bool → Option α) (cur : Option α) (obj : Option (Option α))
    (operand : Option α) : Option α :=
  match r with
  | .getattrDefault => match obj with | some v => v | none => none
  | .ifHasattr => match obj with | some v => v | none => cur
  | .fromSelf => operand
  | .constNone => none
  | .constBool b => lit b
  | .untouched => cur

def hookFolded (parent : Option Bool) : Hook → Option Bool → Option Bool
  | .finalize b, cur => finalize_folded.apply some cur (if b then some parent else none) parent
  | .updateFrom b, cur => updateFrom_folded.apply some cur (if b then some parent else none) parent
  | .wrap, cur => wrap_folded.apply some cur none parent
  | .log, cur => log_folded.apply some cur none parent

def hookPopIds (parent : Option (List String)) : Hook → Option (List String) → Option (List String)
  | .finalize b, cur => finalize_popIds.apply (fun _ => none) cur (if b then some parent else none) parent
  | .updateFrom b, cur => updateFrom_popIds.apply (fun _ => none) cur (if b then some parent else none) parent
  | .wrap, cur => wrap_popIds.apply (fun _ => none) cur none parent
  | .log, cur => log_popIds.apply (fun _ => none) cur none parent

/-- `folded` of an array derived from `S`; `none`: not `True` / `False` (`'unspecified'`) -/
def derivedFolded (k : ViewKind) (S : Spec) : Option Bool :=
  (hooksOf k).foldl (fun cur h => hookFolded (some S.folded) h cur) none

/-- `pop_ids` of an array derived from `S` -/
def derivedPopIds (k : ViewKind) (S : Spec) : Option (List String) :=
  (hooksOf k).foldl (fun cur h => hookPopIds S.popIds h cur) none

/-- the view `fs[sel]`: the selected entries -/
def sliceOut (S : Spec) (sel : List AxisSel) (folded : Bool) (popIds : Option (List String)) : Spec :=
  { shape := (sel.filter fun a => !a.drop).map (·.count)
    data := tabulate (prodL (selCounts sel)) fun k => S.x (selSrc S.shape sel k)
    mask := tabulate (prodL (selCounts sel)) fun k => S.m (selSrc S.shape sel k)
    folded := folded
    popIds := popIds }

/-- `fs[sel]` (basic slicing): a view whose folded flag and labels are what the subclass hooks make of those of `fs` -/
def sliceSpec (S : Spec) (sel : List AxisSel) : Res :=
  if sel.length ≠ S.shape.length then .undefined "rank" else
  match derivedFolded .slice S with
  | none => .undefined "folded-unspecified"
  | some f => .ok (sliceOut S sel f (derivedPopIds .slice S))

/-! ### unary operations -/

inductive UnaryOp where
  | neg | pos | abs | copy | deepcopy | view | log
deriving Repr, DecidableEq

def UnaryOp.ofString : String → Option UnaryOp
  | "neg" => some .neg | "pos" => some .pos | "abs" => some .abs | "copy" => some .copy
  | "deepcopy" => some .deepcopy | "view" => some .view | "log" => some .log | _ => none

def UnaryOp.kind : UnaryOp → ViewKind
  | .neg => .ufunc | .pos => .ufunc | .abs => .ufunc
  | .copy => .copy | .deepcopy => .deepcopy | .view => .view | .log => .log

/-- data of the result at one entry (masked or not).  `log`: the logarithm is not rational — only the entries numpy.ma
    leaves at their input value (the masked ones) are modelled, see `unaryMask` -/
def unaryData (op : UnaryOp) (x : Rat) : Rat :=
  match op with
  | .neg => -x
  | .abs => ratAbs x
  | _ => x

/-- mask of the result at one entry: the operand's; `numpy.ma.log` also masks entries outside its domain (`x ≤ 0`) -/
def unaryMask (op : UnaryOp) (x : Rat) (m : Bool) : Bool :=
  match op with
  | .log => m || decide (x ≤ 0)
  | _ => m

/-- `-fs`, `+fs`, `abs(fs)`, `fs.copy()`, `copy.deepcopy(fs)`, `fs.view()`, `fs.log()` -/
def unarySpec (op : UnaryOp) (S : Spec) : Res :=
  match derivedFolded op.kind S with
  | none => .undefined "folded-unspecified"
  | some f =>
    .ok { shape := S.shape
          data := tabulate S.N fun k => unaryData op (S.x k)
          mask := tabulate S.N fun k => unaryMask op (S.x k) (S.m k)
          folded := f
          popIds := derivedPopIds op.kind S }

/-! ### automatic folding in the likelihood functions -/
def autofold (fname : String) (dataHasFolded dataFolded modelFolded : Bool) : Option Bool :=
  (autofoldTable.lookup fname).map fun g => g dataHasFolded dataFolded modelFolded

end Fold
end DadiVerif
