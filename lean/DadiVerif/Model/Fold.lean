import DadiVerif.Model.ND
import DadiVerif.Generated.Fold
/-!
Executable model for C09: folding, unfolding, axis reversal, ancestral misidentification, the
arithmetic templates of `Spectrum` (folding guard, mask algebra, labels), slicing, automatic folding.

A spectrum is a C-ordered flat array (numpy `ravel(order='C')`) together with its shape, mask,
folding flag and labels.  *Reversing every axis of a C-ordered array is reversing the flat array*
(`mirrorFlat N k = N-1-k`, proved equal to the per-axis reversal in Lemmas/Fold.lean), and
`_total_per_entry` at flat index `k` is the digit sum of `k` in the mixed radix given by the shape.

The pointwise formulas (`fold_outData`, `fold_outMask`, `unfold_*`, `misidCoef*`, `foldingRefused`,
`binop*`, `cornerFlat`, `autofold_*`) are NOT written here: they are regenerated from the current
source into Generated/Fold.lean by tools/gen_Fold.py on every run.  Core Lean only.
-/
namespace DadiVerif
namespace Fold
open Gen.Fold

structure Spec where
  shape  : List Nat
  data   : Array Rat
  mask   : Array Bool
  folded : Bool
  popIds : Option (List String)
deriving Repr

/-- number of entries -/
def Spec.N (S : Spec) : Nat := prodL S.shape
def Spec.x (S : Spec) (k : Nat) : Rat := S.data.getD k 0
def Spec.m (S : Spec) (k : Nat) : Bool := S.mask.getD k false

/-- `numpy.sum(self.sample_sizes)`, sample_sizes = shape − 1 -/
def totalSamples (shape : List Nat) : Nat := (shape.map (· - 1)).sum
/-- `_total_per_entry` at flat index `k`: sum of the multi-index -/
def totalFlat (shape : List Nat) (k : Nat) : Nat := (unflat shape k).sum
/-- `reverse_array` on the flat C-order array -/
def mirrorFlat (N k : Nat) : Nat := N - 1 - k
/-- per-axis reversal of a multi-index: i ↦ (shape − 1) − i -/
def mirrorIdx : List Nat → List Nat → List Nat
  | s :: ss, i :: is => (s - 1 - i) :: mirrorIdx ss is
  | _, _ => []

def tabulate {α : Type} (N : Nat) (f : Nat → α) : Array α := Array.ofFn (n := N) fun k => f k.val

/-- sum of all entries of the data array (masked or not) -/
def sumData (S : Spec) : Rat := (List.range S.N).foldl (fun acc k => acc + S.x k) 0
/-- sum over unmasked entries (`fs.sum()` of a masked array) -/
def sumUnmasked (S : Spec) : Rat := (List.range S.N).foldl (fun acc k => acc + (if S.m k then 0 else S.x k)) 0

inductive Res where
  | ok (S : Spec)
  | raise (what : String)       -- the real code raises this exception
  | undefined (why : String)    -- outside the exact model (division by zero, irrational power, shape mismatch)
deriving Repr

/-- `reverse_array(fs)` = `fs[::-1, ::-1, …]`: a Spectrum view with the same folding flag and labels -/
def reverseSpec (S : Spec) : Spec :=
  { shape := S.shape
    data := tabulate S.N fun k => S.x (mirrorFlat S.N k)
    mask := tabulate S.N fun k => S.m (mirrorFlat S.N k)
    folded := S.folded
    popIds := S.popIds }

/-- what `Spectrum.fold` constructs when it does not raise -/
def foldOut (S : Spec) : Spec :=
  { shape := S.shape
    data := tabulate S.N fun k => fold_outData (mirrorFlat S.N) (totalFlat S.shape) (totalSamples S.shape) S.x S.m k
    mask := tabulate S.N fun k =>
      fold_outMask (mirrorFlat S.N) (totalFlat S.shape) (totalSamples S.shape) S.x S.m k
        || (fold_maskCorners && cornerFlat S.N k)
    folded := fold_outFolded
    popIds := if fold_popIdsFromSelf then S.popIds else none }

/-- `Spectrum.fold` -/
def foldSpec (S : Spec) : Res :=
  if fold_raises S.folded then .raise fold_raisesWhat else .ok (foldOut S)

/-- what `Spectrum.unfold` constructs when it does not raise -/
def unfoldOut (S : Spec) : Spec :=
  { shape := S.shape
    data := tabulate S.N fun k => unfold_outData (mirrorFlat S.N) (totalFlat S.shape) (totalSamples S.shape) S.x S.m k
    mask := tabulate S.N fun k =>
      unfold_outMask (mirrorFlat S.N) (totalFlat S.shape) (totalSamples S.shape) S.x S.m k
        || (unfold_maskCorners && cornerFlat S.N k)
    folded := unfold_outFolded
    popIds := if unfold_popIdsFromSelf then S.popIds else none }

/-- `Spectrum.unfold` -/
def unfoldSpec (S : Spec) : Res :=
  if unfold_raises S.folded then .raise unfold_raisesWhat else .ok (unfoldOut S)

/-! ### what `fold` / `unfold` leave behind in the spectrum they were called on

`fold_selfDataAfter` / `fold_selfMaskAfter` (generated) are the content of `self.data` / `self.mask` when the method
returns: the translator follows local names bound to `self.mask` / `self.data` (numpy views of the caller's buffers) and
turns every in-place statement through them (`|=`, `+=`, masked stores) into an update of this state; a store into any
other attribute of `self` is a translation error.  A method that raises has not executed any of them. -/

/-- the spectrum `S.fold()` was called on, afterwards -/
def foldSelfAfter (S : Spec) : Spec :=
  if fold_raises S.folded then S else
  { S with
    data := tabulate S.N fun k => fold_selfDataAfter (mirrorFlat S.N) (totalFlat S.shape) (totalSamples S.shape) S.x S.m k
    mask := tabulate S.N fun k => fold_selfMaskAfter (mirrorFlat S.N) (totalFlat S.shape) (totalSamples S.shape) S.x S.m k }

/-- the spectrum `S.unfold()` was called on, afterwards -/
def unfoldSelfAfter (S : Spec) : Spec :=
  if unfold_raises S.folded then S else
  { S with
    data := tabulate S.N fun k => unfold_selfDataAfter (mirrorFlat S.N) (totalFlat S.shape) (totalSamples S.shape) S.x S.m k
    mask := tabulate S.N fun k => unfold_selfMaskAfter (mirrorFlat S.N) (totalFlat S.shape) (totalSamples S.shape) S.x S.m k }

/-! ### arithmetic templates -/

inductive Operand where
  | spectrum (S : Spec)                               -- another Spectrum
  | masked (data : Array Rat) (mask : Array Bool)     -- numpy.ma.masked_array that is not a Spectrum
  | plain (data : Array Rat)                          -- numpy.ndarray of the same shape
  | scalar (c : Rat)
deriving Repr

namespace Operand
def isSpectrum : Operand → Bool | spectrum _ => true | _ => false
def isMasked : Operand → Bool | spectrum _ => true | masked _ _ => true | _ => false
def folded : Operand → Bool | spectrum S => S.folded | _ => false
def popIds : Operand → Option (List String) | spectrum S => S.popIds | _ => none
def dataAt : Operand → Nat → Rat
  | spectrum S, k => S.x k | masked d _, k => d.getD k 0 | plain d, k => d.getD k 0 | scalar c, _ => c
def maskAt : Operand → Nat → Bool
  | spectrum S, k => S.m k | masked _ m, k => m.getD k false | _, _ => false
/-- array operands must have exactly the entries of `self` (broadcasting is not modelled) -/
def fits : Operand → Nat → Bool
  | spectrum S, N => S.data.size == N && S.mask.size == N
  | masked d m, N => d.size == N && m.size == N
  | plain d, N => d.size == N
  | scalar _, _ => true
end Operand

inductive Arith where | add | sub | mul | div | floordiv | pow
deriving Repr, DecidableEq

structure Method where
  op : Arith
  reflected : Bool
deriving Repr, DecidableEq

/-- Python data-model meaning of the method names in the generated lists (`__div__` is the Python-2 name) -/
def methodOf : String → Option Method
  | "__add__" => some ⟨.add, false⟩ | "__radd__" => some ⟨.add, true⟩ | "__iadd__" => some ⟨.add, false⟩
  | "__sub__" => some ⟨.sub, false⟩ | "__rsub__" => some ⟨.sub, true⟩ | "__isub__" => some ⟨.sub, false⟩
  | "__mul__" => some ⟨.mul, false⟩ | "__rmul__" => some ⟨.mul, true⟩ | "__imul__" => some ⟨.mul, false⟩
  | "__div__" => some ⟨.div, false⟩ | "__rdiv__" => some ⟨.div, true⟩ | "__idiv__" => some ⟨.div, false⟩
  | "__truediv__" => some ⟨.div, false⟩ | "__rtruediv__" => some ⟨.div, true⟩ | "__itruediv__" => some ⟨.div, false⟩
  | "__floordiv__" => some ⟨.floordiv, false⟩ | "__rfloordiv__" => some ⟨.floordiv, true⟩
  | "__ifloordiv__" => some ⟨.floordiv, false⟩
  | "__pow__" => some ⟨.pow, false⟩ | "__rpow__" => some ⟨.pow, true⟩ | "__ipow__" => some ⟨.pow, false⟩
  | _ => none

def ratPow (b e : Rat) : Option Rat :=
  if e.den = 1 then
    if e.num ≥ 0 then some (b ^ e.num.toNat)
    else if b = 0 then none else some ((1 / b) ^ (-e.num).toNat)
  else none

/-- one entry of `self.data.<method>(other)`; `none` = not an exact rational (÷0, fractional power) -/
def arith (M : Method) (a b : Rat) : Option Rat :=
  let l := if M.reflected then b else a
  let r := if M.reflected then a else b
  match M.op with
  | .add => some (l + r)
  | .sub => some (l - r)
  | .mul => some (l * r)
  | .div => if r = 0 then none else some (l / r)
  | .floordiv => if r = 0 then none else some ((l / r).floor : Int)
  | .pow => ratPow l r

def arithDefined (M : Method) (S : Spec) (o : Operand) : Bool :=
  (List.range S.N).all fun k => (arith M (S.x k) (o.dataAt k)).isSome

/-- the guards common to both templates, in source order: folding check, then the forwarded ndarray method -/
def guards (methods : List String) (name : String) (S : Spec) (o : Operand) : Option Res :=
  if !methods.contains name then some (.undefined "not-a-template-method")
  else if foldingRefused o.isSpectrum S.folded o.folded then some (.raise foldingRefusedWhat)
  else if ndarrayLacks.contains name then some (.raise "AttributeError")
  else if !o.fits S.N then some (.undefined "shape")
  else none

/-- the Spectrum a binary template constructs -/
def binOut (M : Method) (S : Spec) (o : Operand) : Spec :=
  { shape := S.shape
    data := tabulate S.N fun k => (arith M (S.x k) (o.dataAt k)).getD 0
    mask := tabulate S.N fun k =>
      (if o.isMasked then (S.m k || o.maskAt k) else S.m k) || (binopMaskCorners && cornerFlat S.N k)
    folded := binopFolded S.folded o.folded
    popIds := if o.isSpectrum then binopPopIds S.popIds o.popIds else S.popIds }

/-- binary template (`__add__`, `__radd__`, …): a new Spectrum -/
def binop (name : String) (S : Spec) (o : Operand) : Res :=
  match guards binaryMethods name S o with
  | some r => r
  | none =>
    match methodOf name with
    | none => .undefined "method"
    | some M => if !arithDefined M S o then .undefined "arith" else .ok (binOut M S o)

/-- `self` after an in-place template -/
def inplaceOut (M : Method) (S : Spec) (o : Operand) : Spec :=
  { S with
    data := tabulate S.N fun k => (arith M (S.x k) (o.dataAt k)).getD 0
    mask := tabulate S.N fun k => if o.isMasked then (S.m k || o.maskAt k) else S.m k }

/-- in-place template (`__iadd__`, …): `self` updated and returned -/
def inplace (name : String) (S : Spec) (o : Operand) : Res :=
  match guards inplaceMethods name S o with
  | some r => r
  | none =>
    match methodOf name with
    | none => .undefined "method"
    | some M =>
      if !inplaceShapeOk then .undefined "template" else
      if !arithDefined M S o then .undefined "arith" else .ok (inplaceOut M S o)

/-- `Numerics.apply_anc_state_misid(fs, p)`: `A*fs + B*reverse_array(fs)` evaluated with the templates -/
def applyMisid (S : Spec) (p : Rat) : Res :=
  match binop misidLeftMethod S (.scalar (misidCoefSelf p)) with
  | .ok A =>
    match binop misidLeftMethod (reverseSpec S) (.scalar (misidCoefMirror p)) with
    | .ok B => binop misidSumMethod A (.spectrum B)
    | r => r
  | r => r

/-! ### slicing -/

/-- one axis of a basic index: positions `start + step*j`, `j < count`; `drop` for an integer index -/
structure AxisSel where
  start : Nat
  count : Nat
  step  : Int
  drop  : Bool
deriving Repr

def selPos (a : AxisSel) (j : Nat) : Nat := ((a.start : Int) + a.step * (j : Int)).toNat

def selCounts (sel : List AxisSel) : List Nat := sel.map fun a => if a.drop then 1 else a.count
/-- flat source index of flat result index `k` -/
def selSrc (shape : List Nat) (sel : List AxisSel) (k : Nat) : Nat :=
  flatIdx shape (List.zipWith selPos sel (unflat (selCounts sel) k))

/-- the view `fs[sel]` -/
def sliceOut (S : Spec) (sel : List AxisSel) : Spec :=
  { shape := (sel.filter fun a => !a.drop).map (·.count)
    data := tabulate (prodL (selCounts sel)) fun k => S.x (selSrc S.shape sel k)
    mask := tabulate (prodL (selCounts sel)) fun k => S.m (selSrc S.shape sel k)
    folded := S.folded
    popIds := S.popIds }

/-- `fs[sel]` (basic slicing): a view; folded flag and labels are those of `fs` -/
def sliceSpec (S : Spec) (sel : List AxisSel) : Res :=
  if sel.length ≠ S.shape.length then .undefined "rank" else .ok (sliceOut S sel)

/-! ### automatic folding in the likelihood functions -/
def autofold (fname : String) (dataHasFolded dataFolded modelFolded : Bool) : Option Bool :=
  (autofoldTable.lookup fname).map fun g => g dataHasFolded dataFolded modelFolded

end Fold
end DadiVerif
