import DadiVerif.Model.ModelDSL
/-!
# C15 — the nesting pairs and the symmetric models (hand table, core Lean only)

`⟨A, B, args⟩`: model `A` called with the parameter expressions `args` (over the parameter names of `B`) is model `B`.
The pairs were found by searching, for every two models of the same dimension, type-respecting substitutions
(a time ↦ 0 or a time of `B`, a migration rate ↦ 0 or a rate of `B`, a selection coefficient ↦ 0 or a coefficient of `B`,
a size ↦ 1 or a size of `B`) for equal normal forms, then taking the transitive reduction (composites such as
`split_mig → snm_2d` follow from `split_mig → no_mig → snm_2d`).  They include every delegation the source documents
(`bottlegrowth_2d`, `bottlegrowth_split`, `IM_sel`, `*_single_gamma`).  Props/C15.lean proves every entry; the harness
evaluates every entry on the real code.  A model that is renamed or deleted makes the corresponding theorem fail.
-/
namespace DadiVerif.ModelDSL.Pairs
open DadiVerif.ModelDSL

structure NestPair where
  a : Name
  b : Name
  args : List Expr
  deriving Repr, DecidableEq

structure SwapPair where
  name : Name
  args : List Expr
  deriving Repr, DecidableEq

/-- migration rates set to 0: 33 pairs -/
def zeroMigration : List NestPair := [
  ⟨(nm! "Demographics2D.bottlegrowth_split_mig"), (nm! "Demographics2D.bottlegrowth_split"), [.param (nm! "nuB"), .param (nm! "nuF"), .lit 0 1, .param (nm! "T"), .param (nm! "Ts")]⟩,
  ⟨(nm! "Demographics2D.split_mig"), (nm! "portik_models_2d.no_mig"), [.param (nm! "nu1"), .param (nm! "nu2"), .param (nm! "T"), .lit 0 1]⟩,
  ⟨(nm! "portik_models_2d.sym_mig"), (nm! "portik_models_2d.no_mig"), [.param (nm! "nu1"), .param (nm! "nu2"), .lit 0 1, .param (nm! "T")]⟩,
  ⟨(nm! "portik_models_2d.sym_mig_size"), (nm! "portik_models_2d.no_mig_size"), [.param (nm! "nu1a"), .param (nm! "nu2a"), .param (nm! "nu1b"), .param (nm! "nu2b"), .lit 0 1, .param (nm! "T1"), .param (nm! "T2")]⟩,
  ⟨(nm! "portik_models_2d.anc_sym_mig_size"), (nm! "portik_models_2d.no_mig_size"), [.param (nm! "nu1a"), .param (nm! "nu2a"), .param (nm! "nu1b"), .param (nm! "nu2b"), .lit 0 1, .param (nm! "T1"), .param (nm! "T2")]⟩,
  ⟨(nm! "portik_models_2d.sec_contact_sym_mig_size"), (nm! "portik_models_2d.no_mig_size"), [.param (nm! "nu1a"), .param (nm! "nu2a"), .param (nm! "nu1b"), .param (nm! "nu2b"), .lit 0 1, .param (nm! "T1"), .param (nm! "T2")]⟩,
  ⟨(nm! "portik_models_2d.founder_sym"), (nm! "portik_models_2d.founder_nomig"), [.param (nm! "nu2"), .lit 0 1, .param (nm! "T"), .param (nm! "s")]⟩,
  ⟨(nm! "portik_models_3d.split_symmig_all"), (nm! "portik_models_3d.split_symmig_adjacent"), [.param (nm! "nu1"), .param (nm! "nuA"), .param (nm! "nu2"), .param (nm! "nu3"), .param (nm! "mA"), .param (nm! "m1"), .param (nm! "m2"), .lit 0 1, .param (nm! "T1"), .param (nm! "T2")]⟩,
  ⟨(nm! "portik_models_3d.split_symmig_all"), (nm! "portik_models_3d.split_sym_mig_adjacent_var1"), [.param (nm! "nu1"), .param (nm! "nuA"), .param (nm! "nu2"), .param (nm! "nu3"), .param (nm! "mA"), .lit 0 1, .param (nm! "m2"), .param (nm! "m3"), .param (nm! "T1"), .param (nm! "T2")]⟩,
  ⟨(nm! "portik_models_3d.split_symmig_adjacent"), (nm! "portik_models_3d.refugia_adj_2"), [.param (nm! "nu1"), .param (nm! "nuA"), .param (nm! "nu2"), .param (nm! "nu3"), .lit 0 1, .param (nm! "m1"), .param (nm! "m2"), .param (nm! "T1"), .param (nm! "T2")]⟩,
  ⟨(nm! "portik_models_3d.split_symmig_adjacent"), (nm! "portik_models_3d.ancmig_adj_2"), [.param (nm! "nu1"), .param (nm! "nuA"), .param (nm! "nu2"), .param (nm! "nu3"), .param (nm! "mA"), .lit 0 1, .lit 0 1, .param (nm! "T1"), .param (nm! "T2")]⟩,
  ⟨(nm! "portik_models_3d.refugia_adj_2"), (nm! "portik_models_3d.split_nomig"), [.param (nm! "nu1"), .param (nm! "nuA"), .param (nm! "nu2"), .param (nm! "nu3"), .lit 0 1, .lit 0 1, .param (nm! "T1"), .param (nm! "T2")]⟩,
  ⟨(nm! "portik_models_3d.ancmig_adj_2"), (nm! "portik_models_3d.split_nomig"), [.param (nm! "nu1"), .param (nm! "nuA"), .param (nm! "nu2"), .param (nm! "nu3"), .lit 0 1, .param (nm! "T1"), .param (nm! "T2")]⟩,
  ⟨(nm! "portik_models_3d.sim_split_sym_mig_all"), (nm! "portik_models_3d.sim_split_sym_mig_adjacent"), [.param (nm! "nu1"), .param (nm! "nu2"), .param (nm! "nu3"), .param (nm! "m1"), .param (nm! "m2"), .lit 0 1, .param (nm! "T1")]⟩,
  ⟨(nm! "portik_models_3d.sim_split_sym_mig_all"), (nm! "portik_models_3d.sim_split_sym_mig_adjacent_var"), [.param (nm! "nu1"), .param (nm! "nu2"), .param (nm! "nu3"), .lit 0 1, .param (nm! "m2"), .param (nm! "m3"), .param (nm! "T1")]⟩,
  ⟨(nm! "portik_models_3d.sim_split_sym_mig_adjacent"), (nm! "portik_models_3d.sim_split_no_mig"), [.param (nm! "nu1"), .param (nm! "nu2"), .param (nm! "nu3"), .lit 0 1, .lit 0 1, .param (nm! "T1")]⟩,
  ⟨(nm! "portik_models_3d.sim_split_refugia_sym_mig_all"), (nm! "portik_models_3d.sim_split_refugia_sym_mig_adjacent"), [.param (nm! "nu1"), .param (nm! "nu2"), .param (nm! "nu3"), .param (nm! "m1"), .param (nm! "m2"), .lit 0 1, .param (nm! "T1"), .param (nm! "T2")]⟩,
  ⟨(nm! "portik_models_3d.sim_split_refugia_sym_mig_all"), (nm! "portik_models_3d.sim_split_refugia_sym_mig_adjacent_var"), [.param (nm! "nu1"), .param (nm! "nu2"), .param (nm! "nu3"), .lit 0 1, .param (nm! "m2"), .param (nm! "m3"), .param (nm! "T1"), .param (nm! "T2")]⟩,
  ⟨(nm! "portik_models_3d.ancmig_2_size"), (nm! "portik_models_3d.split_nomig_size"), [.param (nm! "nu1a"), .param (nm! "nuA"), .param (nm! "nu2a"), .param (nm! "nu3a"), .param (nm! "nu1b"), .param (nm! "nu2b"), .param (nm! "nu3b"), .lit 0 1, .param (nm! "T1"), .param (nm! "T2"), .param (nm! "T3")]⟩,
  ⟨(nm! "portik_models_3d.refugia_adj_2_var_sym"), (nm! "portik_models_3d.split_nomig"), [.param (nm! "nu1"), .param (nm! "nuA"), .param (nm! "nu2"), .param (nm! "nu3"), .lit 0 1, .lit 0 1, .param (nm! "T1"), .param (nm! "T2")]⟩,
  ⟨(nm! "portik_models_3d.refugia_adj_2_var_uni"), (nm! "portik_models_3d.split_nomig"), [.param (nm! "nu1"), .param (nm! "nuA"), .param (nm! "nu2"), .param (nm! "nu3"), .lit 0 1, .lit 0 1, .param (nm! "T1"), .param (nm! "T2")]⟩,
  ⟨(nm! "portik_models_3d.split_sym_mig_adjacent_var1"), (nm! "portik_models_3d.refugia_adj_2_var_sym"), [.param (nm! "nu1"), .param (nm! "nuA"), .param (nm! "nu2"), .param (nm! "nu3"), .lit 0 1, .param (nm! "m2"), .param (nm! "m3"), .param (nm! "T1"), .param (nm! "T2")]⟩,
  ⟨(nm! "portik_models_3d.split_sym_mig_adjacent_var1"), (nm! "portik_models_3d.split_sym_mig_adjacent_var2"), [.param (nm! "nu1"), .param (nm! "nuA"), .param (nm! "nu2"), .param (nm! "nu3"), .param (nm! "mA"), .lit 0 1, .param (nm! "m3"), .param (nm! "T1"), .param (nm! "T2")]⟩,
  ⟨(nm! "portik_models_3d.split_uni_mig_adjacent_var1"), (nm! "portik_models_3d.refugia_adj_2_var_uni"), [.param (nm! "nu1"), .param (nm! "nuA"), .param (nm! "nu2"), .param (nm! "nu3"), .lit 0 1, .param (nm! "m32"), .param (nm! "m31"), .param (nm! "T1"), .param (nm! "T2")]⟩,
  ⟨(nm! "portik_models_3d.split_uni_mig_adjacent_var1"), (nm! "portik_models_3d.split_uni_mig_adjacent_var2"), [.param (nm! "nu1"), .param (nm! "nuA"), .param (nm! "nu2"), .param (nm! "nu3"), .param (nm! "mA"), .lit 0 1, .param (nm! "m31"), .param (nm! "T1"), .param (nm! "T2")]⟩,
  ⟨(nm! "portik_models_3d.split_sym_mig_adjacent_var2"), (nm! "portik_models_3d.ancmig_adj_2"), [.param (nm! "nu1"), .param (nm! "nuA"), .param (nm! "nu2"), .param (nm! "nu3"), .param (nm! "mA"), .lit 0 1, .param (nm! "T1"), .param (nm! "T2")]⟩,
  ⟨(nm! "portik_models_3d.split_uni_mig_adjacent_var2"), (nm! "portik_models_3d.ancmig_adj_2"), [.param (nm! "nu1"), .param (nm! "nuA"), .param (nm! "nu2"), .param (nm! "nu3"), .param (nm! "mA"), .lit 0 1, .param (nm! "T1"), .param (nm! "T2")]⟩,
  ⟨(nm! "portik_models_3d.sim_split_sym_mig_adjacent_var"), (nm! "portik_models_3d.sim_split_no_mig"), [.param (nm! "nu1"), .param (nm! "nu2"), .param (nm! "nu3"), .lit 0 1, .lit 0 1, .param (nm! "T1")]⟩,
  ⟨(nm! "portik_models_3d.sim_split_uni_mig_adjacent_var"), (nm! "portik_models_3d.sim_split_no_mig"), [.param (nm! "nu1"), .param (nm! "nu2"), .param (nm! "nu3"), .lit 0 1, .lit 0 1, .param (nm! "T1")]⟩,
  ⟨(nm! "portik_models_3d.admix_origin_sym_mig_adj"), (nm! "portik_models_3d.admix_origin_no_mig"), [.param (nm! "nu1"), .param (nm! "nu2"), .param (nm! "nu3"), .lit 0 1, .lit 0 1, .param (nm! "T1"), .param (nm! "T2"), .param (nm! "f")]⟩,
  ⟨(nm! "portik_models_3d.admix_origin_uni_mig_adj"), (nm! "portik_models_3d.admix_origin_no_mig"), [.param (nm! "nu1"), .param (nm! "nu2"), .param (nm! "nu3"), .lit 0 1, .lit 0 1, .param (nm! "T1"), .param (nm! "T2"), .param (nm! "f")]⟩,
  ⟨(nm! "DemogSelModels.bottlegrowth_split_mig_sel"), (nm! "DemogSelModels.bottlegrowth_split_sel"), [.param (nm! "nuB"), .param (nm! "nuF"), .lit 0 1, .param (nm! "T"), .param (nm! "Ts"), .param (nm! "gamma1"), .param (nm! "gamma2")]⟩,
  ⟨(nm! "DemogSelModels.bottlegrowth_split_mig_sel_single_gamma"), (nm! "DemogSelModels.bottlegrowth_split_sel_single_gamma"), [.param (nm! "nuB"), .param (nm! "nuF"), .lit 0 1, .param (nm! "T"), .param (nm! "Ts"), .param (nm! "gamma")]⟩]

/-- an epoch of length 0 (its size set to 1: the size of a zero-length epoch is irrelevant): 36 pairs -/
def zeroEpoch : List NestPair := [
  ⟨(nm! "Demographics1D.two_epoch"), (nm! "Demographics1D.snm_1d"), [.lit 1 1, .lit 0 1]⟩,
  ⟨(nm! "Demographics1D.growth"), (nm! "Demographics1D.snm_1d"), [.lit 1 1, .lit 0 1]⟩,
  ⟨(nm! "Demographics1D.bottlegrowth_1d"), (nm! "Demographics1D.snm_1d"), [.lit 1 1, .lit 1 1, .lit 0 1]⟩,
  ⟨(nm! "Demographics2D.bottlegrowth_split"), (nm! "Demographics2D.bottlegrowth_2d"), [.param (nm! "nuB"), .param (nm! "nuF"), .param (nm! "T"), .lit 0 1]⟩,
  ⟨(nm! "Demographics2D.split_delay_mig"), (nm! "Demographics2D.split_asym_mig"), [.param (nm! "nu1"), .param (nm! "nu2"), .lit 0 1, .param (nm! "T"), .param (nm! "m12"), .param (nm! "m21")]⟩,
  ⟨(nm! "Demographics2D.split_delay_mig"), (nm! "portik_models_2d.asym_mig"), [.param (nm! "nu1"), .param (nm! "nu2"), .lit 0 1, .param (nm! "T"), .param (nm! "m12"), .param (nm! "m21")]⟩,
  ⟨(nm! "Demographics2D.IM_pre"), (nm! "Demographics2D.IM"), [.lit 1 1, .lit 0 1, .param (nm! "s"), .param (nm! "nu1"), .param (nm! "nu2"), .param (nm! "T"), .param (nm! "m12"), .param (nm! "m21")]⟩,
  ⟨(nm! "portik_models_2d.no_mig"), (nm! "Demographics2D.snm_2d"), [.lit 1 1, .lit 1 1, .lit 0 1]⟩,
  ⟨(nm! "portik_models_2d.anc_sym_mig"), (nm! "Demographics2D.split_mig"), [.param (nm! "nu1"), .param (nm! "nu2"), .param (nm! "m"), .param (nm! "T"), .lit 0 1]⟩,
  ⟨(nm! "portik_models_2d.anc_sym_mig"), (nm! "portik_models_2d.sym_mig"), [.param (nm! "nu1"), .param (nm! "nu2"), .param (nm! "m"), .param (nm! "T"), .lit 0 1]⟩,
  ⟨(nm! "portik_models_2d.anc_asym_mig"), (nm! "Demographics2D.split_asym_mig"), [.param (nm! "nu1"), .param (nm! "nu2"), .param (nm! "m12"), .param (nm! "m21"), .param (nm! "T"), .lit 0 1]⟩,
  ⟨(nm! "portik_models_2d.anc_asym_mig"), (nm! "portik_models_2d.asym_mig"), [.param (nm! "nu1"), .param (nm! "nu2"), .param (nm! "m12"), .param (nm! "m21"), .param (nm! "T"), .lit 0 1]⟩,
  ⟨(nm! "portik_models_2d.sec_contact_sym_mig"), (nm! "Demographics2D.split_mig"), [.param (nm! "nu1"), .param (nm! "nu2"), .param (nm! "m"), .lit 0 1, .param (nm! "T")]⟩,
  ⟨(nm! "portik_models_2d.sec_contact_sym_mig"), (nm! "portik_models_2d.sym_mig"), [.param (nm! "nu1"), .param (nm! "nu2"), .param (nm! "m"), .lit 0 1, .param (nm! "T")]⟩,
  ⟨(nm! "portik_models_2d.sec_contact_asym_mig"), (nm! "Demographics2D.split_asym_mig"), [.param (nm! "nu1"), .param (nm! "nu2"), .param (nm! "m12"), .param (nm! "m21"), .lit 0 1, .param (nm! "T")]⟩,
  ⟨(nm! "portik_models_2d.sec_contact_asym_mig"), (nm! "portik_models_2d.asym_mig"), [.param (nm! "nu1"), .param (nm! "nu2"), .param (nm! "m12"), .param (nm! "m21"), .lit 0 1, .param (nm! "T")]⟩,
  ⟨(nm! "portik_models_2d.sec_contact_sym_mig_three_epoch"), (nm! "portik_models_2d.sec_contact_sym_mig"), [.param (nm! "nu1"), .param (nm! "nu2"), .param (nm! "m"), .param (nm! "T1"), .param (nm! "T2"), .lit 0 1]⟩,
  ⟨(nm! "portik_models_2d.sec_contact_sym_mig_size_three_epoch"), (nm! "portik_models_2d.sec_contact_sym_mig_size"), [.param (nm! "nu1a"), .param (nm! "nu2a"), .param (nm! "nu1b"), .param (nm! "nu2b"), .param (nm! "m"), .param (nm! "T1"), .param (nm! "T2"), .lit 0 1]⟩,
  ⟨(nm! "portik_models_2d.sec_contact_asym_mig_size_three_epoch"), (nm! "portik_models_2d.sec_contact_asym_mig_size"), [.param (nm! "nu1a"), .param (nm! "nu2a"), .param (nm! "nu1b"), .param (nm! "nu2b"), .param (nm! "m12"), .param (nm! "m21"), .param (nm! "T1"), .param (nm! "T2"), .lit 0 1]⟩,
  ⟨(nm! "portik_models_2d.vic_two_epoch_admix"), (nm! "portik_models_2d.vic_no_mig_admix_early"), [.lit 0 1, .param (nm! "T"), .param (nm! "s"), .param (nm! "f")]⟩,
  ⟨(nm! "portik_models_2d.vic_two_epoch_admix"), (nm! "portik_models_2d.vic_no_mig_admix_late"), [.param (nm! "T"), .lit 0 1, .param (nm! "s"), .param (nm! "f")]⟩,
  ⟨(nm! "portik_models_2d.founder_nomig_admix_two_epoch"), (nm! "portik_models_2d.founder_nomig_admix_late"), [.param (nm! "nu2"), .param (nm! "T"), .lit 0 1, .param (nm! "s"), .param (nm! "f")]⟩,
  ⟨(nm! "portik_models_3d.refugia_adj_3"), (nm! "portik_models_3d.split_symmig_adjacent"), [.param (nm! "nu1"), .param (nm! "nuA"), .param (nm! "nu2"), .param (nm! "nu3"), .param (nm! "mA"), .param (nm! "m1"), .param (nm! "m2"), .lit 0 1, .param (nm! "T1"), .param (nm! "T2")]⟩,
  ⟨(nm! "portik_models_3d.ancmig_adj_3"), (nm! "portik_models_3d.ancmig_adj_2"), [.param (nm! "nu1"), .param (nm! "nuA"), .param (nm! "nu2"), .param (nm! "nu3"), .param (nm! "mA"), .param (nm! "T1"), .lit 0 1, .param (nm! "T2")]⟩,
  ⟨(nm! "portik_models_3d.ancmig_adj_1"), (nm! "portik_models_3d.split_symmig_adjacent"), [.param (nm! "nu1"), .param (nm! "nuA"), .param (nm! "nu2"), .param (nm! "nu3"), .param (nm! "mA"), .param (nm! "m1"), .param (nm! "m2"), .param (nm! "T1"), .param (nm! "T2"), .lit 0 1]⟩,
  ⟨(nm! "portik_models_3d.refugia_adj_3_var_sym"), (nm! "portik_models_3d.split_sym_mig_adjacent_var1"), [.param (nm! "nu1"), .param (nm! "nuA"), .param (nm! "nu2"), .param (nm! "nu3"), .param (nm! "mA"), .param (nm! "m2"), .param (nm! "m3"), .lit 0 1, .param (nm! "T1"), .param (nm! "T2")]⟩,
  ⟨(nm! "portik_models_3d.refugia_adj_3_var_uni"), (nm! "portik_models_3d.split_uni_mig_adjacent_var1"), [.param (nm! "nu1"), .param (nm! "nuA"), .param (nm! "nu2"), .param (nm! "nu3"), .param (nm! "mA"), .param (nm! "m32"), .param (nm! "m31"), .lit 0 1, .param (nm! "T1"), .param (nm! "T2")]⟩,
  ⟨(nm! "DemogSelModels.two_epoch_sel"), (nm! "DemogSelModels.equil"), [.lit 1 1, .lit 0 1, .param (nm! "gamma")]⟩,
  ⟨(nm! "DemogSelModels.IM_pre_sel"), (nm! "DemogSelModels.IM_sel"), [.lit 1 1, .lit 0 1, .param (nm! "s"), .param (nm! "nu1"), .param (nm! "nu2"), .param (nm! "T"), .param (nm! "m12"), .param (nm! "m21"), .param (nm! "gamma1"), .param (nm! "gamma2")]⟩,
  ⟨(nm! "DemogSelModels.IM_pre_sel_single_gamma"), (nm! "DemogSelModels.IM_sel_single_gamma"), [.lit 1 1, .lit 0 1, .param (nm! "s"), .param (nm! "nu1"), .param (nm! "nu2"), .param (nm! "T"), .param (nm! "m12"), .param (nm! "m21"), .param (nm! "gamma")]⟩,
  ⟨(nm! "DemogSelModels.split_delay_mig_sel"), (nm! "DemogSelModels.split_asym_mig_sel"), [.param (nm! "nu1"), .param (nm! "nu2"), .lit 0 1, .param (nm! "T"), .param (nm! "m12"), .param (nm! "m21"), .param (nm! "gamma1"), .param (nm! "gamma2")]⟩,
  ⟨(nm! "DemogSelModels.split_delay_mig_sel_single_gamma"), (nm! "DemogSelModels.split_asym_mig_sel_single_gamma"), [.param (nm! "nu1"), .param (nm! "nu2"), .lit 0 1, .param (nm! "T"), .param (nm! "m12"), .param (nm! "m21"), .param (nm! "gamma")]⟩,
  ⟨(nm! "DemogSelModels.bottlegrowth_split_sel"), (nm! "DemogSelModels.bottlegrowth_2d_sel"), [.param (nm! "nuB"), .param (nm! "nuF"), .param (nm! "T"), .lit 0 1, .param (nm! "gamma1"), .param (nm! "gamma2")]⟩,
  ⟨(nm! "DemogSelModels.bottlegrowth_split_sel_single_gamma"), (nm! "DemogSelModels.bottlegrowth_2d_sel_single_gamma"), [.param (nm! "nuB"), .param (nm! "nuF"), .param (nm! "T"), .lit 0 1, .param (nm! "gamma")]⟩,
  ⟨(nm! "DemogSelModels.growth_sel"), (nm! "DemogSelModels.equil"), [.lit 1 1, .lit 0 1, .param (nm! "gamma")]⟩,
  ⟨(nm! "DemogSelModels.bottlegrowth_1d_sel"), (nm! "DemogSelModels.equil"), [.lit 1 1, .lit 1 1, .lit 0 1, .param (nm! "gamma")]⟩]

/-- the two asymmetric rates set equal: 17 pairs -/
def equalRates : List NestPair := [
  ⟨(nm! "Demographics2D.split_asym_mig"), (nm! "Demographics2D.split_mig"), [.param (nm! "nu1"), .param (nm! "nu2"), .param (nm! "T"), .param (nm! "m"), .param (nm! "m")]⟩,
  ⟨(nm! "Demographics2D.split_asym_mig"), (nm! "portik_models_2d.sym_mig"), [.param (nm! "nu1"), .param (nm! "nu2"), .param (nm! "T"), .param (nm! "m"), .param (nm! "m")]⟩,
  ⟨(nm! "Demographics2D.split_delay_mig"), (nm! "portik_models_2d.sec_contact_sym_mig"), [.param (nm! "nu1"), .param (nm! "nu2"), .param (nm! "T1"), .param (nm! "T2"), .param (nm! "m"), .param (nm! "m")]⟩,
  ⟨(nm! "portik_models_2d.asym_mig"), (nm! "Demographics2D.split_mig"), [.param (nm! "nu1"), .param (nm! "nu2"), .param (nm! "m"), .param (nm! "m"), .param (nm! "T")]⟩,
  ⟨(nm! "portik_models_2d.asym_mig"), (nm! "portik_models_2d.sym_mig"), [.param (nm! "nu1"), .param (nm! "nu2"), .param (nm! "m"), .param (nm! "m"), .param (nm! "T")]⟩,
  ⟨(nm! "portik_models_2d.anc_asym_mig"), (nm! "portik_models_2d.anc_sym_mig"), [.param (nm! "nu1"), .param (nm! "nu2"), .param (nm! "m"), .param (nm! "m"), .param (nm! "T1"), .param (nm! "T2")]⟩,
  ⟨(nm! "portik_models_2d.sec_contact_asym_mig"), (nm! "portik_models_2d.sec_contact_sym_mig"), [.param (nm! "nu1"), .param (nm! "nu2"), .param (nm! "m"), .param (nm! "m"), .param (nm! "T1"), .param (nm! "T2")]⟩,
  ⟨(nm! "portik_models_2d.asym_mig_size"), (nm! "portik_models_2d.sym_mig_size"), [.param (nm! "nu1a"), .param (nm! "nu2a"), .param (nm! "nu1b"), .param (nm! "nu2b"), .param (nm! "m"), .param (nm! "m"), .param (nm! "T1"), .param (nm! "T2")]⟩,
  ⟨(nm! "portik_models_2d.anc_asym_mig_size"), (nm! "portik_models_2d.anc_sym_mig_size"), [.param (nm! "nu1a"), .param (nm! "nu2a"), .param (nm! "nu1b"), .param (nm! "nu2b"), .param (nm! "m"), .param (nm! "m"), .param (nm! "T1"), .param (nm! "T2")]⟩,
  ⟨(nm! "portik_models_2d.sec_contact_asym_mig_size"), (nm! "portik_models_2d.sec_contact_sym_mig_size"), [.param (nm! "nu1a"), .param (nm! "nu2a"), .param (nm! "nu1b"), .param (nm! "nu2b"), .param (nm! "m"), .param (nm! "m"), .param (nm! "T1"), .param (nm! "T2")]⟩,
  ⟨(nm! "portik_models_2d.asym_mig_twoepoch"), (nm! "portik_models_2d.sym_mig_twoepoch"), [.param (nm! "nu1"), .param (nm! "nu2"), .param (nm! "m1"), .param (nm! "m1"), .param (nm! "m2"), .param (nm! "m2"), .param (nm! "T1"), .param (nm! "T2")]⟩,
  ⟨(nm! "portik_models_2d.sec_contact_asym_mig_size_three_epoch"), (nm! "portik_models_2d.sec_contact_sym_mig_size_three_epoch"), [.param (nm! "nu1a"), .param (nm! "nu2a"), .param (nm! "nu1b"), .param (nm! "nu2b"), .param (nm! "m"), .param (nm! "m"), .param (nm! "T1"), .param (nm! "T2"), .param (nm! "T3")]⟩,
  ⟨(nm! "portik_models_2d.vic_anc_asym_mig"), (nm! "portik_models_2d.vic_anc_sym_mig"), [.param (nm! "m"), .param (nm! "m"), .param (nm! "T1"), .param (nm! "T2"), .param (nm! "s")]⟩,
  ⟨(nm! "portik_models_2d.vic_sec_contact_asym_mig"), (nm! "portik_models_2d.vic_sec_contact_sym_mig"), [.param (nm! "m"), .param (nm! "m"), .param (nm! "T1"), .param (nm! "T2"), .param (nm! "s")]⟩,
  ⟨(nm! "portik_models_2d.founder_asym"), (nm! "portik_models_2d.founder_sym"), [.param (nm! "nu2"), .param (nm! "m"), .param (nm! "m"), .param (nm! "T"), .param (nm! "s")]⟩,
  ⟨(nm! "DemogSelModels.split_asym_mig_sel"), (nm! "DemogSelModels.split_mig_sel"), [.param (nm! "nu1"), .param (nm! "nu2"), .param (nm! "T"), .param (nm! "m"), .param (nm! "m"), .param (nm! "gamma1"), .param (nm! "gamma2")]⟩,
  ⟨(nm! "DemogSelModels.split_asym_mig_sel_single_gamma"), (nm! "DemogSelModels.split_mig_sel_single_gamma"), [.param (nm! "nu1"), .param (nm! "nu2"), .param (nm! "T"), .param (nm! "m"), .param (nm! "m"), .param (nm! "gamma")]⟩]

/-- selection coefficients set to 0: 16 pairs -/
def zeroSelection : List NestPair := [
  ⟨(nm! "DemogSelModels.equil"), (nm! "Demographics1D.snm_1d"), [.lit 0 1]⟩,
  ⟨(nm! "DemogSelModels.two_epoch_sel"), (nm! "Demographics1D.two_epoch"), [.param (nm! "nu"), .param (nm! "T"), .lit 0 1]⟩,
  ⟨(nm! "DemogSelModels.IM_pre_sel_single_gamma"), (nm! "Demographics2D.IM_pre"), [.param (nm! "nuPre"), .param (nm! "TPre"), .param (nm! "s"), .param (nm! "nu1"), .param (nm! "nu2"), .param (nm! "T"), .param (nm! "m12"), .param (nm! "m21"), .lit 0 1]⟩,
  ⟨(nm! "DemogSelModels.IM_sel_single_gamma"), (nm! "Demographics2D.IM"), [.param (nm! "s"), .param (nm! "nu1"), .param (nm! "nu2"), .param (nm! "T"), .param (nm! "m12"), .param (nm! "m21"), .lit 0 1]⟩,
  ⟨(nm! "DemogSelModels.split_mig_sel_single_gamma"), (nm! "Demographics2D.split_mig"), [.param (nm! "nu1"), .param (nm! "nu2"), .param (nm! "T"), .param (nm! "m"), .lit 0 1]⟩,
  ⟨(nm! "DemogSelModels.split_mig_sel_single_gamma"), (nm! "portik_models_2d.sym_mig"), [.param (nm! "nu1"), .param (nm! "nu2"), .param (nm! "T"), .param (nm! "m"), .lit 0 1]⟩,
  ⟨(nm! "DemogSelModels.split_asym_mig_sel_single_gamma"), (nm! "Demographics2D.split_asym_mig"), [.param (nm! "nu1"), .param (nm! "nu2"), .param (nm! "T"), .param (nm! "m12"), .param (nm! "m21"), .lit 0 1]⟩,
  ⟨(nm! "DemogSelModels.split_asym_mig_sel_single_gamma"), (nm! "portik_models_2d.asym_mig"), [.param (nm! "nu1"), .param (nm! "nu2"), .param (nm! "T"), .param (nm! "m12"), .param (nm! "m21"), .lit 0 1]⟩,
  ⟨(nm! "DemogSelModels.split_delay_mig_sel_single_gamma"), (nm! "Demographics2D.split_delay_mig"), [.param (nm! "nu1"), .param (nm! "nu2"), .param (nm! "Tpre"), .param (nm! "Tmig"), .param (nm! "m12"), .param (nm! "m21"), .lit 0 1]⟩,
  ⟨(nm! "DemogSelModels.split_delay_mig_sel_single_gamma"), (nm! "portik_models_2d.sec_contact_asym_mig"), [.param (nm! "nu1"), .param (nm! "nu2"), .param (nm! "T1"), .param (nm! "T2"), .param (nm! "m12"), .param (nm! "m21"), .lit 0 1]⟩,
  ⟨(nm! "DemogSelModels.three_epoch_sel"), (nm! "Demographics1D.three_epoch"), [.param (nm! "nuB"), .param (nm! "nuF"), .param (nm! "TB"), .param (nm! "TF"), .lit 0 1]⟩,
  ⟨(nm! "DemogSelModels.bottlegrowth_2d_sel_single_gamma"), (nm! "Demographics2D.bottlegrowth_2d"), [.param (nm! "nuB"), .param (nm! "nuF"), .param (nm! "T"), .lit 0 1]⟩,
  ⟨(nm! "DemogSelModels.bottlegrowth_split_sel_single_gamma"), (nm! "Demographics2D.bottlegrowth_split"), [.param (nm! "nuB"), .param (nm! "nuF"), .param (nm! "T"), .param (nm! "Ts"), .lit 0 1]⟩,
  ⟨(nm! "DemogSelModels.bottlegrowth_split_mig_sel_single_gamma"), (nm! "Demographics2D.bottlegrowth_split_mig"), [.param (nm! "nuB"), .param (nm! "nuF"), .param (nm! "m"), .param (nm! "T"), .param (nm! "Ts"), .lit 0 1]⟩,
  ⟨(nm! "DemogSelModels.growth_sel"), (nm! "Demographics1D.growth"), [.param (nm! "nu"), .param (nm! "T"), .lit 0 1]⟩,
  ⟨(nm! "DemogSelModels.bottlegrowth_1d_sel"), (nm! "Demographics1D.bottlegrowth_1d"), [.param (nm! "nuB"), .param (nm! "nuF"), .param (nm! "T"), .lit 0 1]⟩]

/-- the two selection coefficients set equal: 8 pairs -/
def equalSelection : List NestPair := [
  ⟨(nm! "DemogSelModels.IM_pre_sel"), (nm! "DemogSelModels.IM_pre_sel_single_gamma"), [.param (nm! "nuPre"), .param (nm! "TPre"), .param (nm! "s"), .param (nm! "nu1"), .param (nm! "nu2"), .param (nm! "T"), .param (nm! "m12"), .param (nm! "m21"), .param (nm! "gamma"), .param (nm! "gamma")]⟩,
  ⟨(nm! "DemogSelModels.IM_sel"), (nm! "DemogSelModels.IM_sel_single_gamma"), [.param (nm! "s"), .param (nm! "nu1"), .param (nm! "nu2"), .param (nm! "T"), .param (nm! "m12"), .param (nm! "m21"), .param (nm! "gamma"), .param (nm! "gamma")]⟩,
  ⟨(nm! "DemogSelModels.split_mig_sel"), (nm! "DemogSelModels.split_mig_sel_single_gamma"), [.param (nm! "nu1"), .param (nm! "nu2"), .param (nm! "T"), .param (nm! "m"), .param (nm! "gamma"), .param (nm! "gamma")]⟩,
  ⟨(nm! "DemogSelModels.split_asym_mig_sel"), (nm! "DemogSelModels.split_asym_mig_sel_single_gamma"), [.param (nm! "nu1"), .param (nm! "nu2"), .param (nm! "T"), .param (nm! "m12"), .param (nm! "m21"), .param (nm! "gamma"), .param (nm! "gamma")]⟩,
  ⟨(nm! "DemogSelModels.split_delay_mig_sel"), (nm! "DemogSelModels.split_delay_mig_sel_single_gamma"), [.param (nm! "nu1"), .param (nm! "nu2"), .param (nm! "Tpre"), .param (nm! "Tmig"), .param (nm! "m12"), .param (nm! "m21"), .param (nm! "gamma"), .param (nm! "gamma")]⟩,
  ⟨(nm! "DemogSelModels.bottlegrowth_2d_sel"), (nm! "DemogSelModels.bottlegrowth_2d_sel_single_gamma"), [.param (nm! "nuB"), .param (nm! "nuF"), .param (nm! "T"), .param (nm! "gamma"), .param (nm! "gamma")]⟩,
  ⟨(nm! "DemogSelModels.bottlegrowth_split_sel"), (nm! "DemogSelModels.bottlegrowth_split_sel_single_gamma"), [.param (nm! "nuB"), .param (nm! "nuF"), .param (nm! "T"), .param (nm! "Ts"), .param (nm! "gamma"), .param (nm! "gamma")]⟩,
  ⟨(nm! "DemogSelModels.bottlegrowth_split_mig_sel"), (nm! "DemogSelModels.bottlegrowth_split_mig_sel_single_gamma"), [.param (nm! "nuB"), .param (nm! "nuF"), .param (nm! "m"), .param (nm! "T"), .param (nm! "Ts"), .param (nm! "gamma"), .param (nm! "gamma")]⟩]

/-- combinations of the above, and the `_size` models with equal sizes in both epochs: 18 pairs -/
def composite : List NestPair := [
  ⟨(nm! "Demographics1D.three_epoch"), (nm! "Demographics1D.two_epoch"), [.lit 1 1, .param (nm! "nu"), .lit 0 1, .param (nm! "T")]⟩,
  ⟨(nm! "portik_models_2d.anc_sym_mig_size"), (nm! "portik_models_2d.anc_sym_mig"), [.param (nm! "nu1"), .param (nm! "nu2"), .param (nm! "nu1"), .param (nm! "nu2"), .param (nm! "m"), .param (nm! "T1"), .param (nm! "T2")]⟩,
  ⟨(nm! "portik_models_2d.anc_asym_mig_size"), (nm! "portik_models_2d.anc_asym_mig"), [.param (nm! "nu1"), .param (nm! "nu2"), .param (nm! "nu1"), .param (nm! "nu2"), .param (nm! "m12"), .param (nm! "m21"), .param (nm! "T1"), .param (nm! "T2")]⟩,
  ⟨(nm! "portik_models_2d.sec_contact_sym_mig_size"), (nm! "portik_models_2d.sec_contact_sym_mig"), [.param (nm! "nu1"), .param (nm! "nu2"), .param (nm! "nu1"), .param (nm! "nu2"), .param (nm! "m"), .param (nm! "T1"), .param (nm! "T2")]⟩,
  ⟨(nm! "portik_models_2d.sec_contact_asym_mig_size"), (nm! "portik_models_2d.sec_contact_asym_mig"), [.param (nm! "nu1"), .param (nm! "nu2"), .param (nm! "nu1"), .param (nm! "nu2"), .param (nm! "m12"), .param (nm! "m21"), .param (nm! "T1"), .param (nm! "T2")]⟩,
  ⟨(nm! "portik_models_2d.sym_mig_twoepoch"), (nm! "portik_models_2d.anc_sym_mig"), [.param (nm! "nu1"), .param (nm! "nu2"), .param (nm! "m"), .lit 0 1, .param (nm! "T1"), .param (nm! "T2")]⟩,
  ⟨(nm! "portik_models_2d.sym_mig_twoepoch"), (nm! "portik_models_2d.sec_contact_sym_mig"), [.param (nm! "nu1"), .param (nm! "nu2"), .lit 0 1, .param (nm! "m"), .param (nm! "T1"), .param (nm! "T2")]⟩,
  ⟨(nm! "portik_models_2d.asym_mig_twoepoch"), (nm! "portik_models_2d.anc_asym_mig"), [.param (nm! "nu1"), .param (nm! "nu2"), .param (nm! "m12"), .param (nm! "m21"), .lit 0 1, .lit 0 1, .param (nm! "T1"), .param (nm! "T2")]⟩,
  ⟨(nm! "portik_models_2d.asym_mig_twoepoch"), (nm! "portik_models_2d.sec_contact_asym_mig"), [.param (nm! "nu1"), .param (nm! "nu2"), .lit 0 1, .lit 0 1, .param (nm! "m12"), .param (nm! "m21"), .param (nm! "T1"), .param (nm! "T2")]⟩,
  ⟨(nm! "portik_models_2d.sec_contact_asym_mig_three_epoch"), (nm! "portik_models_2d.no_mig"), [.param (nm! "nu1"), .param (nm! "nu2"), .lit 0 1, .lit 0 1, .param (nm! "T"), .lit 0 1]⟩,
  ⟨(nm! "portik_models_2d.sec_contact_sym_mig_size_three_epoch"), (nm! "portik_models_2d.sec_contact_sym_mig_three_epoch"), [.param (nm! "nu1"), .param (nm! "nu2"), .param (nm! "nu1"), .param (nm! "nu2"), .param (nm! "m"), .param (nm! "T1"), .param (nm! "T2"), .param (nm! "T3")]⟩,
  ⟨(nm! "portik_models_2d.vic_anc_sym_mig"), (nm! "portik_models_2d.vic_no_mig"), [.lit 0 1, .lit 0 1, .param (nm! "T"), .param (nm! "s")]⟩,
  ⟨(nm! "portik_models_2d.vic_sec_contact_sym_mig"), (nm! "portik_models_2d.vic_no_mig"), [.lit 0 1, .lit 0 1, .param (nm! "T"), .param (nm! "s")]⟩,
  ⟨(nm! "portik_models_3d.refugia_adj_1"), (nm! "portik_models_3d.split_nomig"), [.param (nm! "nu1"), .param (nm! "nuA"), .param (nm! "nu2"), .param (nm! "nu3"), .lit 0 1, .lit 0 1, .param (nm! "T1"), .param (nm! "T2"), .lit 0 1]⟩,
  ⟨(nm! "portik_models_3d.sim_split_refugia_sym_mig_adjacent"), (nm! "portik_models_3d.sim_split_no_mig"), [.param (nm! "nu1"), .param (nm! "nu2"), .param (nm! "nu3"), .lit 0 1, .lit 0 1, .param (nm! "T1"), .lit 0 1]⟩,
  ⟨(nm! "portik_models_3d.sim_split_refugia_sym_mig_adjacent_var"), (nm! "portik_models_3d.sim_split_no_mig"), [.param (nm! "nu1"), .param (nm! "nu2"), .param (nm! "nu3"), .lit 0 1, .lit 0 1, .param (nm! "T1"), .lit 0 1]⟩,
  ⟨(nm! "portik_models_3d.sim_split_refugia_uni_mig_adjacent_var"), (nm! "portik_models_3d.sim_split_no_mig"), [.param (nm! "nu1"), .param (nm! "nu2"), .param (nm! "nu3"), .lit 0 1, .lit 0 1, .param (nm! "T1"), .lit 0 1]⟩,
  ⟨(nm! "DemogSelModels.three_epoch_sel"), (nm! "DemogSelModels.two_epoch_sel"), [.lit 1 1, .param (nm! "nu"), .lit 0 1, .param (nm! "T"), .param (nm! "gamma")]⟩]

/-- two-population models that are symmetric under relabelling 1 ↔ 2, with the permuted parameter vector: 33 models -/
def symmetric : List SwapPair := [
  ⟨(nm! "Demographics2D.snm_2d"), []⟩,
  ⟨(nm! "Demographics2D.bottlegrowth_2d"), [.param (nm! "nuB"), .param (nm! "nuF"), .param (nm! "T")]⟩,
  ⟨(nm! "Demographics2D.bottlegrowth_split"), [.param (nm! "nuB"), .param (nm! "nuF"), .param (nm! "T"), .param (nm! "Ts")]⟩,
  ⟨(nm! "Demographics2D.bottlegrowth_split_mig"), [.param (nm! "nuB"), .param (nm! "nuF"), .param (nm! "m"), .param (nm! "T"), .param (nm! "Ts")]⟩,
  ⟨(nm! "Demographics2D.split_mig"), [.param (nm! "nu2"), .param (nm! "nu1"), .param (nm! "T"), .param (nm! "m")]⟩,
  ⟨(nm! "Demographics2D.split_asym_mig"), [.param (nm! "nu2"), .param (nm! "nu1"), .param (nm! "T"), .param (nm! "m21"), .param (nm! "m12")]⟩,
  ⟨(nm! "Demographics2D.split_delay_mig"), [.param (nm! "nu2"), .param (nm! "nu1"), .param (nm! "Tpre"), .param (nm! "Tmig"), .param (nm! "m21"), .param (nm! "m12")]⟩,
  ⟨(nm! "portik_models_2d.no_mig"), [.param (nm! "nu2"), .param (nm! "nu1"), .param (nm! "T")]⟩,
  ⟨(nm! "portik_models_2d.sym_mig"), [.param (nm! "nu2"), .param (nm! "nu1"), .param (nm! "m"), .param (nm! "T")]⟩,
  ⟨(nm! "portik_models_2d.asym_mig"), [.param (nm! "nu2"), .param (nm! "nu1"), .param (nm! "m21"), .param (nm! "m12"), .param (nm! "T")]⟩,
  ⟨(nm! "portik_models_2d.anc_sym_mig"), [.param (nm! "nu2"), .param (nm! "nu1"), .param (nm! "m"), .param (nm! "T1"), .param (nm! "T2")]⟩,
  ⟨(nm! "portik_models_2d.anc_asym_mig"), [.param (nm! "nu2"), .param (nm! "nu1"), .param (nm! "m21"), .param (nm! "m12"), .param (nm! "T1"), .param (nm! "T2")]⟩,
  ⟨(nm! "portik_models_2d.sec_contact_sym_mig"), [.param (nm! "nu2"), .param (nm! "nu1"), .param (nm! "m"), .param (nm! "T1"), .param (nm! "T2")]⟩,
  ⟨(nm! "portik_models_2d.sec_contact_asym_mig"), [.param (nm! "nu2"), .param (nm! "nu1"), .param (nm! "m21"), .param (nm! "m12"), .param (nm! "T1"), .param (nm! "T2")]⟩,
  ⟨(nm! "portik_models_2d.no_mig_size"), [.param (nm! "nu2a"), .param (nm! "nu1a"), .param (nm! "nu2b"), .param (nm! "nu1b"), .param (nm! "T1"), .param (nm! "T2")]⟩,
  ⟨(nm! "portik_models_2d.sym_mig_size"), [.param (nm! "nu2a"), .param (nm! "nu1a"), .param (nm! "nu2b"), .param (nm! "nu1b"), .param (nm! "m"), .param (nm! "T1"), .param (nm! "T2")]⟩,
  ⟨(nm! "portik_models_2d.asym_mig_size"), [.param (nm! "nu2a"), .param (nm! "nu1a"), .param (nm! "nu2b"), .param (nm! "nu1b"), .param (nm! "m21"), .param (nm! "m12"), .param (nm! "T1"), .param (nm! "T2")]⟩,
  ⟨(nm! "portik_models_2d.anc_sym_mig_size"), [.param (nm! "nu2a"), .param (nm! "nu1a"), .param (nm! "nu2b"), .param (nm! "nu1b"), .param (nm! "m"), .param (nm! "T1"), .param (nm! "T2")]⟩,
  ⟨(nm! "portik_models_2d.anc_asym_mig_size"), [.param (nm! "nu2a"), .param (nm! "nu1a"), .param (nm! "nu2b"), .param (nm! "nu1b"), .param (nm! "m21"), .param (nm! "m12"), .param (nm! "T1"), .param (nm! "T2")]⟩,
  ⟨(nm! "portik_models_2d.sec_contact_sym_mig_size"), [.param (nm! "nu2a"), .param (nm! "nu1a"), .param (nm! "nu2b"), .param (nm! "nu1b"), .param (nm! "m"), .param (nm! "T1"), .param (nm! "T2")]⟩,
  ⟨(nm! "portik_models_2d.sec_contact_asym_mig_size"), [.param (nm! "nu2a"), .param (nm! "nu1a"), .param (nm! "nu2b"), .param (nm! "nu1b"), .param (nm! "m21"), .param (nm! "m12"), .param (nm! "T1"), .param (nm! "T2")]⟩,
  ⟨(nm! "portik_models_2d.asym_mig_twoepoch"), [.param (nm! "nu2"), .param (nm! "nu1"), .param (nm! "m21a"), .param (nm! "m12a"), .param (nm! "m21b"), .param (nm! "m12b"), .param (nm! "T1"), .param (nm! "T2")]⟩,
  ⟨(nm! "portik_models_2d.sec_contact_sym_mig_three_epoch"), [.param (nm! "nu2"), .param (nm! "nu1"), .param (nm! "m"), .param (nm! "T1"), .param (nm! "T2"), .param (nm! "T3")]⟩,
  ⟨(nm! "portik_models_2d.sec_contact_asym_mig_three_epoch"), [.param (nm! "nu2"), .param (nm! "nu1"), .param (nm! "m21"), .param (nm! "m12"), .param (nm! "T1"), .param (nm! "T2")]⟩,
  ⟨(nm! "portik_models_2d.sec_contact_sym_mig_size_three_epoch"), [.param (nm! "nu2a"), .param (nm! "nu1a"), .param (nm! "nu2b"), .param (nm! "nu1b"), .param (nm! "m"), .param (nm! "T1"), .param (nm! "T2"), .param (nm! "T3")]⟩,
  ⟨(nm! "portik_models_2d.sec_contact_asym_mig_size_three_epoch"), [.param (nm! "nu2a"), .param (nm! "nu1a"), .param (nm! "nu2b"), .param (nm! "nu1b"), .param (nm! "m21"), .param (nm! "m12"), .param (nm! "T1"), .param (nm! "T2"), .param (nm! "T3")]⟩,
  ⟨(nm! "DemogSelModels.split_mig_sel_single_gamma"), [.param (nm! "nu2"), .param (nm! "nu1"), .param (nm! "T"), .param (nm! "m"), .param (nm! "gamma")]⟩,
  ⟨(nm! "DemogSelModels.split_asym_mig_sel_single_gamma"), [.param (nm! "nu2"), .param (nm! "nu1"), .param (nm! "T"), .param (nm! "m21"), .param (nm! "m12"), .param (nm! "gamma")]⟩,
  ⟨(nm! "DemogSelModels.split_delay_mig_sel_single_gamma"), [.param (nm! "nu2"), .param (nm! "nu1"), .param (nm! "Tpre"), .param (nm! "Tmig"), .param (nm! "m21"), .param (nm! "m12"), .param (nm! "gamma")]⟩,
  ⟨(nm! "DemogSelModels.bottlegrowth_2d_sel_single_gamma"), [.param (nm! "nuB"), .param (nm! "nuF"), .param (nm! "T"), .param (nm! "gamma")]⟩,
  ⟨(nm! "DemogSelModels.bottlegrowth_split_sel_single_gamma"), [.param (nm! "nuB"), .param (nm! "nuF"), .param (nm! "T"), .param (nm! "Ts"), .param (nm! "gamma")]⟩,
  ⟨(nm! "DemogSelModels.bottlegrowth_split_mig_sel_single_gamma"), [.param (nm! "nuB"), .param (nm! "nuF"), .param (nm! "m"), .param (nm! "T"), .param (nm! "Ts"), .param (nm! "gamma")]⟩,
  ⟨(nm! "portik_models_2d.sym_mig_twoepoch"), [.param (nm! "nu2"), .param (nm! "nu1"), .param (nm! "m1"), .param (nm! "m2"), .param (nm! "T1"), .param (nm! "T2")]⟩]

/-- model `a` at `argsA`, in the branch `path` of its `if`s (`true` = then), is model `b` at `argsB` (both over the same free
    parameter names) -/
structure BranchPair where
  a : Name
  argsA : List Expr
  path : List Bool
  b : Name
  argsB : List Expr
  deriving Repr, DecidableEq

/-- the models with an `if T >= Ts` (split before the size change: the `else` branch): with no size change left (`T = 0`,
    hence `0 >= Ts` false for `Ts > 0`) they are a split into two populations of the ancestral size.  These pairs reach the
    branch that the tree-equal delegation pairs above cannot tell apart from its delegates. -/
def branch : List BranchPair := [
  ⟨(nm! "DemogSelModels.bottlegrowth_split_mig_sel"),
     [.param (nm! "nuB"), .param (nm! "nuF"), .param (nm! "m"), .lit 0 1, .param (nm! "Ts"), .param (nm! "gamma1"), .param (nm! "gamma2")], [false],
   (nm! "DemogSelModels.split_mig_sel"),
     [.lit 1 1, .lit 1 1, .param (nm! "Ts"), .param (nm! "m"), .param (nm! "gamma1"), .param (nm! "gamma2")]⟩,
  ⟨(nm! "DemogSelModels.bottlegrowth_split_mig_sel_single_gamma"),
     [.param (nm! "nuB"), .param (nm! "nuF"), .param (nm! "m"), .lit 0 1, .param (nm! "Ts"), .param (nm! "gamma")], [false],
   (nm! "DemogSelModels.split_mig_sel_single_gamma"),
     [.lit 1 1, .lit 1 1, .param (nm! "Ts"), .param (nm! "m"), .param (nm! "gamma")]⟩,
  ⟨(nm! "DemogSelModels.bottlegrowth_split_sel"),
     [.param (nm! "nuB"), .param (nm! "nuF"), .lit 0 1, .param (nm! "Ts"), .param (nm! "gamma1"), .param (nm! "gamma2")], [false],
   (nm! "DemogSelModels.split_mig_sel"),
     [.lit 1 1, .lit 1 1, .param (nm! "Ts"), .lit 0 1, .param (nm! "gamma1"), .param (nm! "gamma2")]⟩,
  ⟨(nm! "Demographics2D.bottlegrowth_split_mig"),
     [.param (nm! "nuB"), .param (nm! "nuF"), .param (nm! "m"), .lit 0 1, .param (nm! "Ts")], [false],
   (nm! "Demographics2D.split_mig"),
     [.lit 1 1, .lit 1 1, .param (nm! "Ts"), .param (nm! "m")]⟩,
  ⟨(nm! "Demographics2D.bottlegrowth_split"),
     [.param (nm! "nuB"), .param (nm! "nuF"), .lit 0 1, .param (nm! "Ts")], [false],
   (nm! "portik_models_2d.no_mig"),
     [.lit 1 1, .lit 1 1, .param (nm! "Ts")]⟩]

def nesting : List (String × List NestPair) :=
  [("zero_migration", zeroMigration), ("zero_epoch", zeroEpoch), ("equal_rates", equalRates),
   ("zero_selection", zeroSelection), ("equal_selection", equalSelection), ("composite", composite)]

/-- model `name` at the parameter vector `args` is the model with its populations relabelled by `perm` (new population `i` =
    old population `perm[i]`, 0-based) -/
structure PermPair where
  name : Name
  perm : List Nat
  args : List Expr
  deriving Repr, DecidableEq

/-- **every model of the table that has a symmetric partner under a non-trivial permutation of its population labels, with
    every such permutation** (67 entries: the 33 two-population models of `symmetric` under `[1,0]`, and 17 three-population
    models — under `[0,2,1]` (the two daughters of the second split) for the `split_*`/`ancmig_*`/`out_of_africa` family, under
    all five non-trivial permutations for the simultaneous splits without or with all-pairs migration, under the one
    reflection that fixes the migration path for the `*_adjacent*` simultaneous splits).  Found by relabelling the trace of
    each model by each permutation (Model/ModelPerm.lean) and matching the result against the model's own trace up to a
    renaming of its parameters; the models that are not listed have no such renaming (asymmetric migration paths,
    a fraction `s`/`1-s` or `f` tied to one label, selection in one population only). -/
def permSymmetric : List PermPair := [
  ⟨(nm! "Demographics2D.snm_2d"), [1, 0], []⟩,
  ⟨(nm! "Demographics2D.bottlegrowth_2d"), [1, 0], [.param (nm! "nuB"), .param (nm! "nuF"), .param (nm! "T")]⟩,
  ⟨(nm! "Demographics2D.bottlegrowth_split"), [1, 0], [.param (nm! "nuB"), .param (nm! "nuF"), .param (nm! "T"), .param (nm! "Ts")]⟩,
  ⟨(nm! "Demographics2D.bottlegrowth_split_mig"), [1, 0], [.param (nm! "nuB"), .param (nm! "nuF"), .param (nm! "m"), .param (nm! "T"), .param (nm! "Ts")]⟩,
  ⟨(nm! "Demographics2D.split_mig"), [1, 0], [.param (nm! "nu2"), .param (nm! "nu1"), .param (nm! "T"), .param (nm! "m")]⟩,
  ⟨(nm! "Demographics2D.split_asym_mig"), [1, 0], [.param (nm! "nu2"), .param (nm! "nu1"), .param (nm! "T"), .param (nm! "m21"), .param (nm! "m12")]⟩,
  ⟨(nm! "Demographics2D.split_delay_mig"), [1, 0], [.param (nm! "nu2"), .param (nm! "nu1"), .param (nm! "Tpre"), .param (nm! "Tmig"), .param (nm! "m21"), .param (nm! "m12")]⟩,
  ⟨(nm! "Demographics3D.out_of_africa"), [0, 2, 1], [.param (nm! "nuAf"), .param (nm! "nuB"), .param (nm! "nuAs0"), .param (nm! "nuAs"), .param (nm! "nuEu0"), .param (nm! "nuEu"), .param (nm! "mAfB"), .param (nm! "mAfAs"), .param (nm! "mAfEu"), .param (nm! "mEuAs"), .param (nm! "TAf"), .param (nm! "TB"), .param (nm! "TEuAs")]⟩,
  ⟨(nm! "portik_models_2d.no_mig"), [1, 0], [.param (nm! "nu2"), .param (nm! "nu1"), .param (nm! "T")]⟩,
  ⟨(nm! "portik_models_2d.sym_mig"), [1, 0], [.param (nm! "nu2"), .param (nm! "nu1"), .param (nm! "m"), .param (nm! "T")]⟩,
  ⟨(nm! "portik_models_2d.asym_mig"), [1, 0], [.param (nm! "nu2"), .param (nm! "nu1"), .param (nm! "m21"), .param (nm! "m12"), .param (nm! "T")]⟩,
  ⟨(nm! "portik_models_2d.anc_sym_mig"), [1, 0], [.param (nm! "nu2"), .param (nm! "nu1"), .param (nm! "m"), .param (nm! "T1"), .param (nm! "T2")]⟩,
  ⟨(nm! "portik_models_2d.anc_asym_mig"), [1, 0], [.param (nm! "nu2"), .param (nm! "nu1"), .param (nm! "m21"), .param (nm! "m12"), .param (nm! "T1"), .param (nm! "T2")]⟩,
  ⟨(nm! "portik_models_2d.sec_contact_sym_mig"), [1, 0], [.param (nm! "nu2"), .param (nm! "nu1"), .param (nm! "m"), .param (nm! "T1"), .param (nm! "T2")]⟩,
  ⟨(nm! "portik_models_2d.sec_contact_asym_mig"), [1, 0], [.param (nm! "nu2"), .param (nm! "nu1"), .param (nm! "m21"), .param (nm! "m12"), .param (nm! "T1"), .param (nm! "T2")]⟩,
  ⟨(nm! "portik_models_2d.no_mig_size"), [1, 0], [.param (nm! "nu2a"), .param (nm! "nu1a"), .param (nm! "nu2b"), .param (nm! "nu1b"), .param (nm! "T1"), .param (nm! "T2")]⟩,
  ⟨(nm! "portik_models_2d.sym_mig_size"), [1, 0], [.param (nm! "nu2a"), .param (nm! "nu1a"), .param (nm! "nu2b"), .param (nm! "nu1b"), .param (nm! "m"), .param (nm! "T1"), .param (nm! "T2")]⟩,
  ⟨(nm! "portik_models_2d.asym_mig_size"), [1, 0], [.param (nm! "nu2a"), .param (nm! "nu1a"), .param (nm! "nu2b"), .param (nm! "nu1b"), .param (nm! "m21"), .param (nm! "m12"), .param (nm! "T1"), .param (nm! "T2")]⟩,
  ⟨(nm! "portik_models_2d.anc_sym_mig_size"), [1, 0], [.param (nm! "nu2a"), .param (nm! "nu1a"), .param (nm! "nu2b"), .param (nm! "nu1b"), .param (nm! "m"), .param (nm! "T1"), .param (nm! "T2")]⟩,
  ⟨(nm! "portik_models_2d.anc_asym_mig_size"), [1, 0], [.param (nm! "nu2a"), .param (nm! "nu1a"), .param (nm! "nu2b"), .param (nm! "nu1b"), .param (nm! "m21"), .param (nm! "m12"), .param (nm! "T1"), .param (nm! "T2")]⟩,
  ⟨(nm! "portik_models_2d.sec_contact_sym_mig_size"), [1, 0], [.param (nm! "nu2a"), .param (nm! "nu1a"), .param (nm! "nu2b"), .param (nm! "nu1b"), .param (nm! "m"), .param (nm! "T1"), .param (nm! "T2")]⟩,
  ⟨(nm! "portik_models_2d.sec_contact_asym_mig_size"), [1, 0], [.param (nm! "nu2a"), .param (nm! "nu1a"), .param (nm! "nu2b"), .param (nm! "nu1b"), .param (nm! "m21"), .param (nm! "m12"), .param (nm! "T1"), .param (nm! "T2")]⟩,
  ⟨(nm! "portik_models_2d.sym_mig_twoepoch"), [1, 0], [.param (nm! "nu2"), .param (nm! "nu1"), .param (nm! "m1"), .param (nm! "m2"), .param (nm! "T1"), .param (nm! "T2")]⟩,
  ⟨(nm! "portik_models_2d.asym_mig_twoepoch"), [1, 0], [.param (nm! "nu2"), .param (nm! "nu1"), .param (nm! "m21a"), .param (nm! "m12a"), .param (nm! "m21b"), .param (nm! "m12b"), .param (nm! "T1"), .param (nm! "T2")]⟩,
  ⟨(nm! "portik_models_2d.sec_contact_sym_mig_three_epoch"), [1, 0], [.param (nm! "nu2"), .param (nm! "nu1"), .param (nm! "m"), .param (nm! "T1"), .param (nm! "T2"), .param (nm! "T3")]⟩,
  ⟨(nm! "portik_models_2d.sec_contact_asym_mig_three_epoch"), [1, 0], [.param (nm! "nu2"), .param (nm! "nu1"), .param (nm! "m21"), .param (nm! "m12"), .param (nm! "T1"), .param (nm! "T2")]⟩,
  ⟨(nm! "portik_models_2d.sec_contact_sym_mig_size_three_epoch"), [1, 0], [.param (nm! "nu2a"), .param (nm! "nu1a"), .param (nm! "nu2b"), .param (nm! "nu1b"), .param (nm! "m"), .param (nm! "T1"), .param (nm! "T2"), .param (nm! "T3")]⟩,
  ⟨(nm! "portik_models_2d.sec_contact_asym_mig_size_three_epoch"), [1, 0], [.param (nm! "nu2a"), .param (nm! "nu1a"), .param (nm! "nu2b"), .param (nm! "nu1b"), .param (nm! "m21"), .param (nm! "m12"), .param (nm! "T1"), .param (nm! "T2"), .param (nm! "T3")]⟩,
  ⟨(nm! "portik_models_3d.split_nomig"), [0, 2, 1], [.param (nm! "nu1"), .param (nm! "nuA"), .param (nm! "nu3"), .param (nm! "nu2"), .param (nm! "T1"), .param (nm! "T2")]⟩,
  ⟨(nm! "portik_models_3d.split_symmig_all"), [0, 2, 1], [.param (nm! "nu1"), .param (nm! "nuA"), .param (nm! "nu3"), .param (nm! "nu2"), .param (nm! "mA"), .param (nm! "m3"), .param (nm! "m2"), .param (nm! "m1"), .param (nm! "T1"), .param (nm! "T2")]⟩,
  ⟨(nm! "portik_models_3d.ancmig_adj_3"), [0, 2, 1], [.param (nm! "nu1"), .param (nm! "nuA"), .param (nm! "nu3"), .param (nm! "nu2"), .param (nm! "mA"), .param (nm! "T1a"), .param (nm! "T1b"), .param (nm! "T2")]⟩,
  ⟨(nm! "portik_models_3d.ancmig_adj_2"), [0, 2, 1], [.param (nm! "nu1"), .param (nm! "nuA"), .param (nm! "nu3"), .param (nm! "nu2"), .param (nm! "mA"), .param (nm! "T1"), .param (nm! "T2")]⟩,
  ⟨(nm! "portik_models_3d.sim_split_no_mig"), [0, 2, 1], [.param (nm! "nu1"), .param (nm! "nu3"), .param (nm! "nu2"), .param (nm! "T1")]⟩,
  ⟨(nm! "portik_models_3d.sim_split_no_mig"), [1, 0, 2], [.param (nm! "nu2"), .param (nm! "nu1"), .param (nm! "nu3"), .param (nm! "T1")]⟩,
  ⟨(nm! "portik_models_3d.sim_split_no_mig"), [1, 2, 0], [.param (nm! "nu2"), .param (nm! "nu3"), .param (nm! "nu1"), .param (nm! "T1")]⟩,
  ⟨(nm! "portik_models_3d.sim_split_no_mig"), [2, 0, 1], [.param (nm! "nu3"), .param (nm! "nu1"), .param (nm! "nu2"), .param (nm! "T1")]⟩,
  ⟨(nm! "portik_models_3d.sim_split_no_mig"), [2, 1, 0], [.param (nm! "nu3"), .param (nm! "nu2"), .param (nm! "nu1"), .param (nm! "T1")]⟩,
  ⟨(nm! "portik_models_3d.sim_split_no_mig_size"), [0, 2, 1], [.param (nm! "nu1a"), .param (nm! "nu3a"), .param (nm! "nu2a"), .param (nm! "nu1b"), .param (nm! "nu3b"), .param (nm! "nu2b"), .param (nm! "T1"), .param (nm! "T2")]⟩,
  ⟨(nm! "portik_models_3d.sim_split_no_mig_size"), [1, 0, 2], [.param (nm! "nu2a"), .param (nm! "nu1a"), .param (nm! "nu3a"), .param (nm! "nu2b"), .param (nm! "nu1b"), .param (nm! "nu3b"), .param (nm! "T1"), .param (nm! "T2")]⟩,
  ⟨(nm! "portik_models_3d.sim_split_no_mig_size"), [1, 2, 0], [.param (nm! "nu2a"), .param (nm! "nu3a"), .param (nm! "nu1a"), .param (nm! "nu2b"), .param (nm! "nu3b"), .param (nm! "nu1b"), .param (nm! "T1"), .param (nm! "T2")]⟩,
  ⟨(nm! "portik_models_3d.sim_split_no_mig_size"), [2, 0, 1], [.param (nm! "nu3a"), .param (nm! "nu1a"), .param (nm! "nu2a"), .param (nm! "nu3b"), .param (nm! "nu1b"), .param (nm! "nu2b"), .param (nm! "T1"), .param (nm! "T2")]⟩,
  ⟨(nm! "portik_models_3d.sim_split_no_mig_size"), [2, 1, 0], [.param (nm! "nu3a"), .param (nm! "nu2a"), .param (nm! "nu1a"), .param (nm! "nu3b"), .param (nm! "nu2b"), .param (nm! "nu1b"), .param (nm! "T1"), .param (nm! "T2")]⟩,
  ⟨(nm! "portik_models_3d.sim_split_sym_mig_all"), [0, 2, 1], [.param (nm! "nu1"), .param (nm! "nu3"), .param (nm! "nu2"), .param (nm! "m3"), .param (nm! "m2"), .param (nm! "m1"), .param (nm! "T1")]⟩,
  ⟨(nm! "portik_models_3d.sim_split_sym_mig_all"), [1, 0, 2], [.param (nm! "nu2"), .param (nm! "nu1"), .param (nm! "nu3"), .param (nm! "m1"), .param (nm! "m3"), .param (nm! "m2"), .param (nm! "T1")]⟩,
  ⟨(nm! "portik_models_3d.sim_split_sym_mig_all"), [1, 2, 0], [.param (nm! "nu2"), .param (nm! "nu3"), .param (nm! "nu1"), .param (nm! "m2"), .param (nm! "m3"), .param (nm! "m1"), .param (nm! "T1")]⟩,
  ⟨(nm! "portik_models_3d.sim_split_sym_mig_all"), [2, 0, 1], [.param (nm! "nu3"), .param (nm! "nu1"), .param (nm! "nu2"), .param (nm! "m3"), .param (nm! "m1"), .param (nm! "m2"), .param (nm! "T1")]⟩,
  ⟨(nm! "portik_models_3d.sim_split_sym_mig_all"), [2, 1, 0], [.param (nm! "nu3"), .param (nm! "nu2"), .param (nm! "nu1"), .param (nm! "m2"), .param (nm! "m1"), .param (nm! "m3"), .param (nm! "T1")]⟩,
  ⟨(nm! "portik_models_3d.sim_split_sym_mig_adjacent"), [2, 1, 0], [.param (nm! "nu3"), .param (nm! "nu2"), .param (nm! "nu1"), .param (nm! "m2"), .param (nm! "m1"), .param (nm! "T1")]⟩,
  ⟨(nm! "portik_models_3d.sim_split_refugia_sym_mig_all"), [0, 2, 1], [.param (nm! "nu1"), .param (nm! "nu3"), .param (nm! "nu2"), .param (nm! "m3"), .param (nm! "m2"), .param (nm! "m1"), .param (nm! "T1"), .param (nm! "T2")]⟩,
  ⟨(nm! "portik_models_3d.sim_split_refugia_sym_mig_all"), [1, 0, 2], [.param (nm! "nu2"), .param (nm! "nu1"), .param (nm! "nu3"), .param (nm! "m1"), .param (nm! "m3"), .param (nm! "m2"), .param (nm! "T1"), .param (nm! "T2")]⟩,
  ⟨(nm! "portik_models_3d.sim_split_refugia_sym_mig_all"), [1, 2, 0], [.param (nm! "nu2"), .param (nm! "nu3"), .param (nm! "nu1"), .param (nm! "m2"), .param (nm! "m3"), .param (nm! "m1"), .param (nm! "T1"), .param (nm! "T2")]⟩,
  ⟨(nm! "portik_models_3d.sim_split_refugia_sym_mig_all"), [2, 0, 1], [.param (nm! "nu3"), .param (nm! "nu1"), .param (nm! "nu2"), .param (nm! "m3"), .param (nm! "m1"), .param (nm! "m2"), .param (nm! "T1"), .param (nm! "T2")]⟩,
  ⟨(nm! "portik_models_3d.sim_split_refugia_sym_mig_all"), [2, 1, 0], [.param (nm! "nu3"), .param (nm! "nu2"), .param (nm! "nu1"), .param (nm! "m2"), .param (nm! "m1"), .param (nm! "m3"), .param (nm! "T1"), .param (nm! "T2")]⟩,
  ⟨(nm! "portik_models_3d.sim_split_refugia_sym_mig_adjacent"), [2, 1, 0], [.param (nm! "nu3"), .param (nm! "nu2"), .param (nm! "nu1"), .param (nm! "m2"), .param (nm! "m1"), .param (nm! "T1"), .param (nm! "T2")]⟩,
  ⟨(nm! "portik_models_3d.split_nomig_size"), [0, 2, 1], [.param (nm! "nu1a"), .param (nm! "nuA"), .param (nm! "nu3a"), .param (nm! "nu2a"), .param (nm! "nu1b"), .param (nm! "nu3b"), .param (nm! "nu2b"), .param (nm! "T1"), .param (nm! "T2"), .param (nm! "T3")]⟩,
  ⟨(nm! "portik_models_3d.ancmig_2_size"), [0, 2, 1], [.param (nm! "nu1a"), .param (nm! "nuA"), .param (nm! "nu3a"), .param (nm! "nu2a"), .param (nm! "nu1b"), .param (nm! "nu3b"), .param (nm! "nu2b"), .param (nm! "mA"), .param (nm! "T1"), .param (nm! "T2"), .param (nm! "T3")]⟩,
  ⟨(nm! "portik_models_3d.sim_split_refugia_sym_mig_adjacent_size"), [2, 1, 0], [.param (nm! "nu3a"), .param (nm! "nu2a"), .param (nm! "nu1a"), .param (nm! "nu3b"), .param (nm! "nu2b"), .param (nm! "nu1b"), .param (nm! "m2"), .param (nm! "m1"), .param (nm! "T1"), .param (nm! "T2"), .param (nm! "T3")]⟩,
  ⟨(nm! "portik_models_3d.sim_split_sym_mig_adjacent_var"), [1, 0, 2], [.param (nm! "nu2"), .param (nm! "nu1"), .param (nm! "nu3"), .param (nm! "m3"), .param (nm! "m2"), .param (nm! "T1")]⟩,
  ⟨(nm! "portik_models_3d.sim_split_uni_mig_adjacent_var"), [1, 0, 2], [.param (nm! "nu2"), .param (nm! "nu1"), .param (nm! "nu3"), .param (nm! "m31"), .param (nm! "m32"), .param (nm! "T1")]⟩,
  ⟨(nm! "portik_models_3d.sim_split_refugia_sym_mig_adjacent_var"), [1, 0, 2], [.param (nm! "nu2"), .param (nm! "nu1"), .param (nm! "nu3"), .param (nm! "m3"), .param (nm! "m2"), .param (nm! "T1"), .param (nm! "T2")]⟩,
  ⟨(nm! "portik_models_3d.sim_split_refugia_uni_mig_adjacent_var"), [1, 0, 2], [.param (nm! "nu2"), .param (nm! "nu1"), .param (nm! "nu3"), .param (nm! "m31"), .param (nm! "m32"), .param (nm! "T1"), .param (nm! "T2")]⟩,
  ⟨(nm! "DemogSelModels.split_mig_sel_single_gamma"), [1, 0], [.param (nm! "nu2"), .param (nm! "nu1"), .param (nm! "T"), .param (nm! "m"), .param (nm! "gamma")]⟩,
  ⟨(nm! "DemogSelModels.split_asym_mig_sel_single_gamma"), [1, 0], [.param (nm! "nu2"), .param (nm! "nu1"), .param (nm! "T"), .param (nm! "m21"), .param (nm! "m12"), .param (nm! "gamma")]⟩,
  ⟨(nm! "DemogSelModels.split_delay_mig_sel_single_gamma"), [1, 0], [.param (nm! "nu2"), .param (nm! "nu1"), .param (nm! "Tpre"), .param (nm! "Tmig"), .param (nm! "m21"), .param (nm! "m12"), .param (nm! "gamma")]⟩,
  ⟨(nm! "DemogSelModels.bottlegrowth_2d_sel_single_gamma"), [1, 0], [.param (nm! "nuB"), .param (nm! "nuF"), .param (nm! "T"), .param (nm! "gamma")]⟩,
  ⟨(nm! "DemogSelModels.bottlegrowth_split_sel_single_gamma"), [1, 0], [.param (nm! "nuB"), .param (nm! "nuF"), .param (nm! "T"), .param (nm! "Ts"), .param (nm! "gamma")]⟩,
  ⟨(nm! "DemogSelModels.bottlegrowth_split_mig_sel_single_gamma"), [1, 0], [.param (nm! "nuB"), .param (nm! "nuF"), .param (nm! "m"), .param (nm! "T"), .param (nm! "Ts"), .param (nm! "gamma")]⟩]

/-- **reference-size sites** (strict units): the models in which, apart from the two defaults every library call inherits
    (`theta0 = 1` in every integrator, `nu = 1` in `PhiManip.phi_1D`), a dimensionless quantity sits in a Size position, with
    the (primitive, keyword) pairs at which it does: the literal sizes `1` of the `bottlegrowth_split*` family and of `IM_sel`
    (`nuPre = 1`), the fractions `s`, `1-s` of the Portik `vic_*`/`founder_*` models and of `IM`, `exp(log(nu)·t/T)` in `growth` -/
def refSiteTable : List (Name × List (Name × Name)) := [
  (nm! "Demographics1D.growth", [(nm! "Integration.one_pop", nm! "nu")]),
  (nm! "Demographics2D.bottlegrowth_2d", [(nm! "Integration.two_pops", nm! "nu1"), (nm! "Integration.two_pops", nm! "nu2")]),
  (nm! "Demographics2D.bottlegrowth_split", [(nm! "Integration.two_pops", nm! "nu1"), (nm! "Integration.two_pops", nm! "nu2")]),
  (nm! "Demographics2D.bottlegrowth_split_mig", [(nm! "Integration.two_pops", nm! "nu1"), (nm! "Integration.two_pops", nm! "nu2")]),
  (nm! "Demographics2D.IM", [(nm! "Integration.two_pops", nm! "nu1"), (nm! "Integration.two_pops", nm! "nu2")]),
  (nm! "portik_models_2d.vic_no_mig", [(nm! "Integration.two_pops", nm! "nu1"), (nm! "Integration.two_pops", nm! "nu2")]),
  (nm! "portik_models_2d.vic_anc_sym_mig", [(nm! "Integration.two_pops", nm! "nu1"), (nm! "Integration.two_pops", nm! "nu2")]),
  (nm! "portik_models_2d.vic_anc_asym_mig", [(nm! "Integration.two_pops", nm! "nu1"), (nm! "Integration.two_pops", nm! "nu2")]),
  (nm! "portik_models_2d.vic_sec_contact_sym_mig", [(nm! "Integration.two_pops", nm! "nu1"), (nm! "Integration.two_pops", nm! "nu2")]),
  (nm! "portik_models_2d.vic_sec_contact_asym_mig", [(nm! "Integration.two_pops", nm! "nu1"), (nm! "Integration.two_pops", nm! "nu2")]),
  (nm! "portik_models_2d.founder_nomig", [(nm! "Integration.two_pops", nm! "nu1"), (nm! "Integration.two_pops", nm! "nu2")]),
  (nm! "portik_models_2d.founder_sym", [(nm! "Integration.two_pops", nm! "nu1"), (nm! "Integration.two_pops", nm! "nu2")]),
  (nm! "portik_models_2d.founder_asym", [(nm! "Integration.two_pops", nm! "nu1"), (nm! "Integration.two_pops", nm! "nu2")]),
  (nm! "portik_models_2d.vic_no_mig_admix_early", [(nm! "Integration.two_pops", nm! "nu1"), (nm! "Integration.two_pops", nm! "nu2")]),
  (nm! "portik_models_2d.vic_no_mig_admix_late", [(nm! "Integration.two_pops", nm! "nu1"), (nm! "Integration.two_pops", nm! "nu2")]),
  (nm! "portik_models_2d.vic_two_epoch_admix", [(nm! "Integration.two_pops", nm! "nu1"), (nm! "Integration.two_pops", nm! "nu2")]),
  (nm! "portik_models_2d.founder_nomig_admix_early", [(nm! "Integration.two_pops", nm! "nu1"), (nm! "Integration.two_pops", nm! "nu2")]),
  (nm! "portik_models_2d.founder_nomig_admix_late", [(nm! "Integration.two_pops", nm! "nu1"), (nm! "Integration.two_pops", nm! "nu2")]),
  (nm! "portik_models_2d.founder_nomig_admix_two_epoch", [(nm! "Integration.two_pops", nm! "nu1"), (nm! "Integration.two_pops", nm! "nu2")]),
  (nm! "DemogSelModels.IM_sel", [(nm! "Integration.one_pop", nm! "nu"), (nm! "Integration.two_pops", nm! "nu1"), (nm! "Integration.two_pops", nm! "nu2")]),
  (nm! "DemogSelModels.IM_sel_single_gamma", [(nm! "Integration.one_pop", nm! "nu"), (nm! "Integration.two_pops", nm! "nu1"), (nm! "Integration.two_pops", nm! "nu2")]),
  (nm! "DemogSelModels.bottlegrowth_2d_sel", [(nm! "Integration.two_pops", nm! "nu1"), (nm! "Integration.two_pops", nm! "nu2")]),
  (nm! "DemogSelModels.bottlegrowth_2d_sel_single_gamma", [(nm! "Integration.two_pops", nm! "nu1"), (nm! "Integration.two_pops", nm! "nu2")]),
  (nm! "DemogSelModels.bottlegrowth_split_sel", [(nm! "Integration.two_pops", nm! "nu1"), (nm! "Integration.two_pops", nm! "nu2")]),
  (nm! "DemogSelModels.bottlegrowth_split_sel_single_gamma", [(nm! "Integration.two_pops", nm! "nu1"), (nm! "Integration.two_pops", nm! "nu2")]),
  (nm! "DemogSelModels.bottlegrowth_split_mig_sel", [(nm! "Integration.two_pops", nm! "nu1"), (nm! "Integration.two_pops", nm! "nu2")]),
  (nm! "DemogSelModels.bottlegrowth_split_mig_sel_single_gamma", [(nm! "Integration.two_pops", nm! "nu1"), (nm! "Integration.two_pops", nm! "nu2")]),
  (nm! "DemogSelModels.growth_sel", [(nm! "Integration.one_pop", nm! "nu")])]

/-- the models in which the reference size sits *inside* a size function (`s·(nu/s)^(t/T)` with `s` a fraction of the reference
    size, `exp(log(nu)·t/T)`, `(1·s)·…` after `nuPre = 1`): making it explicit at keyword level does not make them strictly
    well-united -/
def refInsideModels : List Name :=
  [nm! "Demographics1D.growth", nm! "Demographics2D.IM", nm! "portik_models_2d.founder_nomig",
   nm! "portik_models_2d.founder_sym", nm! "portik_models_2d.founder_asym",
   nm! "portik_models_2d.founder_nomig_admix_early", nm! "portik_models_2d.founder_nomig_admix_late",
   nm! "portik_models_2d.founder_nomig_admix_two_epoch", nm! "DemogSelModels.IM_sel",
   nm! "DemogSelModels.IM_sel_single_gamma", nm! "DemogSelModels.growth_sel"]

end DadiVerif.ModelDSL.Pairs
