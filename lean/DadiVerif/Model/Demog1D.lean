import DadiVerif.Generated.Demog1D
import DadiVerif.Generated.Coeffs
/-! C01 — the library's one-population models as size histories, and the heterozygosity they produce.

`Gen.Demog1D.models` (generated from dadi/Demographics1D.py and dadi/DFE/DemogSelModels.py) lists, for every one-population model
function, the `Integration.one_pop` calls it makes.  Here: the history `[(ν, T), …]` a parameter vector selects, the time steps of one
epoch under the documented rule (`while current_t < T: this_dt = min(dt, T − current_t)`, dt from the generated `_compute_dt`), and the
trapezoid-weighted heterozygosity H = Σ w_j x_j(1−x_j) φ_j after the history — by `C01_het_step` and `C01_inject_het` one inject-and-step
sends H to (H + dt·θ0(1−x₁)/2)/(1 + κ·dt), κ = 1/ν.  Core Lean only (the driver runs it). -/
namespace DadiVerif.Demog1D
open DadiVerif.Gen.Demog1D

/-- one inject-and-step on the heterozygosity: b = θ0(1−x₁)/2 (influx per unit time), κ = 1/ν (drift) -/
def hetStep (κ b dt H : Rat) : Rat := (H + dt * b) / (1 + κ * dt)

/-- an epoch, step by step -/
def hetEpoch (κ b : Rat) (dts : List Rat) (H : Rat) : Rat := dts.foldl (fun H dt => hetStep κ b dt H) H

/-- number of full steps of length dt in an epoch of length T -/
def fullSteps (T dt : Rat) : Nat := (T / dt).floor.toNat

/-- the time steps `while current_t < T: this_dt = min(dt, T − current_t)` takes -/
def stepList (T dt : Rat) : List Rat :=
  List.replicate (fullSteps T dt) dt ++ (if (fullSteps T dt : Rat) * dt < T then [T - (fullSteps T dt : Rat) * dt] else [])

/-- the same epoch in closed form (what the driver evaluates: thousands of steps stay one power) -/
def hetEpochClosed (κ b T dt H : Rat) : Rat :=
  let n := fullSteps T dt
  let r := T - (n : Rat) * dt
  b / κ + (H - b / κ) / ((1 + κ * dt) ^ n * (if (n : Rat) * dt < T then 1 + κ * r else 1))

def argVal (params : List Rat) : Arg → Option Rat
  | .param i => params[i]?
  | .lit q => some q
  | .func _ => none

def lookup (name : String) : Option Model := models.find? (·.name == name)

/-- what one `one_pop` call of a model receives: its length, its size (a number, or the name of a function of time), its gamma -/
structure Call where
  T : Rat
  nu : Sum Rat String
  gamma : Rat
deriving Repr

def callOf (params : List Rat) (e : Epoch) : Option Call := do
  let T ← argVal params e.T
  let nu ← match e.nu with
    | .func f => some (Sum.inr f)
    | a => (argVal params a).map Sum.inl
  let g ← match e.gamma with
    | none => some 0
    | some a => argVal params a
  some ⟨T, nu, g⟩

/-- the `one_pop` calls a model makes for a parameter vector (none: wrong number of parameters) -/
def calls (m : Model) (params : List Rat) : Option (List Call) :=
  if params.length ≠ m.params.length then none else m.epochs.mapM (callOf params)

/-- the piecewise-constant neutral history (ν, T) per epoch, when the model has one for these parameters -/
def history (m : Model) (params : List Rat) : Option (List (Rat × Rat)) := do
  let cs ← calls m params
  cs.mapM fun c => match c.nu with
    | .inl nu => if c.gamma = 0 then some (nu, c.T) else none
    | .inr _ => none

inductive HetResult where
  | ok (H : Rat)
  | raises (what : String)      -- what `one_pop` raises for such an epoch
  | outside                      -- not a neutral piecewise-constant history

/-- one epoch as `Integration.one_pop` runs it: nothing for T = 0, ValueError for T < 0, ν < 0 or ν = 0, otherwise the steps of
    `stepList T dt` with dt from the generated `_compute_dt` (no migration, no selection) -/
def hetOnePop (tf b : Rat) (ep : Rat × Rat) (H : Rat) : HetResult :=
  let (nu, T) := ep
  if T = 0 then .ok H
  else if T < 0 then .raises "ValueError"
  else if nu ≤ 0 then .raises "ValueError"
  else match Gen.Py.computeDt tf nu 0 0 (1/2) with
    | none => .outside
    | some dt => if dt ≤ 0 then .raises "ValueError" else .ok (hetEpochClosed (1 / nu) b T dt H)

def hetHistory (tf b : Rat) : List (Rat × Rat) → Rat → HetResult
  | [], H => .ok H
  | ep :: rest, H => match hetOnePop tf b ep H with
    | .ok H' => hetHistory tf b rest H'
    | r => r

/-- heterozygosity of the density a model hands to the sampler, from that of its start density -/
def hetModel (m : Model) (tf x1 θ0 H0 : Rat) (params : List Rat) : HetResult :=
  match history m params with
  | none => .outside
  | some h => hetHistory tf (θ0 * (1 - x1) / 2) h H0

end DadiVerif.Demog1D
