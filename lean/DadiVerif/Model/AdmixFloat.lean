import DadiVerif.Generated.Admix
/-
C06, round 4 — the proportion guard `if sum(fs) > 1: raise` as the FLOATING-POINT code evaluates it.

`Gen.Admix.guardsFl` (generated) is written in terms of a rounding `rnd` of one arithmetic operation and of the built-in
`sum` as one operation `fsum`.  Here: the two `sum` algorithms a CPython interpreter can run on the argument tuple
(`seqSum`: left fold, every addition rounded — all interpreters on numpy scalars, CPython < 3.12 on floats;
`neumaierSum`: CPython ≥ 3.12 on exact Python floats, `Python/bltinmodule.c`), and IEEE-754 binary64
round-to-nearest-even on exact rationals (`rndDouble`), so that the driver can run the generated float guards.
Core Lean only.
-/
namespace DadiVerif.Admix

/-- left-to-right `sum`: `((0 + x1) + x2) + …` with a rounding after every addition -/
def seqSum (rnd : Rat → Rat) (l : List Rat) : Rat := l.foldl (fun s x => rnd (s + x)) 0

def absR (x : Rat) : Rat := if x < 0 then -x else x

/-- one step of CPython 3.12's float `sum` (Neumaier): state = (running sum, compensation)
        t = f_result + x
        if fabs(f_result) >= fabs(x): c += (f_result - t) + x   else: c += (x - t) + f_result
        f_result = t -/
def neumaierStep (rnd : Rat → Rat) (st : Rat × Rat) (x : Rat) : Rat × Rat :=
  let t := rnd (st.1 + x)
  let e := if absR x ≤ absR st.1 then rnd (rnd (st.1 - t) + x) else rnd (rnd (x - t) + st.1)
  (t, rnd (st.2 + e))

/-- `if c: f_result += c` at the end -/
def neumaierSum (rnd : Rat → Rat) (l : List Rat) : Rat :=
  let st := l.foldl (neumaierStep rnd) (0, 0)
  if st.2 = 0 then st.1 else rnd (st.1 + st.2)

/-! ### binary64 round-to-nearest-even on rationals -/

def pow2 (e : Int) : Rat := if e ≥ 0 then ((2 ^ e.toNat : Nat) : Rat) else 1 / ((2 ^ (-e).toNat : Nat) : Rat)

/-- ⌊log2 a⌋ for a > 0 -/
def ilog2 (a : Rat) : Int :=
  let e0 : Int := (Nat.log2 a.num.natAbs : Int) - (Nat.log2 a.den : Int)
  if pow2 (e0 + 1) ≤ a then e0 + 1 else if pow2 e0 ≤ a then e0 else e0 - 1

/-- nearest binary64 value, ties to even (53-bit significand, gradual underflow; overflow not modelled) -/
def rndDouble (x : Rat) : Rat :=
  if x = 0 then 0 else
  let a := absR x
  let p : Int := max (ilog2 a - 52) (-1074)
  let q := a / pow2 p
  let fl : Int := q.floor
  let r := q - (fl : Rat)
  let n : Int := if r < 1/2 then fl else if 1/2 < r then fl + 1 else (if fl % 2 = 0 then fl else fl + 1)
  let y := (n : Rat) * pow2 p
  if x < 0 then -y else y

def findFl (name : String) : Option Gen.Admix.FlRow := Gen.Admix.guardsFl.find? fun r => r.name == name

end DadiVerif.Admix
