import DadiVerif.Model.ND
import DadiVerif.Model.Fold
import DadiVerif.Generated.Likelihood
/-
C11 — executable model of dadi/Inference.py `ll`, `ll_per_bin`, `ll_multinom(_per_bin)`,
`optimal_sfs_scaling`, `optimally_scaled_sfs`, `linear_Poisson_residual`, `Anscombe_Poisson_residual`
and of `Numerics.intersect_masks`, on flat (row-major) masked arrays.  Polymorphic in the scalar type:
the driver runs it over `Rat` (log / gammaln / sqrt / powers are tables supplied by the harness), the
theorems of Props/C11.lean instantiate the *same* definitions at `ℝ`.

The entry-wise formulas (`Gen.Lik.llPerBinCell`, `optScale`, `linResidCell`, `anscombeCell`), the auto-fold
switches and the corner re-masking switch of `intersect_masks` are generated from the current source
(tools/gen_Likelihood.py).  `Spectrum.fold` (dadi/Spectrum_mod.py:631-682) is modelled here by hand on the
flat array (reversing all axes of a C-ordered array = reversing the flat array), polymorphic in the scalar type;
its `Rat` instance is proved equal to the fold model of C09 (`Fold.foldSpec` of Model/Fold.lean, whose pointwise
programs are regenerated from `Spectrum.fold`) in Lemmas/LikFold.lean — `toC09` / `ofC09` / `foldViaC09` below are
that bridge, and the driver op `lik_fold` runs both.
Core Lean only.
-/
namespace DadiVerif.Lik
variable {α : Type} [Zero α] [NatCast α] [Add α] [Sub α] [Mul α] [Div α] [Neg α]
  [LT α] [DecidableLT α] [LE α] [DecidableLE α] [DecidableEq α]

/-- a `dadi.Spectrum`: shape, flat entries (value, mask), `folded` attribute -/
structure MSpec (α : Type) where
  shape  : List Nat
  cells  : List (Cell α)
  folded : Bool

/-- `numpy.ma` sum of all entries: masked entries are skipped; the result is `masked` iff every entry is -/
def maSum (cs : List (Cell α)) : Cell α :=
  ⟨((cs.filter fun c => !c.mask).map Cell.val).sum, cs.all (fun c => c.mask),
   (cs.filter fun c => !c.mask).any (fun c => c.bad)⟩

/-! ### `Spectrum.fold` on the flat array -/

/-- `_total_per_entry` of flat index `k` -/
def totalFlat (shape : List Nat) (k : Nat) : Nat := (unflat shape k).sum
/-- `numpy.sum(self.sample_sizes)` -/
def totalSamples (shape : List Nat) : Nat := (shape.map (· - 1)).sum
/-- `where_folded_out = total_per_entry > int(total_samples/2)` -/
def foldedOut (shape : List Nat) (k : Nat) : Bool := decide (totalFlat shape k > totalSamples shape / 2)
/-- `where_ambiguous = (total_per_entry == total_samples/2.)` -/
def ambiguous (shape : List Nat) (k : Nat) : Bool := decide (2 * totalFlat shape k = totalSamples shape)

/-- entry `k` of the folded spectrum from entry `k` (`x`) and its mirror image `n-1-k` (`y`):
    `folded = data + reverse(where(folded_out, data, 0)); folded[folded_out] = 0;
     folded += -0.5*ambiguous + 0.5*reverse(ambiguous)`; mask = own ∨ mirror ∨ folded_out ∨ corner -/
def foldCell (shape : List Nat) (n k : Nat) (x y : Cell α) : Cell α :=
  let half : α := ((1 : Nat) : α) / ((2 : Nat) : α)
  let v0 : α := if foldedOut shape k then 0 else x.val + (if foldedOut shape (n - 1 - k) then y.val else 0)
  let v : α := if ambiguous shape k then v0 + (-half * x.val + half * y.val) else v0
  ⟨v, x.mask || y.mask || foldedOut shape k || decide (k = 0) || decide (k + 1 = n), x.bad || y.bad⟩

def foldCells (shape : List Nat) (cs : List (Cell α)) : List (Cell α) :=
  List.zipWith (fun k (p : Cell α × Cell α) => foldCell shape cs.length k p.1 p.2)
    (List.range cs.length) (cs.zip cs.reverse)

def foldSpec (M : MSpec α) : MSpec α := ⟨M.shape, foldCells M.shape M.cells, true⟩

/-- `if hasattr(data,'folded') and data.folded and not model.folded: model = model.fold()`
    (`flag` = the statement is present in the function, generated) -/
def autofold (flag : Bool) (M D : MSpec α) : MSpec α :=
  if flag && D.folded && !M.folded then foldSpec M else M

/-! ### `Numerics.intersect_masks` -/

/-- `Spectrum.mask_corners`: `mask.flat[0] = mask.flat[-1] = True` -/
def maskCorners (ms : List Bool) : List Bool :=
  List.zipWith (fun k b => b || decide (k = 0) || decide (k + 1 = ms.length)) (List.range ms.length) ms

/-- `dadi.Spectrum(m, mask=j)` keeps the old mask (`keep_mask=True`) -/
def Cell.orMask (c : Cell α) (b : Bool) : Cell α := ⟨c.val, c.mask || b, c.bad⟩

/-- `ma.mask_or(ma.getmask(m1), ma.getmask(m2))` -/
def jointMask (m d : List (Cell α)) : List Bool := List.zipWith (fun a b => a.mask || b.mask) m d

def intersect (m d : List (Cell α)) : List (Cell α) × List (Cell α) :=
  if m.map Cell.mask = d.map Cell.mask then (m, d)
  else
    let j := if Gen.Lik.intersectMaskCorners then maskCorners (jointMask m d) else jointMask m d
    (List.zipWith Cell.orMask m j, List.zipWith Cell.orMask d j)

/-! ### the likelihood functions -/

def optimalScalingL (m d : List (Cell α)) : Cell α :=
  Gen.Lik.optScale (maSum (intersect m d).2) (maSum (intersect m d).1)

/-- `Inference.optimal_sfs_scaling(model, data)` -/
def optimalScaling (M D : MSpec α) : Cell α :=
  optimalScalingL (autofold Gen.Lik.autofold_optimal_sfs_scaling M D).cells D.cells

def llPerBinL (log lgam : α → α) (m d : List (Cell α)) : List (Cell α) :=
  List.zipWith (Gen.Lik.llPerBinCell log lgam) m d

/-- `Inference.ll_per_bin(model, data)` -/
def llPerBin (log lgam : α → α) (M D : MSpec α) : List (Cell α) :=
  llPerBinL log lgam (autofold Gen.Lik.autofold_ll_per_bin M D).cells D.cells

/-- `Inference.ll(model, data)` -/
def ll (log lgam : α → α) (M D : MSpec α) : Cell α := maSum (llPerBin log lgam M D)

/-- `theta * model` -/
def scaleSpec (θ : Cell α) (M : MSpec α) : MSpec α := { M with cells := M.cells.map (Cell.mul θ) }

/-- `Inference.ll_multinom_per_bin(model, data)` -/
def llMultinomPerBin (log lgam : α → α) (M D : MSpec α) : List (Cell α) :=
  llPerBin log lgam (scaleSpec (optimalScaling M D) M) D

/-- `Inference.ll_multinom(model, data)` -/
def llMultinom (log lgam : α → α) (M D : MSpec α) : Cell α := maSum (llMultinomPerBin log lgam M D)

/-- `Inference.optimally_scaled_sfs(model, data)` -/
def optimallyScaled (M D : MSpec α) : MSpec α := scaleSpec (optimalScaling M D) M

/-- `Inference.linear_Poisson_residual(model, data, mask)` -/
def linResid (sqrt : α → α) (mask : Option α) (M D : MSpec α) : List (Cell α) :=
  List.zipWith (Gen.Lik.linResidCell sqrt mask)
    (autofold Gen.Lik.autofold_linear_Poisson_residual M D).cells D.cells

/-- `Inference.Anscombe_Poisson_residual(model, data, mask)` -/
def anscombe (pw : Int → Nat → α → α) (mask : Option α) (M D : MSpec α) : List (Cell α) :=
  List.zipWith (Gen.Lik.anscombeCell pw mask)
    (autofold Gen.Lik.autofold_Anscombe_Poisson_residual M D).cells D.cells

/-! ### what the real code rejects -/

/-- same shape, as many entries as the shape says -/
def wellFormed (M D : MSpec α) : Bool :=
  M.shape == D.shape && M.cells.length == prodL M.shape && D.cells.length == prodL D.shape

/-- Spectrum arithmetic between a folded and an unfolded Spectrum raises `ValueError`
    (`_check_other_folding`); after auto-folding this is left exactly when the model is folded and the data is not -/
def foldingClash (flag : Bool) (M D : MSpec α) : Bool :=
  (autofold flag M D).folded != D.folded

/-! ### the bridge to the fold model of C09 (Model/Fold.lean: pointwise programs generated from `Spectrum.fold`) -/

/-- the C09 spectrum carrying the values and masks of `M` (labels play no role in the likelihoods) -/
def toC09 (M : MSpec Rat) : Fold.Spec :=
  ⟨M.shape, (M.cells.map Cell.val).toArray, (M.cells.map Cell.mask).toArray, M.folded, none⟩

/-- a C09 spectrum as a spectrum of the likelihood model (every entry finite) -/
def ofC09 (S : Fold.Spec) : MSpec Rat :=
  ⟨S.shape, (List.range S.N).map fun k => (⟨S.x k, S.m k, false⟩ : Cell Rat), S.folded⟩

/-- `model.fold()` computed by the C09 model of `Spectrum.fold` (`none` = it raises) -/
def foldViaC09 (M : MSpec Rat) : Option (MSpec Rat) :=
  match Fold.foldSpec (toC09 M) with
  | .ok F => some (ofC09 F)
  | _ => none

end DadiVerif.Lik
