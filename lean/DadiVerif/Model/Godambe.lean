import DadiVerif.Generated.Godambe
import DadiVerif.Generated.Fold
/-!
Executable model of `dadi/Godambe.py` (C19).  Core Lean only.

Everything that is a closed formula or a branch condition in the source is the *generated* definition of
`Generated/Godambe.lean` (stencils `hessDiagC/hessDiag1/hessOffC/hessOff1/gradC/grad1`, their branch conditions, the step rule
`hessStep/hessOneSided/gradStep/gradOneSided`, the matrix expressions `godambe/lrtAdjust/waldAdj/waldOrg/scoreOrg/scoreAdj`, the
multinomial augmentation `augParams/augModel`, the weight guard and the scalar/array flag of `sum_chi2_ppf`, and whether the cache
key holds the function object).  This file adds what the source does with loops, numpy arrays and dictionaries:

* a parameter vector is a function `Nat → α` (entry `i` of `p0`); `pwork` = `p0` with one or two entries overwritten (`upd`);
* `hessElem` = `hessian_elem` (dispatch on `ii == jj` and the generated conditions), `getHessEntry/getHess` = `get_hess` (upper
  triangle, mirrored), `getGradEntry/getGrad` = `get_grad`;
* `jEntry/cuEntry` = the accumulation `J = Σ outer(g,g)/N`, `cU = Σ g/N` over the bootstrap gradients;
* exact rational matrix algebra on `List (List Rat)` (product, transpose, trace, Gauss–Jordan inverse) as the `MatOps` the
  generated statistics are evaluated with;
* the module-level spectrum cache as a memo table (`Memo`), keyed by a key function of the *function object*;
* `chi2Mix` = `sum_chi2_ppf` with the chi-square cdf values as inputs;
* `llSum` = `Inference.ll(model, data)` (the function `get_godambe` differentiates): the sum of the generated per-entry expression
  `llBin` over the entries that the generated mask analysis leaves unmasked (`llCellMasked`), with `log(model)` and
  `gammaln(data + 1)` as inputs;
* round 5: `bootGrads` (the zip of bootstraps and theta adjustments the gradients are taken over), `runCacheAdj` (the cache with
  `theta_adjust`: is the stored spectrum rescaled in place? – generated effect flags `fsFreshProduct`, `fsSkipsUnitAdjust`), `mixVal` over the
  generated (degrees of freedom, weight) pairing `chi2Pairs`, `llModelSeen/llCellsND` (P-population and folded data: the model is folded
  with the pointwise programs generated from `Spectrum.fold` when the generated `llFoldsModel` says the prologue is there), `flatIdx`
  (corners of a P-population spectrum in the flat array).
-/
namespace DadiVerif
namespace Godambe
open Gen.Godambe

/-! ### finite-difference stencils on functions of a parameter vector -/
section Stencil
variable {α : Type} [Add α] [Sub α] [Mul α] [Div α] [Neg α] [NatCast α] [LT α] [DecidableLT α] [DecidableEq α]

/-- `pwork[i] = v` on a copy of `p` -/
def upd (p : Nat → α) (i : Nat) (v : α) : Nat → α := fun k => if k = i then v else p k

/-- `hessian_elem(func, f0, p0, ii, jj, eps, one_sided=os)` -/
def hessElem (F : (Nat → α) → α) (f0 : α) (p0 eps : Nat → α) (os : Nat → Bool) (ii jj : Nat) : α :=
  if ii = jj then
    if hessDiagCentralCond (p0 ii) (os ii) then hessDiagC (fun a => F (upd p0 ii a)) f0 (p0 ii) (eps ii)
    else hessDiag1 (fun a => F (upd p0 ii a)) f0 (p0 ii) (eps ii)
  else
    if hessOffCentralCond (p0 ii) (p0 jj) (os ii) (os jj) then
      hessOffC (fun a b => F (upd (upd p0 ii a) jj b)) f0 (p0 ii) (p0 jj) (eps ii) (eps jj)
    else hessOff1 (fun a b => F (upd (upd p0 ii a) jj b)) f0 (p0 ii) (p0 jj) (eps ii) (eps jj)

/-- entry (i, j) of `get_hess(func, p0, eps)`: the loop computes the upper triangle `ii ≤ jj` and mirrors it -/
def getHessEntry (F : (Nat → α) → α) (p0 : Nat → α) (e : α) (i j : Nat) : α :=
  hessElem F (F p0) p0 (fun k => hessStep (p0 k) e) (fun k => hessOneSided (p0 k) e) (min i j) (max i j)

def getHess (F : (Nat → α) → α) (p0 : Nat → α) (e : α) (n : Nat) : List (List α) :=
  (List.range n).map fun i => (List.range n).map fun j => getHessEntry F p0 e i j

/-- entry i of `get_grad(func, p0, eps)` -/
def getGradEntry (F : (Nat → α) → α) (p0 : Nat → α) (e : α) (i : Nat) : α :=
  if gradCentralCond (p0 i) (gradOneSided (p0 i) e) then gradC (fun a => F (upd p0 i a)) (p0 i) (gradStep (p0 i) e)
  else grad1 (fun a => F (upd p0 i a)) (p0 i) (gradStep (p0 i) e)

def getGrad (F : (Nat → α) → α) (p0 : Nat → α) (e : α) (n : Nat) : List α :=
  (List.range n).map fun i => getGradEntry F p0 e i

end Stencil

/-! ### test functions on the wire: polynomials in the parameters -/

/-- coefficient and exponent of each parameter -/
abbrev Mono := Rat × List Nat

def evalMono (m : Mono) (p : Nat → Rat) : Rat :=
  let rec go (es : List Nat) (i : Nat) (acc : Rat) : Rat :=
    match es with
    | [] => acc
    | e :: es => go es (i + 1) (acc * p i ^ e)
  go m.2 0 m.1

def evalPoly (ms : List Mono) (p : Nat → Rat) : Rat := (ms.map fun m => evalMono m p).sum

def vecOf (l : List Rat) : Nat → Rat := fun k => l.getD k 0

/-! ### bootstrap accumulation -/

/-- `J = Σ_b outer(g_b, g_b) / len(all_boot)`, entry (i, j)  (polymorphic: the driver runs it at `Rat`, the order-of-accuracy
    theorems instantiate it at ℝ) -/
def jEntry {α : Type} [Zero α] [Add α] [Mul α] [Div α] [NatCast α] (grads : List (List α)) (i j : Nat) : α :=
  (grads.map fun g => g.getD i 0 * g.getD j 0).sum / (grads.length : α)

/-- `cU = Σ_b g_b / len(all_boot)`, entry i -/
def cuEntry {α : Type} [Zero α] [Add α] [Mul α] [Div α] [NatCast α] (grads : List (List α)) (i : Nat) : α :=
  (grads.map fun g => g.getD i 0).sum / (grads.length : α)

/-- `for ii, (boot, theta_adjust) in enumerate(zip(all_boot, boot_theta_adjusts)): grad_temp = get_grad(func, p0, eps, args=[boot, theta_adjust])`:
    the gradient list that J and cU are accumulated from (`score boot theta_adjust` = that `get_grad` call; `zip` truncates to the shorter list) -/
def bootGrads {β θ γ : Type} (score : β → θ → γ) (boots : List β) (adjs : List θ) : List γ :=
  (boots.zip adjs).map fun p => score p.1 p.2

abbrev Mat := List (List Rat)

def tabulate (r c : Nat) (f : Nat → Nat → Rat) : Mat :=
  (List.range r).map fun i => (List.range c).map fun j => f i j

def assembleJ (n : Nat) (grads : List (List Rat)) : Mat := tabulate n n (jEntry grads)
/-- cU as an n×1 column -/
def assembleCU (n : Nat) (grads : List (List Rat)) : Mat := tabulate n 1 (fun i _ => cuEntry grads i)

/-! ### exact matrix algebra -/
def mget (m : Mat) (i j : Nat) : Rat := (m.getD i []).getD j 0
def nrows (m : Mat) : Nat := m.length
def ncols (m : Mat) : Nat := (m.getD 0 []).length
def mmul (a b : Mat) : Mat :=
  tabulate (nrows a) (ncols b) fun i j => ((List.range (ncols a)).map fun k => mget a i k * mget b k j).sum
def mtranspose (a : Mat) : Mat := tabulate (ncols a) (nrows a) fun i j => mget a j i
def mtrace (a : Mat) : Rat := ((List.range (nrows a)).map fun i => mget a i i).sum
def mneg (a : Mat) : Mat := a.map fun r => r.map fun v => -v
def mdiag (a : Mat) : List Rat := (List.range (nrows a)).map fun i => mget a i i
def isSquare (a : Mat) (n : Nat) : Bool := a.length == n && a.all (fun r => r.length == n)
def colVec (v : List Rat) : Mat := v.map fun x => [x]

/-- Gauss–Jordan on the rows of `[A | I]`; `none` = singular (numpy: LinAlgError) -/
def minv (a : Mat) : Option Mat :=
  let n := a.length
  if !(isSquare a n) then none else
  let aug : List (List Rat) := (List.range n).map fun i => (a.getD i []) ++ ((List.range n).map fun j => if i = j then (1 : Rat) else 0)
  let step (st : Option (List (List Rat))) (c : Nat) : Option (List (List Rat)) :=
    match st with
    | none => none
    | some rows =>
      -- pivot: first row r ≥ c with a non-zero entry in column c
      match (List.range n).find? (fun r => r ≥ c && (rows.getD r []).getD c 0 != 0) with
      | none => none
      | some r =>
        let rowR := rows.getD r []
        let rowC := rows.getD c []
        let swapped := (rows.set r rowC).set c rowR
        let piv := rowR.getD c 0
        let prow := rowR.map fun v => v / piv
        some ((List.range n).map fun i =>
          if i = c then prow
          else
            let ri := swapped.getD i []
            let f := ri.getD c 0
            (List.range (2 * n)).map fun j => ri.getD j 0 - f * prow.getD j 0)
  match (List.range n).foldl step (some aug) with
  | none => none
  | some rows => some (rows.map fun r => r.drop n)

/-- the operations the generated statistics are evaluated with (inverse of a singular matrix: the empty matrix; the driver
    refuses such inputs before evaluating) -/
def ratOps : MatOps Mat Rat where
  dot := mmul
  inv := fun m => (minv m).getD []
  transpose := mtranspose
  trace := mtrace
  entry00 := fun m => mget m 0 0

/-- everything `get_godambe` and the statistics compute from the Hessian `H = -get_hess(...)`, the bootstrap gradients and (for
    Wald) the parameter difference -/
structure Stats where
  J : Mat
  cU : Mat
  GIM : Mat
  varGIM : List Rat
  varFIM : List Rat
  lrt : Rat
  waldAdj : Rat
  waldOrg : Rat
  scoreOrg : Rat
  scoreAdj : Rat

def statsOf (n : Nat) (H : Mat) (grads : List (List Rat)) (diff : List Rat) : Stats :=
  let J := assembleJ n grads
  let cU := assembleCU n grads
  let G := godambe ratOps H J
  let d := colVec diff
  { J := J, cU := cU, GIM := G,
    varGIM := mdiag (ratOps.inv G), varFIM := mdiag (ratOps.inv H),
    lrt := lrtAdjust ratOps (n : Rat) J H,
    waldAdj := mget (waldAdj ratOps d G H) 0 0, waldOrg := mget (waldOrg ratOps d G H) 0 0,
    scoreOrg := scoreOrg ratOps cU H J, scoreAdj := scoreAdj ratOps cU H J }

/-! ### nested parameters (`diff_func`, `p_nested`) -/
/-- `full_params = array(p0); full_params[nested_indices] = diff_params` (later assignments win, as in numpy) -/
def scatter (p0 : List Rat) : List Nat → List Rat → List Rat
  | i :: is, v :: vs => scatter (p0.set i v) is vs
  | _, _ => p0
/-- `numpy.asarray(p0)[nested_indices]` -/
def gather (p0 : List Rat) (idx : List Nat) : List Rat := idx.map fun i => p0.getD i 0

/-! ### the module-level spectrum cache -/
section Cache
variable {κ ν ω π : Type} [DecidableEq κ]

abbrev Memo (κ ν : Type) := List (κ × ν)

def Memo.lookup (c : Memo κ ν) (k : κ) : Option ν := (c.find? (fun p => decide (p.1 = k))).map Prod.snd

/-- `if key not in cache: cache[key] = compute(); return cache[key]` -/
def Memo.call (c : Memo κ ν) (k : κ) (v : ν) : Memo κ ν × ν :=
  match c.lookup k with
  | some w => (c, w)
  | none => ((k, v) :: c, v)

/-- A history of `func(params, …)` evaluations inside `get_godambe`: each is made on behalf of a function object `o : ω` with
    parameter/ns/pts values `k : π`; the dictionary key is `(keyOf o, k)`; on a miss `sem o k` (= `func_ex(params, ns, pts)`) is
    stored.  Returns the final table and the spectra that were used. -/
def runCache [DecidableEq π] (keyOf : ω → κ) (sem : ω → π → ν) : Memo (κ × π) ν → List (ω × π) → Memo (κ × π) ν × List ν
  | c, [] => (c, [])
  | c, (o, k) :: ops =>
    let r := Memo.call c (keyOf o, k) (sem o k)
    let rest := runCache keyOf sem r.1 ops
    (rest.1, r.2 :: rest.2)

/-- overwrite the entry stored under `k` (`cache[key] *= …` on the stored object) -/
def Memo.set (c : Memo κ ν) (k : κ) (v : ν) : Memo κ ν := c.map fun p => if p.1 = k then (k, v) else p

/-- A history of `func(params, data, theta_adjust)` evaluations: memo lookup/insert as in `runCache`, then `fs` is formed from the cached
    spectrum and `theta_adjust` (`smul a v` = `a*v`).  `fresh` = `fs` is a new array (the stored object is left alone); otherwise the stored
    object itself is rescaled in place (skipped for `theta_adjust == 1` when `skipUnit`).  Returns the final table and every `fs` whose
    likelihood was taken. -/
def runCacheAdjWith [DecidableEq π] (fresh skipUnit : Bool) (smul : Rat → ν → ν) (keyOf : ω → κ) (sem : ω → π → ν) :
    Memo (κ × π) ν → List (ω × π × Rat) → Memo (κ × π) ν × List ν
  | c, [] => (c, [])
  | c, (o, k, a) :: ops =>
    let r := Memo.call c (keyOf o, k) (sem o k)
    let fs := if !fresh && skipUnit && a == 1 then r.2 else smul a r.2
    let c' := if fresh || (skipUnit && a == 1) then r.1 else Memo.set r.1 (keyOf o, k) fs
    let rest := runCacheAdjWith fresh skipUnit smul keyOf sem c' ops
    (rest.1, fs :: rest.2)

/-- … with the effect flags generated from the current source -/
def runCacheAdj [DecidableEq π] (smul : Rat → ν → ν) (keyOf : ω → κ) (sem : ω → π → ν) :
    Memo (κ × π) ν → List (ω × π × Rat) → Memo (κ × π) ν × List ν :=
  runCacheAdjWith fsFreshProduct fsSkipsUnitAdjust smul keyOf sem

/-- the key component the *source* uses for the function object: the object itself (`Sum.inl`, compared by identity, kept alive by
    the table) when `cacheKeyHoldsRef`, otherwise only the number `ident o` that the interpreter assigned to it -/
def implKey (ident : ω → Nat) (o : ω) : Sum ω Nat := if cacheKeyHoldsRef then Sum.inl o else Sum.inr (ident o)

end Cache

/-! ### `sum_chi2_ppf` -/
/-- `1 - (Σ w·cdf_dof(x) over the generated (dof, w) pairs + [x > 0]·w_0)` with `cs = [cdf_1(x), cdf_2(x), …]` (`cs[dof-1]` = the chi-square
    cdf with `dof` degrees of freedom at x) -/
def mixVal (w : List Rat) (x : Rat) (cs : List Rat) : Rat :=
  1 - (((chi2Pairs w).map fun p => p.2 * cs.getD (p.1 - 1) 0).sum + (if x > 0 then w.headD 0 else 0))

inductive Chi2Out where
  | scalar (v : Rat)
  | array (vs : List Rat)
deriving DecidableEq, Repr

/-- `sum_chi2_ppf(x, weights)`; `isScalar` = `numpy.isscalar(x)`, `xs` = `atleast_1d(x)`, `cdfs[i]` = the chi-square cdf values of
    `xs[i]` for 1, 2, … degrees of freedom -/
def chi2Mix (w : List Rat) (isScalar : Bool) (xs : List Rat) (cdfs : List (List Rat)) : Except String Chi2Out :=
  if chi2WeightsBad w.sum then .error "ValueError:weights"
  else if w.length < 2 then .error "TypeError:weights"        -- numpy.sum([]) is a float: `cdf[x > 0] += …` is not defined
  else
    let ppf := (List.range xs.length).map fun i => mixVal w (xs.getD i 0) (cdfs.getD i [])
    match (if isScalar then chi2FlagWhenScalar else chi2FlagWhenArray) with
    | none => .error "UnboundLocalError:scalar_input"
    | some true => match ppf with
        | v :: _ => .ok (.scalar v)
        | [] => .error "IndexError"
    | some false => .ok (.array ppf)

/-! ### `Inference.ll`: which entries of model and data enter the likelihood -/
/-- one entry of the spectra: masked in the model? masked in the data? model value, data value, `log(model)`, `gammaln(data+1)` -/
structure LLCell where
  mm : Bool
  dm : Bool
  m : Rat
  d : Rat
  logm : Rat
  lgam : Rat
deriving DecidableEq, Repr

/-- is the entry masked in the array that `ll` sums?  (numpy.ma arithmetic over the operands of the generated expression: the model's
    mask and the `<= 0` domain of the masked logarithm, the data's mask -- each only if some operand carries it) -/
def llCellMasked (c : LLCell) : Bool :=
  (llMaskModel && c.mm) || (llMaskModelLogDomain && decide (c.m ≤ 0)) || (llMaskData && c.dm)

/-- `ll(model, data) = ll_per_bin(model, data).sum()`: masked entries do not contribute -/
def llSum (cells : List LLCell) : Rat :=
  ((cells.filter fun c => !llCellMasked c).map fun c => llBin c.m c.d c.logm c.lgam).sum

/-- the mask of a bootstrap spectrum as its likelihood sees it, after `boot = Spectrum(boot …)` in `get_godambe` (one population: the
    corner entries are the first and the last) -/
def bootSeenMask (given : List Bool) : List Bool :=
  if bootMaskKept then given
  else (List.range given.length).map fun i => given.getD i false || i == 0 || i + 1 == given.length

/-! ### P-population spectra: flat (row-major) entries, corners, folding -/
/-- flat index of the multi-index `idx` in a C-ordered array of shape `shape` -/
def flatIdx (shape idx : List Nat) : Nat :=
  let rec go (acc : Nat) : List Nat → List Nat → Nat
    | n :: ns, i :: is => go (acc * n + i) ns is
    | _, _ => acc
  go 0 shape idx

/-- sum of the multi-index of flat entry `k` (`_total_per_entry`) -/
def totalOf (shape : List Nat) (k : Nat) : Nat :=
  let rec go : List Nat → Nat → Nat
    | [], _ => 0
    | n :: ns, k => k % n + go ns (k / n)
  go shape.reverse k

/-- `numpy.sum(self.sample_sizes)` -/
def totalSamples (shape : List Nat) : Nat := (shape.map (· - 1)).sum

/-- `model.fold()` on the flat array, entry `k`: the pointwise programs generated from `Spectrum.fold` (tools/gen_Fold.py; reversing every
    axis of a C-ordered array = reversing the flat array); the constructor masks the two corners -/
def foldVal (shape : List Nat) (x : List Rat) (mm : List Bool) (k : Nat) : Rat :=
  Gen.Fold.fold_outData (fun i => x.length - 1 - i) (totalOf shape) (totalSamples shape) (fun i => x.getD i 0) (fun i => mm.getD i false) k
def foldMask (shape : List Nat) (x : List Rat) (mm : List Bool) (k : Nat) : Bool :=
  Gen.Fold.fold_outMask (fun i => x.length - 1 - i) (totalOf shape) (totalSamples shape) (fun i => x.getD i 0) (fun i => mm.getD i false) k
    || (Gen.Fold.fold_maskCorners && Gen.Fold.cornerFlat x.length k)

/-- the model spectrum (value, mask per flat entry) as `ll_per_bin` uses it: folded when the data is folded and the model is not
    (generated `llFoldsModel`: the prologue is present) -/
def llModelSeen (shape : List Nat) (dataFolded modelFolded : Bool) (m : List Rat) (mm : List Bool) : List (Rat × Bool) :=
  if llFoldsModel && dataFolded && !modelFolded then (List.range m.length).map fun k => (foldVal shape m mm k, foldMask shape m mm k)
  else (List.range m.length).map fun k => (m.getD k 0, mm.getD k false)

/-- the entries `ll` sums for a P-population, possibly folded data spectrum; `logm` = log of the model values *as seen* -/
def llCellsND (shape : List Nat) (dataFolded modelFolded : Bool) (m : List Rat) (mm dm : List Bool) (d logm lgam : List Rat) : List LLCell :=
  (List.range m.length).map fun k =>
    let sv := (llModelSeen shape dataFolded modelFolded m mm).getD k (0, true)
    { mm := sv.2, dm := dm.getD k false, m := sv.1, d := d.getD k 0, logm := logm.getD k 0, lgam := lgam.getD k 0 }

/-- `ll_per_bin(model, data).count()` -/
def llCount (cells : List LLCell) : Nat := (cells.filter fun c => !llCellMasked c).length

end Godambe
end DadiVerif
