import DadiVerif.Model.Prelude
/-
C17 — primitives that the GENERATED file `Generated/DFE.lean` is written in terms of
(regions of the selection plane, Python list slicing used by the DFE glue code).  Core Lean only.
-/
namespace DadiVerif.DFE

/-- Where a selection coefficient lies relative to the cached grid of negative gammas
    `neg_gammas[0] < … < neg_gammas[-1] < 0`:
    `D` = more deleterious than the grid (|γ| from `-neg_gammas[0]` to ∞, "effectively lethal"),
    `I` = on the grid, `N` = closer to neutral than the grid (|γ| from 0 to `-neg_gammas[-1]`). -/
inductive Reg where
  | D | I | N
deriving DecidableEq, Repr

/-- `numpy.sum` of a short parameter list (exact) -/
def ratSum : List Rat → Rat
  | [] => 0
  | a :: t => a + ratSum t

/-- Python `l[:-k]` for a literal `k > 0` (empty when `len l ≤ k`) -/
def pyTakeNeg {α : Type} (l : List α) (k : Nat) : List α := l.take (l.length - k)

/-- Python `l[-k:]` for a literal `k > 0` (the whole list when `len l ≤ k`) -/
def pyDropNeg {α : Type} (l : List α) (k : Nat) : List α := l.drop (l.length - k)

/-- Python `l[-k]` for a literal `k > 0`: IndexError when `len l < k` -/
def pyIdxNeg {α : Type} (l : List α) (k : Nat) : Except String α :=
  if k = 0 ∨ l.length < k then .error "IndexError"
  else match l[l.length - k]? with
    | some a => .ok a
    | none => .error "IndexError"

/-- Python `l[a::2]` for `a ≥ 0` -/
def everyOther {α : Type} : List α → List α
  | [] => []
  | [a] => [a]
  | a :: _ :: t => a :: everyOther t

/-- how a Python call site binds an optional numeric argument of the callee:
    `given v` (an expression was passed), `isNone` (the literal `None` was passed), `dflt` (not passed) -/
inductive ArgBind where
  | given (v : Rat) | isNone | dflt
deriving DecidableEq, Repr

end DadiVerif.DFE
