import DadiVerif.Model.ModelDSL
/-!
# C15 — relabelling the populations of a model by an arbitrary permutation (core Lean only)

A permutation of `d` population labels is the list `π` of length `d`: the *new* population `i` is the *old* population
`π[i]` (0-based; `[1,0]` exchanges the two populations, `[0,2,1]` populations 2 and 3, `[1,2,0]` is a 3-cycle).  The density
changes dimension along a run (1 → 2 → 3 populations), so a relabelling of the final populations is a *sequence* of
permutations, one per stage; the laws that connect the stages are the `PermRule`s:

* `stepRule fn fn' ren π π'`: the primitive `fn'`, applied to a density relabelled by `π` with its per-population keywords
  renamed by `ren`, gives the `π'`-relabelled result of `fn` (integrators: `π' = π`, `nu<i+1> ← nu<π[i]+1>`,
  `m<i+1><j+1> ← m<π[i]+1><π[j]+1>`, …; the admixture `1 into 2` becomes `2 into 1` under `[1,0]`; a split `2 → 2,3` is
  unchanged by `[0,2,1]`; the density `phi_1D_to_2D` produces is symmetric);
* `PairRule fn1 fn2 π π'`: the composite `fn2 ∘ fn1` with *unchanged* arguments (the simultaneous split
  `phi_2D_to_3D_split_2 ∘ phi_1D_to_2D` of one population into three produces a density symmetric under every permutation);
* `finRules`: sampling commutes with the relabelling when the sample sizes are relabelled as well.

`permTr rules pairs fin π t t'` *checks* that the trace `t'` is the `π`-relabelling of the trace `t` (search over the applicable
rules; the traces are short).  `permOK`: model `name` at the permuted parameter vector `args` is the `π`-relabelled model.
-/
namespace DadiVerif.ModelDSL

structure PermRule where
  fn : Name
  fn' : Name
  ren : List (Name × Name)
  /-- relabelling of the input density (`[]` for the primitive that creates the density) -/
  pin : List Nat
  /-- relabelling of the result (sampling primitive: unused) -/
  pout : List Nat
  deriving Repr, DecidableEq

structure PairRule where
  fn1 : Name
  fn2 : Name
  pin : List Nat
  pout : List Nat
  deriving Repr, DecidableEq

/-- the relabelled call: primitive `r.fn'`, the renamed arguments re-read in signature order -/
def permCall (r : PermRule) (c : Call) : Option Call :=
  if r.fn == c.fn then (reorder r.ren (c.args.map (·.1)) c.args).map (fun as => ⟨r.fn', as⟩) else none

/-- `cs'` is the relabelling of the steps `cs`, from the stage relabelling `π` to the final relabelling `πf` -/
def permSteps (rules : List PermRule) (pairs : List PairRule) (πf : List Nat) : List Nat → List Call → List Call → Bool
  | π, [], [] => π == πf
  | π, c :: rest, c' :: rest' =>
      rules.any (fun r => r.pin == π && permCall r c == some c' && permSteps rules pairs πf r.pout rest rest')
      || (match rest, rest' with
          | c2 :: rest2, c2' :: rest2' =>
              c' == c && c2' == c2 &&
              pairs.any (fun p => p.fn1 == c.fn && p.fn2 == c2.fn && p.pin == π && permSteps rules pairs πf p.pout rest2 rest2')
          | _, _ => false)
  | _, _, _ => false

def permRun (rules : List PermRule) (pairs : List PairRule) (fin : List PermRule) (π : List Nat) (x x' : Run) : Bool :=
  rules.any (fun r => r.pin == [] && permCall r x.start == some x'.start && permSteps rules pairs π r.pout x.steps x'.steps)
  && fin.any (fun r => r.pin == π && permCall r x.fin == some x'.fin)

/-- `t'` is the `π`-relabelling of `t`, branch by branch (the comparisons are between quantities the relabelling fixes) -/
def permTr (rules : List PermRule) (pairs : List PairRule) (fin : List PermRule) (π : List Nat) : Tr → Tr → Bool
  | .leaf x, .leaf x' => permRun rules pairs fin π x x'
  | .ite c a b, .ite c' a' b' => c' == c && permTr rules pairs fin π a a' && permTr rules pairs fin π b b'
  | _, _ => false

/-! ### a canonical order of nested comparisons

Two conditional expressions in a row (`nu2 = … if nuEu0 == nuEu else …; nu3 = … if nuAs0 == nuAs else …`) give a tree that tests
the first comparison at the root; the model at the permuted parameter vector tests the *other* one at the root.  `sortTr` moves
the comparison with the smaller key to the root wherever both children test the same comparison — the meaning is unchanged in
every interpretation (`runTr_sortTr`), and the two trees become comparable branch by branch. -/

/-- order on comparisons between two bare parameters (by the codes of the names); anything else is not moved -/
def condLt (c c' : Cond) : Bool :=
  match c.lhs, c.rhs, c'.lhs, c'.rhs with
  | .param l, .param r, .param l', .param r' => decide (l < l') || (l == l' && decide (r < r'))
  | _, _, _, _ => false

/-- `if c: a else: b` for two trees that are already in order -/
def mkIte (c : Cond) : Tr → Tr → Tr
  | .ite c1 x1 y1, .ite c2 x2 y2 =>
      if c1 = c2 ∧ condLt c1 c = true then .ite c1 (mkIte c x1 x2) (mkIte c y1 y2) else .ite c (.ite c1 x1 y1) (.ite c2 x2 y2)
  | a, b => .ite c a b

def sortTr : Tr → Tr
  | .leaf r => .leaf r
  | .ite c a b => mkIte c (sortTr a) (sortTr b)

/-- model `name` at the permuted parameter vector `args` is the `π`-relabelled model -/
def permOK (tbl : List Model) (sigs : List Sig) (rules : List PermRule) (pairs : List PairRule) (fin : List PermRule)
    (name : Name) (π : List Nat) (args : List Expr) : Bool :=
  match findModel tbl name with
  | none => false
  | some m =>
      match normalForm tbl sigs name args, normalForm tbl sigs name (m.paramNames.map .param) with
      | some ta, some tb => permTr rules pairs fin π (sortTr tb) (sortTr ta)
      | _, _ => false

/-! ## the rule table -/

/-- `nu` + `[2]` = `nu2`, `m` + `[1,3]` = `m13` -/
def mkIdx (base : Name) (ds : List Nat) : Name := ds.foldl (fun acc d => acc * 256 + 48 + d) base

def permAt (π : List Nat) (i : Nat) : Nat := π.getD i i

/-- keyword renaming of a `d`-population integrator under `π`: the new keyword of population `i+1` receives the old
    argument of population `π[i]+1` -/
def integratorRen (π : List Nat) (perPop : List Name) : List (Name × Name) :=
  let d := π.length
  let idx := List.range d
  (perPop.flatMap fun b => idx.map fun i => (mkIdx b [i + 1], mkIdx b [permAt π i + 1]))
  ++ (idx.flatMap fun i => (idx.filter (· != i)).map fun j =>
        (mkIdx (nm! "m") [i + 1, j + 1], mkIdx (nm! "m") [permAt π i + 1, permAt π j + 1]))

def perPopKws2 : List Name := [nm! "nu", nm! "gamma", nm! "h", nm! "frozen", nm! "nomut"]
def perPopKws3 : List Name := [nm! "nu", nm! "gamma", nm! "h", nm! "frozen"]

def id1 : List Nat := [0]
def S2 : List (List Nat) := [[0, 1], [1, 0]]
def S3 : List (List Nat) := [[0, 1, 2], [0, 2, 1], [1, 0, 2], [1, 2, 0], [2, 0, 1], [2, 1, 0]]

/-- the laws (hand table).  Each is a fact about the real primitives that properties C03/C04/C06 state:
    * the integrators commute with a permutation of the axes when their per-population arguments are permuted with them
      (the scheme treats the axes alike: C02_wiring; up to the order of the sweeps, i.e. the operator-splitting error);
    * `phi_1D_to_2D` puts the density on the diagonal, `phi_2D_to_3D_split_2` copies axis 2 onto axis 3
      (C04 `split` facts: the result is symmetric in the two daughter axes);
    * admixture `1 into 2` is admixture `2 into 1` of the transposed density (C06_reorder). -/
def permRules : List PermRule :=
  [⟨nm! "PhiManip.phi_1D", nm! "PhiManip.phi_1D", [], [], id1⟩,
   ⟨nm! "Integration.one_pop", nm! "Integration.one_pop", [], id1, id1⟩]
  ++ S2.map (fun π => ⟨nm! "PhiManip.phi_1D_to_2D", nm! "PhiManip.phi_1D_to_2D", [], id1, π⟩)
  ++ S2.map (fun π => ⟨nm! "Integration.two_pops", nm! "Integration.two_pops", integratorRen π perPopKws2, π, π⟩)
  ++ [⟨nm! "PhiManip.phi_2D_admix_1_into_2", nm! "PhiManip.phi_2D_admix_1_into_2", [], [0, 1], [0, 1]⟩,
      ⟨nm! "PhiManip.phi_2D_admix_2_into_1", nm! "PhiManip.phi_2D_admix_2_into_1", [], [0, 1], [0, 1]⟩,
      ⟨nm! "PhiManip.phi_2D_admix_1_into_2", nm! "PhiManip.phi_2D_admix_2_into_1",
         [(nm! "xx", nm! "yy"), (nm! "yy", nm! "xx")], [1, 0], [1, 0]⟩,
      ⟨nm! "PhiManip.phi_2D_admix_2_into_1", nm! "PhiManip.phi_2D_admix_1_into_2",
         [(nm! "xx", nm! "yy"), (nm! "yy", nm! "xx")], [1, 0], [1, 0]⟩,
      ⟨nm! "PhiManip.phi_2D_to_3D_split_2", nm! "PhiManip.phi_2D_to_3D_split_2", [], [0, 1], [0, 1, 2]⟩,
      ⟨nm! "PhiManip.phi_2D_to_3D_split_2", nm! "PhiManip.phi_2D_to_3D_split_2", [], [0, 1], [0, 2, 1]⟩,
      ⟨nm! "PhiManip.phi_2D_to_3D_admix", nm! "PhiManip.phi_2D_to_3D_admix", [], [0, 1], [0, 1, 2]⟩]
  ++ S3.map (fun π => ⟨nm! "Integration.three_pops", nm! "Integration.three_pops", integratorRen π perPopKws3, π, π⟩)

/-- one population split into three at once: symmetric under every permutation -/
def permPairs : List PairRule :=
  S3.map (fun π => ⟨nm! "PhiManip.phi_1D_to_2D", nm! "PhiManip.phi_2D_to_3D_split_2", id1, π⟩)

/-- sampling: `from_phi(π·φ, π·ns) = π·from_phi(φ, ns)` -/
def permFin : List PermRule :=
  ([id1] ++ S2 ++ S3).map (fun π => ⟨nm! "Spectrum.from_phi", nm! "Spectrum.from_phi", [], π, π⟩)
  ++ [⟨nm! "Spectrum.from_phi_inbreeding", nm! "Spectrum.from_phi_inbreeding", [], id1, id1⟩]

end DadiVerif.ModelDSL
