import DadiVerif.Model.ND
import DadiVerif.Generated.ProjLP
/-
Executable model of the per-population loop of `lowpass_func` (dadi/LowPass/LowPass.py, inside
`make_low_pass_func_GATK_multisample`): the place outside `Spectrum.project` where projection matrices are applied along the
axes of a d-dimensional spectrum.  The loop body is the statement list `Gen.ProjLP.loopBody d k` regenerated from the source on
every run (`swapaxes` / `moveaxis` / `dot`), the visiting order is `Gen.ProjLP.loopVisits d`.

Arrays are functions of an index assignment `position → index` (`Idx`); numpy's axis permutations act by precomposition
(`swapPos`, `movePos`), `A.dot(M)` contracts the LAST position.  The shape is tracked as a function `position → length`; a `dot`
whose matrix does not have as many rows as the last axis is long is refused (`none`: numpy raises ValueError).
Core Lean only (executed by the driver); the theorem is `C08_lowpass_axes` (Props/C08.lean, lemmas in Lemmas/ProjLowPass.lean).
-/
namespace DadiVerif
namespace LPAx
open Gen.ProjLP

/-- an index assignment: position (axis number) ↦ index along that axis -/
abbrev Idx := Nat → Nat

/-- a matrix as `dot` sees it -/
structure Mat where
  rows : Nat
  cols : Nat
  get  : Nat → Nat → Rat

/-- the array `analytic`: its shape (position ↦ length) and its entries -/
structure St where
  shape : Nat → Nat
  val   : Idx → Rat

/-- `idx` with position `p` set to `v` -/
def upd (f : Nat → Nat) (p v : Nat) : Nat → Nat := fun q => if q = p then v else f q

/-- `swapaxes(a, b)`: position p of the result is position `swapPos a b p` of the source -/
def swapPos (a b p : Nat) : Nat := if p = a then b else if p = b then a else p

/-- `moveaxis(src = a, dst = b)`: source position p ends up at position `movePos a b p` of the result
    (a goes to b, the other axes keep their order) -/
def movePos (a b p : Nat) : Nat :=
  if p = a then b else
    let r := if p < a then p else p - 1
    if r < b then r else r + 1

/-- inverse of `movePos a b`: result position q holds source position `moveSrc a b q` -/
def moveSrc (a b q : Nat) : Nat :=
  if q = b then a else
    let r := if q < b then q else q - 1
    if r < a then r else r + 1

def sumTo : Nat → (Nat → Rat) → Rat
  | 0, _ => 0
  | n+1, f => sumTo n f + f n

/-- apply the matrix `M` (n rows) along position `k`: entry idx of the result is Σ_{i<n} A[idx with k ↦ i] · M[i, idx k] -/
def along (k n : Nat) (M : Nat → Nat → Rat) (A : Idx → Rat) : Idx → Rat :=
  fun idx => sumTo n fun i => A (upd idx k i) * M i (idx k)

/-- `A.swapaxes(a, b)` on the entries: result[idx] = A[idx ∘ swapPos] -/
def swapA (a b : Nat) (A : Idx → Rat) : Idx → Rat := fun idx => A (fun p => idx (swapPos a b p))

/-- `numpy.moveaxis(A, a, b)` on the entries: result[idx] = A[p ↦ idx (movePos a b p)] -/
def moveA (a b : Nat) (A : Idx → Rat) : Idx → Rat := fun idx => A (fun p => idx (movePos a b p))

/-- one statement of the loop body on an array of `d` axes; `mats j` is the j-th matrix of the loop tuple -/
def step (d : Nat) (mats : Nat → Mat) (s : St) : AxStmt → Option St
  | .swap a b =>
      if a < d ∧ b < d then some ⟨fun p => s.shape (swapPos a b p), swapA a b s.val⟩ else none
  | .move a b =>
      if a < d ∧ b < d then some ⟨fun q => s.shape (moveSrc a b q), moveA a b s.val⟩ else none
  | .dot j =>
      let M := mats j
      if 0 < d ∧ s.shape (d - 1) = M.rows then some ⟨upd s.shape (d - 1) M.cols, along (d - 1) M.rows M.get s.val⟩ else none

def foldOpt {σ α : Type} (f : σ → α → Option σ) : σ → List α → Option σ
  | s, [] => some s
  | s, a :: as => match f s a with
    | some s' => foldOpt f s' as
    | none => none

/-- the body of the loop for population `k` (the generated statement list, in order) -/
def runBody (d k : Nat) (mats : Nat → Mat) (s : St) : Option St := foldOpt (step d mats) s (loopBody d k)

/-- the whole loop: `mats k j` = element k of the j-th list of the loop header (`loopMatLists`) -/
def runLoop (d : Nat) (mats : Nat → Nat → Mat) (s : St) : Option St :=
  foldOpt (fun s k => runBody d k (mats k) s) s (loopVisits d)

/-! ### the driver's entry point: the same `runBody` per population, the array tabulated in between (an evaluation
    strategy: entries are looked up instead of recomputed) -/

def idxList (d : Nat) (idx : Idx) : List Nat := (List.range d).map idx

def ofND (T : ND) : St := ⟨fun p => T.shape.getD p 1, fun idx => T.get (idxList T.shape.length idx)⟩

def toND (d : Nat) (s : St) : ND := ND.ofFn ((List.range d).map s.shape) fun l => s.val fun p => l.getD p 0

def tabulate (d : Nat) (s : St) : St := ⟨s.shape, (ofND (toND d s)).val⟩

def matOfND (T : ND) : Option Mat :=
  match T.shape with
  | [r, c] => some ⟨r, c, fun i j => T.get [i, j]⟩
  | _ => none

/-- the loop with tabulation after every population -/
def runLoopTab (d : Nat) (mats : Nat → Nat → Mat) (s : St) : Option St :=
  foldOpt (fun s k => (runBody d k (mats k) s).map (tabulate d)) s (loopVisits d)

end LPAx
end DadiVerif
