import DadiVerif.Model.ND
/-
C06 — primitives that the GENERATED file `Generated/Admix.lean` is written in terms of
(numpy operations used by `PhiManip._admixture_intermediates`).  Core Lean only.
-/
namespace DadiVerif.Admix

/-- length of the longest prefix of entries `< v`: the first index `i` with `zz[i] ≥ v`.
    For a sorted `zz` this is `numpy.searchsorted(zz, v)` (side = 'left'). -/
def ssList : List Rat → Rat → Nat
  | [], _ => 0
  | z :: zs, v => if z < v then ssList zs v + 1 else 0

def searchsortedLeft (zz : Array Rat) (v : Rat) : Nat := ssList zz.toList v

/-- length of the longest prefix of entries `≤ v`: `numpy.searchsorted(zz, v, side='right')` for a sorted `zz` -/
def ssListRight : List Rat → Rat → Nat
  | [], _ => 0
  | z :: zs, v => if z ≤ v then ssListRight zs v + 1 else 0

def searchsortedRight (zz : Array Rat) (v : Rat) : Nat := ssListRight zz.toList v

/-- numpy 1-D indexing `zz[i]` with a possibly negative integer (wraps once, as `zz[-1]`);
    out of range reads 0 (the real code would raise; never reached by the model, see Lemmas/Admix). -/
def pyAt (zz : Array Rat) (i : Int) : Rat :=
  if i < 0 then zz.getD (i + (zz.size : Int)).toNat 0 else zz.getD i.toNat 0

end DadiVerif.Admix
