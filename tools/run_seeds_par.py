#!/usr/bin/env python3
"""run_seeds_par.py [-j N] [--tier quick] [seed ids...]

Parallel form of run_seeds.py.  Every worker gets a private copy of /verif (with its .lake build output) under
/tmp/vseed_<pid>_<k>, so the Generated/*.lean files one trial rewrites are never seen by another, and a scratch git worktree
of /repo per seed (DADI_REPO).  Results are merged into /verif/seeded/RESULTS.json (committed).  Nothing under /verif
except RESULTS.json is written: evidence files of the trials stay in the private copies and are deleted with them."""
import os, sys, json, subprocess, shutil, time, fcntl
from concurrent.futures import ThreadPoolExecutor
import threading

V = os.path.dirname(os.path.dirname(os.path.abspath(__file__)))
lock = threading.Lock()

def sh(cmd, cwd=None, env=None, timeout=7200):
    try:
        p = subprocess.run(cmd, shell=True, cwd=cwd, env=env, stdout=subprocess.PIPE, stderr=subprocess.STDOUT, timeout=timeout)
        return p.returncode, p.stdout.decode(errors='replace')
    except subprocess.TimeoutExpired as e:
        return 124, (e.stdout or b'').decode(errors='replace') + '\nTIMEOUT'

def main():
    args = sys.argv[1:]
    tier = 'quick'; J = 8
    if '--tier' in args:
        i = args.index('--tier'); tier = args[i + 1]; del args[i:i + 2]
    if '-j' in args:
        i = args.index('-j'); J = int(args[i + 1]); del args[i:i + 2]
    sdir = os.path.join(V, 'seeded')
    allids = sorted(d for d in os.listdir(sdir) if os.path.isdir(os.path.join(sdir, d)))
    ids = [a for a in args if not a.startswith('--')] or allids
    rpath = os.path.join(sdir, 'RESULTS.json')
    results = json.load(open(rpath)) if os.path.exists(rpath) else {}
    def save(upd):
        # several runners (one per strengthening task) may write concurrently: merge under a file lock
        with open(rpath + '.lock', 'w') as lk:
            fcntl.flock(lk, fcntl.LOCK_EX)
            cur = json.load(open(rpath)) if os.path.exists(rpath) else {}
            cur.update(upd)
            json.dump(cur, open(rpath, 'w'), indent=1, sort_keys=True)
    copies = []
    for k in range(min(J, len(ids))):
        c = '/tmp/vseed_%d_%d' % (os.getpid(), k)
        sh('rm -rf %s && mkdir -p %s && rsync -a --exclude .git --exclude replays %s/ %s/' % (c, c, V, c))
        copies.append(c)
    free = list(copies)

    def one(sid):
        with lock:
            c = free.pop()
        try:
            meta = json.load(open(os.path.join(sdir, sid, 'meta.json')))
            prop = meta.get('breaks') or meta.get('property')
            patch = os.path.join(sdir, sid, 'patch.diff')
            t0 = time.time()
            wt = '/tmp/runseed_%s_%d' % (sid, os.getpid())
            with lock:
                rc, out = sh('sh %s/tools/seedtools/mkworktree.sh %s' % (V, wt))
            rc, o2 = sh('git apply %s' % patch, cwd=wt)
            if rc:
                print(sid, 'patch does not apply:', o2[:300], flush=True)
                with lock:
                    sh('git -C /repo worktree remove --force %s' % wt)
                    save({sid: dict(property=prop, detected=None, note='patch does not apply to the current tree: ' + o2[:200])})
                return
            env = dict(os.environ); env['DADI_REPO'] = wt; env['VERIF_PRIVATE'] = '1'   # already in a private copy
            try:
                rc, out = sh('./check %s --tier %s' % (prop, tier), cwd=c, env=env, timeout=5400)
            finally:
                with lock:
                    sh('git -C /repo worktree remove --force %s' % wt); shutil.rmtree(wt, ignore_errors=True)
            viol = [l for l in out.splitlines() if l.startswith('VIOLATION')]
            ev = {}
            try:
                ev = json.load(open(os.path.join(c, 'evidence', prop + '.json')))['coverage']
            except Exception:
                pass
            layers = []
            broken = ev.get('broken', [])
            if any(b.startswith('theorem:') or b.startswith('translate:') for b in broken): layers.append('proof/translation')
            if ev.get('correspondence', {}).get('disagreements', 0): layers.append('correspondence')
            if ev.get('search', {}).get('failures', 0): layers.append('failing-input')
            r = dict(property=prop, detected=bool(viol), exit=rc, layers=layers,
                     no_failing_input=bool(viol and 'no-failing-input-found' in viol[0]),
                     broken=[b[:120] for b in broken][:6], tier=tier, mode='worktree',
                     wall_s=round(time.time() - t0, 1), summary=meta.get('summary', '')[:300], needs=meta.get('needs', '')[:300])
            if rc not in (0, 1):
                r['tail'] = out[-600:]
            with lock:
                results[sid] = r
                save({sid: r})
            print(sid, prop, 'DETECTED' if viol else ('MISSED' if rc == 0 else 'INFRA rc=%d' % rc), layers, '%.0fs' % (time.time() - t0), flush=True)
        finally:
            with lock:
                free.append(c)

    with ThreadPoolExecutor(max_workers=len(copies)) as ex:
        list(ex.map(one, ids))
    for c in copies:
        shutil.rmtree(c, ignore_errors=True)
    return 0

if __name__ == '__main__':
    sys.exit(main())
