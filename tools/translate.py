#!/venv/bin/python
"""T tie: regenerate lean/DadiVerif/Generated/*.lean from /repo's current source.

Only a *closed expression language* is translated (see DESIGN.md App. A): + - * / , integer
powers, exact decimal literals (read from source text, never through float), names,
constant subscripts, abs/min/max, comparisons, and/or/not, conditional expressions.
Anything else raises TranslateError: the caller treats that as "obligation cannot be stated"
(-> failing-input search), never as a guess.

Each generator returns Lean source text; `write_all()` writes a file only if its content
changed (so an unchanged tree is a no-op `lake build`).
"""
import ast, os, re, sys, json, hashlib
from fractions import Fraction

REPO = os.environ.get('DADI_REPO', '/repo')
GEN_DIR = os.path.join(os.path.dirname(os.path.abspath(__file__)), '..', 'lean', 'DadiVerif', 'Generated')

class TranslateError(Exception):
    pass

# ----------------------------------------------------------------------------------------
# expression translation
# ----------------------------------------------------------------------------------------
def lit(text):
    """exact rational for a numeric literal given as source text"""
    t = text.strip().rstrip('fFlL')
    try:
        fr = Fraction(t)
    except Exception:
        try:
            fr = Fraction(t + '0') if t.endswith('.') else None
        except Exception:
            fr = None
        if fr is None:
            raise TranslateError('literal %r' % text)
    if fr.denominator == 1:
        return '(%d : Rat)' % fr.numerator
    return '((%d : Rat) / %d)' % (fr.numerator, fr.denominator)

class Ctx:
    """names: python name -> lean term; funcs: python callee -> lean function name;
    subscript: callable(base_lean, index_node, ctx) -> lean"""
    def __init__(self, names=None, funcs=None, src=None, opaque=None, subscript=None, attr=None):
        self.names = dict(names or {})
        self.funcs = dict(funcs or {})
        self.src = src
        self.opaque = set(opaque or ())
        self.subscript = subscript
        self.attr = attr

def _src(node, ctx):
    if ctx.src is None:
        return None
    return ast.get_source_segment(ctx.src, node)

def callee_name(f):
    if isinstance(f, ast.Name):
        return f.id
    if isinstance(f, ast.Attribute):
        base = callee_name(f.value)
        return (base + '.' if base else '') + f.attr
    return None

def tr(node, ctx):
    if isinstance(node, ast.Expression):
        return tr(node.body, ctx)
    if isinstance(node, ast.BinOp):
        l, r = node.left, node.right
        if isinstance(node.op, ast.Pow):
            if isinstance(r, ast.Constant) and isinstance(r.value, (int, float)) and float(r.value).is_integer() and r.value >= 0:
                return '(%s ^ %d)' % (tr(l, ctx), int(r.value))
            raise TranslateError('non-literal power')
        ops = {ast.Add: '+', ast.Sub: '-', ast.Mult: '*', ast.Div: '/'}
        for k, v in ops.items():
            if isinstance(node.op, k):
                return '(%s %s %s)' % (tr(l, ctx), v, tr(r, ctx))
        raise TranslateError('operator %s' % type(node.op).__name__)
    if isinstance(node, ast.UnaryOp):
        if isinstance(node.op, ast.USub):
            return '(- %s)' % tr(node.operand, ctx)
        if isinstance(node.op, ast.UAdd):
            return tr(node.operand, ctx)
        if isinstance(node.op, ast.Not):
            return '(! %s)' % trb(node.operand, ctx)
        raise TranslateError('unary')
    if isinstance(node, ast.Constant):
        if isinstance(node.value, bool):
            return 'true' if node.value else 'false'
        if isinstance(node.value, (int, float)):
            s = _src(node, ctx)
            if s is None:
                s = repr(node.value)
            return lit(s)
        raise TranslateError('constant %r' % (node.value,))
    if isinstance(node, ast.Name):
        if node.id in ctx.names:
            return ctx.names[node.id]
        raise TranslateError('free name %s' % node.id)
    if isinstance(node, ast.Attribute):
        nm = callee_name(node)
        if nm in ctx.names:
            return ctx.names[nm]
        raise TranslateError('attribute %s' % nm)
    if isinstance(node, ast.Call):
        nm = callee_name(node.func)
        if node.keywords:
            raise TranslateError('keyword call %s' % nm)
        args = [tr(a, ctx) for a in node.args]
        if nm in ('abs', 'numpy.abs', 'np.abs', 'fabs'):
            return '(ratAbs %s)' % args[0]
        if nm in ('min', 'max') and len(args) >= 2:
            out = args[0]
            for a in args[1:]:
                out = '(%s %s %s)' % ('ratMin' if nm == 'min' else 'ratMax', out, a)
            return out
        if nm == 'pow' and len(node.args) == 2 and isinstance(node.args[1], ast.Constant):
            return '(%s ^ %d)' % (args[0], int(node.args[1].value))
        if nm in ctx.funcs:
            return '(%s %s)' % (ctx.funcs[nm], ' '.join(args))
        if nm in ctx.opaque:
            return '(%s %s)' % (nm.split('.')[-1], ' '.join(args))
        raise TranslateError('call %s' % nm)
    if isinstance(node, ast.Subscript):
        if ctx.subscript is not None:
            return ctx.subscript(node, ctx)
        raise TranslateError('subscript')
    if isinstance(node, ast.IfExp):
        return '(if %s then %s else %s)' % (trb(node.test, ctx), tr(node.body, ctx), tr(node.orelse, ctx))
    raise TranslateError('node %s' % type(node).__name__)

def trb(node, ctx):
    """boolean expression -> Lean Bool"""
    if isinstance(node, ast.BoolOp):
        op = ' && ' if isinstance(node.op, ast.And) else ' || '
        return '(' + op.join(trb(v, ctx) for v in node.values) + ')'
    if isinstance(node, ast.UnaryOp) and isinstance(node.op, ast.Not):
        return '(! %s)' % trb(node.operand, ctx)
    if isinstance(node, ast.Compare):
        parts = []
        left = node.left
        for op, right in zip(node.ops, node.comparators):
            m = {ast.Lt: '<', ast.LtE: '≤', ast.Gt: '>', ast.GtE: '≥', ast.Eq: '==', ast.NotEq: '!='}
            for k, v in m.items():
                if isinstance(op, k):
                    if v in ('==', '!='):
                        parts.append('(%s %s %s)' % (tr(left, ctx), v, tr(right, ctx)))
                    else:
                        parts.append('(decide (%s %s %s))' % (tr(left, ctx), v, tr(right, ctx)))
                    break
            else:
                raise TranslateError('comparison')
            left = right
        return '(' + ' && '.join(parts) + ')'
    if isinstance(node, ast.Name):
        if node.id in ctx.names:
            return ctx.names[node.id]
        raise TranslateError('free bool name %s' % node.id)
    if isinstance(node, ast.Constant) and isinstance(node.value, bool):
        return 'true' if node.value else 'false'
    raise TranslateError('bool node %s' % type(node).__name__)

def const_index_subscript(fmt='({base} {idx})', last=None):
    """xx[2] -> (xx 2); xx[-1] -> (xx (N-1)) if `last` given as lean term for N"""
    def f(node, ctx):
        base = tr(node.value, ctx)
        idx = node.slice
        if isinstance(idx, ast.Tuple):
            parts = []
            for e in idx.elts:
                parts.append(_const_idx(e, last))
            return '(%s %s)' % (base, ' '.join(parts))
        return '(%s %s)' % (base, _const_idx(idx, last))
    return f

def _const_idx(e, last):
    if isinstance(e, ast.Constant) and isinstance(e.value, int):
        return str(e.value)
    if isinstance(e, ast.UnaryOp) and isinstance(e.op, ast.USub) and isinstance(e.operand, ast.Constant):
        if last is None:
            raise TranslateError('negative index')
        return '(%s - %d)' % (last, e.operand.value)
    raise TranslateError('non-constant index')

# ----------------------------------------------------------------------------------------
# C helpers: the arithmetic expression syntax of C used in dadi is Python-compatible after
# trivial normalisation ("1." -> "1.0", "&&" -> "and", "||" -> "or", "!" -> "not").
# ----------------------------------------------------------------------------------------
def c_expr_to_ast(text):
    t = text.strip().rstrip(';')
    t = re.sub(r'(?<![\w.])(\d+)\.(?![\d\w])', r'\1.0', t)
    t = t.replace('&&', ' and ').replace('||', ' or ')
    t = re.sub(r'!(?!=)', ' not ', t)
    t = re.sub(r'\s+', ' ', t)
    try:
        return ast.parse(t, mode='eval'), t
    except SyntaxError as e:
        raise TranslateError('C expression %r: %s' % (text, e))

def c_functions(path):
    """map name -> (argnames, body text) for `double f(...){...}` / `void f(...){...}`"""
    src = open(path).read()
    src_nc = re.sub(r'/\*.*?\*/', '', src, flags=re.S)
    out = {}
    for m in re.finditer(r'\b(double|void|int)\s+(\w+)\s*\(([^)]*)\)\s*\{', src_nc):
        start = m.end()
        depth = 1; i = start
        while depth and i < len(src_nc):
            if src_nc[i] == '{': depth += 1
            elif src_nc[i] == '}': depth -= 1
            i += 1
        body = src_nc[start:i-1]
        args = []
        for a in m.group(3).split(','):
            a = a.strip()
            if not a: continue
            nm = re.sub(r'\[\]', '', a.split()[-1]).lstrip('*')
            args.append((nm, '*' in a or '[' in a, a.split()[0]))
        out[m.group(2)] = (args, body)
    return out

def c_return_expr(body):
    m = re.match(r'^\s*return\s+(.*?);\s*$', body, flags=re.S)
    if not m:
        raise TranslateError('not a single return')
    return m.group(1)

HEADER = '''/- GENERATED by tools/translate.py from /repo — do not edit.  Regenerated on every check. -/
import DadiVerif.Model.Prelude
set_option linter.unusedVariables false
namespace DadiVerif
'''

def py_functions(path):
    src = open(path).read()
    tree = ast.parse(src)
    fns = {}
    for n in ast.walk(tree):
        if isinstance(n, (ast.FunctionDef,)):
            fns.setdefault(n.name, n)
    return src, tree, fns

def single_return(fn):
    body = [s for s in fn.body if not (isinstance(s, ast.Expr) and isinstance(s.value, ast.Constant))]
    if len(body) == 1 and isinstance(body[0], ast.Return):
        return body[0].value
    raise TranslateError('%s is not a single return' % fn.name)

def srcline(node, path):
    return '%s:%d' % (os.path.relpath(path, REPO), node.lineno)

# ----------------------------------------------------------------------------------------
# Generated/Coeffs.lean : coefficient functions, a/b/c assembly, boundary terms, injection, dt
# ----------------------------------------------------------------------------------------
def gen_coeffs():
    out = [HEADER, 'namespace Gen']
    # ---- C side
    shared = os.path.join(REPO, 'dadi', 'integration_shared.c')
    cf = c_functions(shared)
    out.append('namespace C')
    for name in ['Vfunc', 'Vfunc_beta', 'Mfunc1D', 'Mfunc2D', 'Mfunc3D', 'Mfunc4D', 'Mfunc5D']:
        if name not in cf:
            raise TranslateError('C function %s not found' % name)
        args, body = cf[name]
        e, t = c_expr_to_ast(c_return_expr(body))
        ctx = Ctx(names={a[0]: a[0] + '_' if a[0] in ('a', 'b', 'h') and False else a[0] for a in args}, src=t)
        out.append('/-- integration_shared.c `%s`: return %s -/' % (name, t))
        out.append('def %s (%s : Rat) : Rat := %s' % (name, ' '.join(a[0] for a in args), tr(e, ctx)))
    # compute_abc_nobc: atemp, ctemp and the four updates
    args, body = cf['compute_abc_nobc']
    m_at = re.search(r'atemp\s*=\s*(.*?);', body); m_ct = re.search(r'ctemp\s*=\s*(.*?);', body)
    if not (m_at and m_ct):
        raise TranslateError('atemp/ctemp not found')
    def sub(node, ctx):
        # arrays indexed by ii / ii+1 : MInt[ii] -> MInt_i ; V[ii] -> V_i ; V[ii+1] -> V_ip1
        base = node.value.id
        s = ast.unparse(node.slice).replace(' ', '')
        if s == 'ii': return base + '_i'
        if s == 'ii+1': return base + '_ip1'
        raise TranslateError('index %s' % s)
    for nm, mm in (('atemp', m_at), ('ctemp', m_ct)):
        e, t = c_expr_to_ast(mm.group(1))
        ctx = Ctx(src=t, subscript=sub)
        out.append('/-- compute_abc_nobc: %s = %s -/' % (nm, t))
        out.append('def %s (MInt_i delj_i V_i V_ip1 dx_i : Rat) : Rat := %s' % (nm, tr(e, ctx)))
    # update pattern: exact statements (normalised) must be present
    body_n = re.sub(r'\s+', '', body)
    pattern = ['a[0]=0;', 'c[N-1]=0;', 'b[ii]=1./dt;', 'a[ii+1]=-dfactor[ii+1]*atemp;', 'b[ii]+=dfactor[ii]*atemp;',
               'b[ii+1]+=dfactor[ii+1]*ctemp;', 'c[ii]=-dfactor[ii]*ctemp;',
               'for(ii=0;ii<N;ii++)b[ii]=1./dt;', 'for(ii=0;ii<N-1;ii++){atemp=']
    missing = [p for p in pattern if p not in body_n]
    out.append('/-- structural check of compute_abc_nobc (the pointwise a/b/c of Model.Line assume this shape) -/')
    out.append('def abcShapeOk : Bool := %s' % ('true' if not missing else 'false'))
    out.append('/- missing statements: %s -/' % json.dumps(missing))
    # compute_dfactor
    args, body = cf['compute_dfactor']
    body_n = re.sub(r'\s+', '', body)
    pat = ['for(ii=1;ii<N-1;ii++)dfactor[ii]=2./(dx[ii]+dx[ii-1]);', 'dfactor[0]=2./dx[0];', 'dfactor[N-1]=2./dx[N-2];']
    out.append('def dfactorShapeOk : Bool := %s' % ('true' if all(p in body_n for p in pat) else 'false'))
    args, body = cf['compute_xInt']
    out.append('def xIntShapeOk : Bool := %s' % ('true' if 'xInt[ii]=0.5*(xx[ii+1]+xx[ii]);' in re.sub(r'\s+', '', body) else 'false'))
    args, body = cf['compute_dx']
    out.append('def dxShapeOk : Bool := %s' % ('true' if 'dx[ii]=xx[ii+1]-xx[ii];' in re.sub(r'\s+', '', body) else 'false'))
    # compute_delj quotient
    args, body = cf['compute_delj']
    m = re.search(r'delj\[ii\]\s*=\s*(\(.*?\)\s*/\s*\(.*?\));', body)
    mw = re.search(r'wj\s*=\s*(.*?);', body)
    mg = re.search(r'if\s*\(([^{};]*?)\)\s*delj\[ii\]\s*=\s*\(', body, flags=re.S)
    if not (m and mw and mg):
        raise TranslateError('delj pieces')
    def sub2(node, ctx):
        base = node.value.id
        if ast.unparse(node.slice) == 'ii': return base + '_i'
        raise TranslateError('index')
    e, t = c_expr_to_ast(mw.group(1)); out.append('/-- compute_delj: wj = %s -/' % t)
    out.append('def delj_wj (MInt_i dx_i : Rat) : Rat := %s' % tr(e, Ctx(src=t, subscript=sub2)))
    e, t = c_expr_to_ast(m.group(1)); out.append('/-- compute_delj: delj = %s -/' % t)
    out.append('def delj_quot (epsj wj VInt_i : Rat) : Rat := %s' % tr(e, Ctx(names={'epsj': 'epsj', 'wj': 'wj'}, src=t, subscript=sub2)))
    e, t = c_expr_to_ast(mg.group(1)); out.append('/-- compute_delj guard: %s -/' % t)
    out.append('def delj_guard (epsj wj : Rat) : Bool := %s' % trb(e.body, Ctx(names={'epsj': 'epsj', 'wj': 'wj'}, src=t)))
    # tridiag.c: statement-level shape of the Thomas sweep that Model/Tridiag.lean (`solveAux`) transcribes
    tf_ = c_functions(os.path.join(REPO, 'dadi', 'tridiag.c'))
    if 'tridiag_premalloc' not in tf_ or 'tridiag' not in tf_:
        raise TranslateError('tridiag.c: functions not found')
    tb = re.sub(r'\s+', '', tf_['tridiag_premalloc'][1])
    tpat = ['doublebet=b[0];', 'u[0]=r[0]/bet;', 'for(j=1;j<=n-1;j++){gam[j]=c[j-1]/bet;bet=b[j]-a[j]*gam[j];u[j]=(r[j]-a[j]*u[j-1])/bet;}',
            'for(j=(n-2);j>=0;j--){u[j]-=gam[j+1]*u[j+1];}']
    tb2 = re.sub(r'\s+', '', tf_['tridiag'][1])
    out.append('/-- tridiag.c `tridiag_premalloc` consists of exactly the forward and backward sweeps transcribed by `solveAux` -/')
    out.append('def tridiagShapeOk : Bool := %s' % ('true' if all(p_ in tb for p_ in tpat) and 'tridiag_premalloc(a,b,c,r,u,n);' in tb2 else 'false'))
    # per-kernel wiring: Mfunc call argument lists, bc guards, bc terms, flat index
    out.append(gen_kernel_wiring())
    out.append(gen_kernel_sigs())
    out.append(gen_kernel_programs())
    out.append('end C')
    # ---- Python side
    path = os.path.join(REPO, 'dadi', 'Integration.py')
    src, tree, fns = py_functions(path)
    out.append('namespace Py')
    for name, lname in [('_Vfunc', 'Vfunc'), ('_Mfunc1D', 'Mfunc1D'), ('_Mfunc2D', 'Mfunc2D'), ('_Mfunc3D', 'Mfunc3D')]:
        fn = fns.get(name)
        if fn is None: raise TranslateError('%s not found' % name)
        e = single_return(fn)
        an = [a.arg for a in fn.args.args]
        out.append('/-- %s `%s`: return %s -/' % (srcline(fn, path), name, ast.get_source_segment(src, e)))
        out.append('def %s (%s : Rat) : Rat := %s' % (lname, ' '.join(an), tr(e, Ctx(names={a: a for a in an}, src=src))))
    # injection increments
    out.append(gen_inject(src, fns, path))
    out.append(gen_compute_dt(src, fns, path))
    out.append(gen_precalc(src, fns, path))
    out.append(gen_driver_wiring(src, fns, path))
    out.append(gen_driver_programs(src, fns, path))
    out.append('end Py')
    out.append('end Gen\nend DadiVerif\n')
    return '\n'.join(out)

AXN = ['x', 'y', 'z', 'a', 'b']
GRIDN = ['xx', 'yy', 'zz', 'aa', 'bb']

def _canon_names(body, ax=None):
    """The name-pattern tables below (`kernels`, `kernelSigs`) were written against the naming convention of the C kernels (loop
    variable ii/jj/kk/ll/mm for the axis with extent L/M/N/O/P, spacing array d<axis>, midpoints <axis>Int).  Loop variables and
    these two work arrays are renamed to that convention first (by what they ARE: the extent in the `for` header, the output
    position of compute_dx / compute_xInt), so that a renamed variable still gives the same tables; the statement-level
    translation of the bodies (`kernelProgs`) does not depend on names at all."""
    canon = {'L': 'ii', 'M': 'jj', 'N': 'kk', 'O': 'll', 'P': 'mm'}
    ren = {}
    for m in re.finditer(r'for\s*\(\s*(\w+)\s*=[^;]*;\s*(\w+)\s*<\s*([A-Za-z]\w*)', body):
        v, v2, ext = m.groups()
        if v != v2 or ext[0] not in canon: continue
        if ren.setdefault(v, canon[ext[0]]) != canon[ext[0]]:
            raise TranslateError('loop variable %s ranges over two axes' % v)
    if ax is not None:
        m = re.search(r'compute_dx\(\s*\w+\s*,\s*\w+\s*,\s*(\w+)\s*\)', body)
        if m: ren[m.group(1)] = 'd' + AXN[ax]
        m = re.search(r'compute_xInt\(\s*\w+\s*,\s*\w+\s*,\s*(\w+)\s*\)', body)
        if m: ren[m.group(1)] = AXN[ax] + 'Int'
    ren = {k: v for k, v in ren.items() if k != v}
    if not ren: return body
    for k in ren: body = re.sub(r'\b%s\b' % re.escape(k), '\0' + k + '\0', body)
    for k, v in ren.items(): body = body.replace('\0' + k + '\0', v)
    return body

_KERNEL_ROLES = {}

def gen_kernel_wiring():
    """For each kernel implicit_{d}D{axis}: which migration parameter is paired with which
    coordinate, which (nu, gamma, h) it uses, the bc guards and the bc expressions, the flat
    index strides.  Rendered as a Lean table `kernels : List KernelWiring` checked by
    `decide` in Props/C02."""
    rows = []
    bcs = []
    for d in range(1, 6):
        path = os.path.join(REPO, 'dadi', 'integration%dD.c' % d)
        cf = c_functions(path)
        for ax in range(d):
            name = 'implicit_%dD%s' % (d, AXN[ax])
            if name not in cf:
                raise TranslateError('%s not found' % name)
            args, body = cf[name]
            body = _canon_names(body, ax)
            body1 = re.sub(r'\s+', ' ', body)
            calls = re.findall(r'(Mfirst|Mlast|MInt\[\w+\])\s*=\s*Mfunc%dD\((.*?)\);' % d, body1)
            if len(calls) != 3:
                raise TranslateError('%s: expected 3 Mfunc calls, got %d' % (name, len(calls)))
            # local aliases: x = xx[ii]; y = yy[jj]; ...
            alias = dict((m.group(1), m.group(2)) for m in re.finditer(r'\b(\w+) = (\w\w)\[\w\w\];', body1))
            LOOPV = {'xx': 'ii', 'yy': 'jj', 'zz': 'kk', 'aa': 'll', 'bb': 'mm'}
            idx_ok = all(LOOPV.get(m.group(2)) == m.group(3) for m in re.finditer(r'\b(\w+) = (\w\w)\[(\w\w)\];', body1) if m.group(2) in LOOPV)
            sig = None
            kinds = {}
            for lhs, al in calls:
                parts = [p.strip() for p in al.split(',')]
                first = parts[0]
                rest = parts[1:]
                kinds[lhs.split('[')[0]] = first
                if sig is None: sig = rest
                elif sig != rest: raise TranslateError('%s: Mfunc calls disagree' % name)
            g = GRIDN[ax]
            dimn = ['L', 'M', 'N', 'O', 'P'][ax]
            intn = AXN[ax] + 'Int'
            okfirst = kinds.get('Mfirst', '').replace(' ', '') == '%s[0]' % g
            oklast = kinds.get('Mlast', '').replace(' ', '') == '%s[%s-1]' % (g, dimn)
            okint = re.match(r'^%s\[\w\w\]$' % intn, kinds.get('MInt', '').replace(' ', '')) is not None
            # coordinates passed (d-1 of them), then d-1 migration rates, gamma, h
            coords = sig[:d-1]; migs = sig[d-1:2*(d-1)]; gam, hh = sig[2*(d-1):2*(d-1)+2]
            coord_axes = []
            for cname in coords:
                gridname = alias.get(cname, None)
                if gridname is None or gridname not in GRIDN:
                    raise TranslateError('%s: coordinate %s not an alias of a grid' % (name, cname))
                coord_axes.append(GRIDN.index(gridname))
            mig_pairs = []
            for mname in migs:
                mm = re.match(r'^m(\d)(\d)$', mname)
                if not mm: raise TranslateError('%s: migration arg %s' % (name, mname))
                mig_pairs.append((int(mm.group(1)) - 1, int(mm.group(2)) - 1))
            # V uses nu<k>
            mv = re.search(r'V\[\w\w\] = (Vfunc\w*)\((.*?)\);', body1)
            vargs = [p.strip() for p in mv.group(2).split(',')]
            nu = vargs[1]
            # bc guards
            g0 = re.search(r'if\(([^;{}]*?)\(Mfirst <= 0\)\)\s*b\[0\] \+= (.*?);', body1)
            g1 = re.search(r'if\(([^;{}]*?)\(Mlast >= 0\)\)\s*b\[%s-1\] \+= (.*?);' % dimn, body1)
            if d == 1:
                g0 = re.search(r'if\(()Mfirst <= 0\)\s*b\[0\] \+= (.*?);', body1)
                g1 = re.search(r'if\(()Mlast >= 0\)\s*b\[%s-1\] \+= (.*?);' % dimn, body1)
            if not (g0 and g1): raise TranslateError('%s: bc statements' % name)
            z0 = sorted(GRIDN.index(m.group(1)) for m in re.finditer(r'\((\w\w)\[\w\w\]\s*==\s*0\)', g0.group(1)))
            z1 = sorted(GRIDN.index(m.group(1)) for m in re.finditer(r'\((\w\w)\[\w\w\]\s*==\s*1\)', g1.group(1)))
            n0 = len(re.findall(r'==', g0.group(1))); n1 = len(re.findall(r'==', g1.group(1)))
            for gg in (g0, g1):
                for m in re.finditer(r'\((\w\w)\[(\w\w)\]\s*==\s*[01]\)', gg.group(1)):
                    if LOOPV.get(m.group(1)) != m.group(2): idx_ok = False
            # the r[] load and the write-back must use the same flat index
            wbs = re.findall(r'phi\[([^\]]*?)\] = temp\[\w\w\];', body1)
            lds = re.findall(r'r\[\w\w\] = phi\[([^\]]*?)\]/dt;', body1)
            if wbs and lds and wbs[0].replace(' ', '') != lds[0].replace(' ', ''): idx_ok = False
            # flat index strides
            fi = re.search(r'r\[\w\w\] = phi\[(.*?)\]/dt;', body1)
            idx = fi.group(1).replace(' ', '') if fi else 'ii'
            terms = idx.split('+')
            names_ = ['L', 'M', 'N', 'O', 'P'][:d]
            expect = []
            loopv = ['ii', 'jj', 'kk', 'll', 'mm']
            for k in range(d):
                t = loopv[k] + ''.join('*' + n for n in names_[k+1:])
                expect.append(t)
            strides_ok = (terms == expect)
            wb = re.search(r'phi\[(.*?)\] = temp\[\w\w\];', body1)
            # 4D/5D last axis writes in place via &phi[...]
            _KERNEL_ROLES[(d, ax)] = dict(name=name, path=path, body=body1, args=args, nu=nu, migs=list(migs), coord_axes=list(coord_axes),
                                          gamma=gam, h=hh, vargs=vargs, vfunc=mv.group(1))
            rows.append(dict(d=d, ax=ax, coord_axes=coord_axes, mig_pairs=mig_pairs,
                             nu=nu, gamma=gam, h=hh, vfunc=mv.group(1), z0=z0, z1=z1, n0=n0, n1=n1,
                             okfirst=okfirst, oklast=oklast, okint=okint, strides_ok=strides_ok and idx_ok,
                             bc0=g0.group(2), bc1=g1.group(2), nuarg=nu))
    out = ['structure KernelWiring where\n  d : Nat\n  ax : Nat\n  coordAxes : List Nat\n  migPairs : List (Nat × Nat)\n'
           '  nuIdx : Nat\n  gammaIdx : Nat\n  hIdx : Nat\n  zeroGuardAxes : List Nat\n  oneGuardAxes : List Nat\n'
           '  nGuard0 : Nat\n  nGuard1 : Nat\n  endpointsOk : Bool\n  stridesOk : Bool\n  usesBeta : Bool\nderiving DecidableEq, Repr']
    items = []
    def idx_of(s, pre):
        m = re.match(r'^%s(\d)?$' % pre, s)
        if not m: raise TranslateError('parameter name %s' % s)
        return int(m.group(1)) - 1 if m.group(1) else 0
    for r in rows:
        items.append('  { d := %d, ax := %d, coordAxes := %s, migPairs := %s, nuIdx := %d, gammaIdx := %d, hIdx := %d, '
                     'zeroGuardAxes := %s, oneGuardAxes := %s, nGuard0 := %d, nGuard1 := %d, endpointsOk := %s, stridesOk := %s, usesBeta := %s }'
                     % (r['d'], r['ax'], r['coord_axes'], '[' + ', '.join('(%d, %d)' % p for p in r['mig_pairs']) + ']',
                        idx_of(r['nu'], 'nu'), idx_of(r['gamma'], 'gamma'), idx_of(r['h'], 'h'),
                        r['z0'], r['z1'], r['n0'], r['n1'],
                        'true' if (r['okfirst'] and r['oklast'] and r['okint']) else 'false',
                        'true' if r['strides_ok'] else 'false', 'true' if r['vfunc'] == 'Vfunc_beta' else 'false'))
    out.append('def kernels : List KernelWiring := [\n' + ',\n'.join(items) + '\n]')
    # bc expressions (per kernel, must all be the same two formulas up to names)
    seen0 = set(); seen1 = set()
    for r in rows:
        n = r['nuarg']
        dn = 'd' + AXN[r['ax']]
        dimn = ['L', 'M', 'N', 'O', 'P'][r['ax']]
        seen0.add(r['bc0'].replace(n, 'nu').replace('%s[0]' % dn, 'dx0'))
        seen1.add(r['bc1'].replace(n, 'nu').replace('%s[%s-2]' % (dn, dimn), 'dxlast'))
    if len(seen0) != 1 or len(seen1) != 1:
        raise TranslateError('boundary terms differ between kernels: %r %r' % (seen0, seen1))
    e, t = c_expr_to_ast(seen0.pop()); out.append('/-- boundary term added to b[0]: %s -/' % t)
    out.append('def bcFirst (nu Mfirst dx0 : Rat) : Rat := %s' % tr(e, Ctx(names={'nu': 'nu', 'Mfirst': 'Mfirst', 'dx0': 'dx0'}, src=t)))
    e, t = c_expr_to_ast(seen1.pop()); out.append('/-- boundary term added to b[N-1]: %s -/' % t)
    out.append('def bcLast (nu Mlast dxlast : Rat) : Rat := %s' % tr(e, Ctx(names={'nu': 'nu', 'Mlast': 'Mlast', 'dxlast': 'dxlast'}, src=t)))
    return '\n'.join(out)

def gen_inject(src, fns, path):
    """_inject_mutations_{d}D: for each population k the guarded `phi[e_k] += expr`."""
    out = ['structure InjectTerm where\n  d : Nat\n  pop : Nat\n  target : List Nat\n  guards : List String\nderiving DecidableEq, Repr']
    items = []
    for d in range(1, 6):
        fn = fns.get('_inject_mutations_%dD' % d)
        if fn is None: raise TranslateError('_inject_mutations_%dD' % d)
        argn = [a.arg for a in fn.args.args]
        stmts = [s for s in fn.body if not (isinstance(s, ast.Expr) and isinstance(s.value, ast.Constant))]
        if not isinstance(stmts[-1], ast.Return): raise TranslateError('inject return')
        k = 0
        for s in stmts[:-1]:
            guards = []
            if isinstance(s, ast.If):
                if s.orelse or len(s.body) != 1: raise TranslateError('inject if shape')
                t = s.test
                conj = t.values if isinstance(t, ast.BoolOp) and isinstance(t.op, ast.And) else [t]
                for c in conj:
                    if isinstance(c, ast.UnaryOp) and isinstance(c.op, ast.Not) and isinstance(c.operand, ast.Name):
                        guards.append(c.operand.id)
                    else: raise TranslateError('inject guard')
                s = s.body[0]
            if not (isinstance(s, ast.AugAssign) and isinstance(s.op, ast.Add) and isinstance(s.target, ast.Subscript)):
                raise TranslateError('inject statement')
            tgt = s.target.slice
            tl = [e.value for e in tgt.elts] if isinstance(tgt, ast.Tuple) else [tgt.value]
            grids = GRIDN[:d]
            ctx = Ctx(names=dict([(g, g) for g in grids] + [('dt', 'dt'), ('theta0', 'theta0')]), src=src,
                      subscript=const_index_subscript())
            items.append('  { d := %d, pop := %d, target := %s, guards := %s }' % (d, k, tl, json.dumps(guards)))
            out.append('/-- %s -/' % ast.get_source_segment(src, s))
            out.append('def inject%dD_%d (dt theta0 : Rat) (%s : Nat → Rat) : Rat := %s'
                       % (d, k, ' '.join(grids), tr(s.value, ctx)))
            k += 1
        if k != d: raise TranslateError('inject %dD has %d terms' % (d, k))
    out.append('def injectTerms : List InjectTerm := [\n' + ',\n'.join(items) + '\n]')
    return '\n'.join(out)

def gen_compute_dt(src, fns, path):
    fn = fns.get('_compute_dt')
    if fn is None: raise TranslateError('_compute_dt')
    stmts = [s for s in fn.body if not (isinstance(s, ast.Expr) and isinstance(s.value, ast.Constant))]
    # expected shape: if use_old_timestep: return ...; maxVM = max(a, sum(ms), b); if maxVM > 0: dt = tf/maxVM else inf; if dt==0 raise; return dt
    asg = [s for s in stmts if isinstance(s, ast.Assign) and isinstance(s.targets[0], ast.Name) and s.targets[0].id == 'maxVM']
    if len(asg) != 1: raise TranslateError('_compute_dt: maxVM assignment')
    call = asg[0].value
    if not (isinstance(call, ast.Call) and callee_name(call.func) == 'max' and len(call.args) == 3):
        raise TranslateError('_compute_dt: maxVM = max(.,.,.) expected')
    a0, a1, a2 = call.args
    if not (isinstance(a1, ast.Call) and callee_name(a1.func) == 'sum' and isinstance(a1.args[0], ast.Name) and a1.args[0].id == 'ms'):
        raise TranslateError('_compute_dt: sum(ms)')
    ctx = Ctx(names={'nu': 'nu', 'gamma': 'gamma', 'h': 'h'}, src=src)
    out = ['/-- %s: maxVM = %s -/' % (srcline(fn, path), re.sub(r'\s+', ' ', ast.get_source_segment(src, call)))]
    out.append('def maxVM (nu sumMs gamma h : Rat) : Rat := ratMax (ratMax %s sumMs) %s' % (tr(a0, ctx), tr(a2, ctx)))
    ifs = [s for s in stmts if isinstance(s, ast.If)]
    ok = False
    for s in ifs:
        t = ast.unparse(s.test)
        if t == 'maxVM > 0':
            b = ast.unparse(s.body[0]); o = ast.unparse(s.orelse[0]) if s.orelse else ''
            ok = (b == 'dt = timescale_factor / maxVM' and o == 'dt = numpy.inf')
    out.append('/-- `if maxVM > 0: dt = timescale_factor / maxVM else: dt = inf` present as such -/')
    out.append('def computeDtShapeOk : Bool := %s' % ('true' if ok else 'false'))
    out.append('/-- dt as an Option (none = +inf) -/')
    out.append('def computeDt (tf nu sumMs gamma h : Rat) : Option Rat := if maxVM nu sumMs gamma h > 0 then some (tf / maxVM nu sumMs gamma h) else none')
    return '\n'.join(out)

def gen_precalc(src, fns, path):
    """_one_pop_const_params etc: the a/b/c update expressions (pointwise translation of the
    slice idioms) — compared by theorem with the C assembly."""
    out = []
    fn = fns.get('_one_pop_const_params')
    if fn is None: raise TranslateError('_one_pop_const_params')
    # collect `X[sl] += expr` statements for X in a,b,c
    upd = []
    for s in fn.body:
        if isinstance(s, ast.AugAssign) and isinstance(s.target, ast.Subscript) and isinstance(s.target.value, ast.Name) \
           and s.target.value.id in ('a', 'b', 'c') and isinstance(s.op, ast.Add):
            upd.append((s.target.value.id, ast.unparse(s.target.slice), s.value))
    # slice semantics: target slice '1:' means node j receives expr with interval index j-1;
    # ':-1' means node j receives expr with interval index j.  Inside expr: dfactor[1:] -> dfactor at node (i+1),
    # dfactor[:-1] -> node i ; V[:-1] -> V at node i ; V[1:] -> V at node i+1 ; MInt, dx, delj -> interval i.
    def sub(node, ctx):
        base = node.value.id
        sl = ast.unparse(node.slice).replace(' ', '')
        if base in ('dfactor', 'V') and sl == '1:': return base + '_ip1'
        if base in ('dfactor', 'V') and sl == ':-1': return base + '_i'
        raise TranslateError('slice %s[%s]' % (base, sl))
    names = {'MInt': 'MInt_i', 'delj': 'delj_i', 'dx': 'dx_i'}
    k = 0
    for arr, sl, e in upd:
        ctx = Ctx(names=names, src=src, subscript=sub)
        out.append('/-- _one_pop_const_params: %s[%s] += %s -/' % (arr, sl, re.sub(r'\s+', ' ', ast.get_source_segment(src, e))))
        out.append('def pre1D_%s_%s (MInt_i delj_i dx_i V_i V_ip1 dfactor_i dfactor_ip1 : Rat) : Rat := %s'
                   % (arr, 'hi' if sl == '1:' else 'lo', tr(e, ctx)))
        k += 1
    if sorted((a, s) for a, s, _ in upd) != [('a', '1:'), ('b', '1:'), ('b', ':-1'), ('c', ':-1')]:
        raise TranslateError('_one_pop_const_params update set %r' % [(a, s) for a, s, _ in upd])
    # bc lines
    bcs = [s for s in fn.body if isinstance(s, ast.If) and 'M[' in ast.unparse(s.test)]
    if len(bcs) != 2: raise TranslateError('1D const bc')
    def subbc(node, ctx):
        base = node.value.id; sl = ast.unparse(node.slice).replace(' ', '')
        m = {('M', '0'): 'Mfirst', ('M', '-1'): 'Mlast', ('dx', '0'): 'dx0', ('dx', '-1'): 'dxlast'}
        if (base, sl) in m: return m[(base, sl)]
        raise TranslateError('bc index')
    for s, nm in zip(bcs, ['First', 'Last']):
        inc = s.body[0]
        ctx = Ctx(names={'nu': 'nu'}, src=src, subscript=subbc)
        out.append('/-- %s -/' % re.sub(r'\s+', ' ', ast.get_source_segment(src, s)))
        out.append('def pre1D_bc%s (nu Mfirst Mlast dx0 dxlast : Rat) : Rat := %s' % (nm, tr(inc.value, ctx)))
        out.append('def pre1D_bc%sGuard (Mfirst Mlast : Rat) : Bool := %s' % (nm, trb(s.test, Ctx(src=src, subscript=subbc))))
    # 2D and 3D: same four update expressions per axis (after stripping nuax broadcasting)
    for d, fname in ((2, '_two_pops_const_params'), (3, '_three_pops_const_params')):
        fn = fns.get(fname)
        if fn is None: raise TranslateError(fname)
        for s in fn.body:
            if isinstance(s, ast.AugAssign) and isinstance(s.target, ast.Subscript) and isinstance(s.target.value, ast.Name) \
               and re.match(r'^[abc][xyz]$', s.target.value.id) and isinstance(s.op, ast.Add):
                arr = s.target.value.id
                axn = arr[1]; ax = 'xyz'.index(axn)
                tsl = ast.unparse(s.target.slice).replace(' ', '')
                if tsl.startswith('(') : tsl = tsl[1:-1]
                parts = tsl.split(',')
                # slice position must be the axis position
                want_pos = ax
                pos = [i for i, p in enumerate(parts) if p != ':']
                if len(parts) - 1 != ax or pos != [ax]:
                    raise TranslateError('%s: target slice %s of %s not on axis %d' % (fname, tsl, arr, ax))
                hi = parts[ax] == '1:'
                def sub(node, ctx, axn=axn, ax=ax, d=d):
                    base = node.value.id
                    sl = ast.unparse(node.slice).replace(' ', '')
                    if sl.startswith('('): sl = sl[1:-1]
                    ps = sl.split(',')
                    real = [p for p in ps if p not in ('nuax',)]
                    # position of the real slice among broadcast axes must be `ax` when newaxes are given
                    if len(ps) > 1:
                        if len(ps) != d and not (len(ps) == ax + 1):
                            raise TranslateError('%s: broadcast rank %s' % (fname, sl))
                        if ps.index(real[0]) != ax: raise TranslateError('%s: broadcast axis of %s[%s]' % (fname, base, sl))
                    r = real[0]
                    if base == 'dfact_' + axn: b = 'dfactor'
                    elif base == 'V' + axn: b = 'V'
                    elif base == 'd' + axn: return 'dx_i'
                    else: raise TranslateError('%s: array %s' % (fname, base))
                    if r == '1:': return b + '_ip1'
                    if r == ':-1': return b + '_i'
                    raise TranslateError('%s: slice %s' % (fname, r))
                names = {'M%sInt' % axn: 'MInt_i', 'delj' + axn: 'delj_i', 'd' + axn: 'dx_i'}
                ctx = Ctx(names=names, src=src, subscript=sub)
                out.append('/-- %s: %s -/' % (fname, re.sub(r'\s+', ' ', ast.get_source_segment(src, s))))
                out.append('def pre%dD%s_%s_%s (MInt_i delj_i dx_i V_i V_ip1 dfactor_i dfactor_ip1 : Rat) : Rat := %s'
                           % (d, axn, arr[0], 'hi' if hi else 'lo', tr(s.value, ctx)))
    # ---- wiring of the 2-D / 3-D constant-parameter drivers: which grid, migration rate, nu, gamma, h each axis uses
    out.append('structure PreWiring where\n  d : Nat\n  ax : Nat\n  what : String\n  args : List String\nderiving DecidableEq, Repr')
    items = []
    def norm(e):
        t = ast.unparse(e).replace(' ', '')
        return t
    for d, fname in ((2, '_two_pops_const_params'), (3, '_three_pops_const_params')):
        fn = fns[fname]
        for s_ in fn.body:
            if isinstance(s_, ast.Assign) and len(s_.targets) == 1 and isinstance(s_.targets[0], ast.Name) and isinstance(s_.value, ast.Call):
                nm = s_.targets[0].id
                m = re.match(r'^(M|V)([xyz])(Int)?$', nm)
                if m and callee_name(s_.value.func) in ('_Mfunc%dD' % d, '_Vfunc'):
                    ax = 'xyz'.index(m.group(2))
                    items.append((d, ax, nm, [norm(a) for a in s_.value.args]))
            if isinstance(s_, ast.If) and len(s_.body) == 1 and isinstance(s_.body[0], ast.AugAssign):
                tgt = s_.body[0].target
                if isinstance(tgt, ast.Subscript) and isinstance(tgt.value, ast.Name) and re.match(r'^b[xyz]$', tgt.value.id):
                    ax = 'xyz'.index(tgt.value.id[1])
                    items.append((d, ax, 'bc:' + norm(s_.test), [norm(tgt), norm(s_.body[0].value)]))
    out.append('def preWiring : List PreWiring := [\n' + ',\n'.join(
        '  { d := %d, ax := %d, what := %s, args := %s }' % (d, ax, json.dumps(w), json.dumps(a)) for d, ax, w, a in items) + '\n]')
    return '\n'.join(out)

def gen_driver_wiring(src, fns, path):
    """Which arguments each public integrator passes to each kernel and to _compute_dt; frozen/migration
    guard; copy-on-entry.  Emitted as Lean tables checked in Props (C02_wiring, C04, C20)."""
    out = ['structure DriverCall where\n  d : Nat\n  ax : Nat\n  fn : String\n  args : List String\n  guard : String\nderiving DecidableEq, Repr',
           'structure DtCall where\n  d : Nat\n  fn : String\n  ax : Nat\n  args : List String\nderiving DecidableEq, Repr']
    names = {1: 'one_pop', 2: 'two_pops', 3: 'three_pops', 4: 'four_pops', 5: 'five_pops'}
    calls = []; dts = []; effects = []; guards = []
    for d, nm in names.items():
        fn = fns.get(nm)
        if fn is None: raise TranslateError(nm)
        # copy on entry
        first = [s for s in fn.body if not (isinstance(s, ast.Expr) and isinstance(s.value, ast.Constant))][0]
        copies = ast.unparse(first).replace(' ', '') == 'phi=phi.copy()'
        effects.append('  ("%s", %s)' % (nm, 'true' if copies else 'false'))
        for node in ast.walk(fn):
            if isinstance(node, ast.Call):
                cn = callee_name(node.func)
                if cn and cn.startswith('int_c.implicit_%dD' % d):
                    ax = AXN.index(cn[-1])
                    args = [ast.unparse(a) for a in node.args] + ['%s=%s' % (k.arg, ast.unparse(k.value)) for k in node.keywords]
                    calls.append((d, ax, cn, args))
        whiles = [n for n in ast.walk(fn) if isinstance(n, ast.While)]
        if len(whiles) != 1: raise TranslateError('%s: while loops' % nm)
        for node in ast.walk(whiles[0]):
            if isinstance(node, ast.Call) and callee_name(node.func) == '_compute_dt':
                dts.append((d, nm, sum(1 for x in dts if x[1] == nm), [ast.unparse(a) for a in node.args]))
        # frozen/migration guard
        if d >= 2:
            g = None
            for s in fn.body:
                if isinstance(s, ast.If) and isinstance(s.body[0], ast.Raise) and 'frozen' in ast.unparse(s.test):
                    g = s.test
            if g is None: raise TranslateError('%s: frozen/migration guard not found' % nm)
            nmz = {}
            for k in range(1, d+1):
                nmz['frozen%d' % k] = '(fr %d)' % (k-1)
                for l in range(1, d+1):
                    if l != k: nmz['m%d%d' % (k, l)] = '(m %d %d)' % (k-1, l-1)
            out.append('/-- %s: %s -/' % (nm, re.sub(r'\s+', ' ', ast.get_source_segment(src, g))))
            out.append('def frozenMigGuard%d (fr : Nat → Bool) (m : Nat → Nat → Rat) : Bool := %s' % (d, trb(g, Ctx(names=nmz, src=src))))
    out.append('def driverCalls : List DriverCall := [\n' + ',\n'.join(
        '  { d := %d, ax := %d, fn := "%s", args := %s, guard := "" }' % (d, ax, cn, json.dumps(args)) for d, ax, cn, args in calls) + '\n]')
    out.append('def dtCalls : List DtCall := [\n' + ',\n'.join(
        '  { d := %d, fn := "%s", ax := %d, args := %s }' % (d, nm, ax, json.dumps(args)) for (d, nm, ax, args) in dts) + '\n]')
    out.append('def copiesOnEntry : List (String × Bool) := [\n' + ',\n'.join(effects) + '\n]')
    return '\n'.join(out)

# ----------------------------------------------------------------------------------------
# Signatures of the compiled kernels as the Python drivers see them:
#   driver call  --(Python argument binding)-->  wrapper `def` in integration_c.pyx
#                --(positional)-->  C function in integration{d}D.c  --(names used in its body)--> role
# Every hop is emitted as a table of NAMES; the composition is done in Lean (Model/Integrate.lean, `Prog.resolve`).
# ----------------------------------------------------------------------------------------
def lstr(s):
    return json.dumps(s, ensure_ascii=False)

def llist(xs):
    return '[' + ', '.join(xs) + ']'

def _pyx_wrappers(path):
    """name -> (parameter names, normalised argument texts of the single C call) for every `def` of a .pyx"""
    if not os.path.exists(path):
        raise TranslateError('%s not found' % os.path.basename(path))
    src = re.sub(r'#[^\n]*', '', open(path).read())
    out = {}
    for m in re.finditer(r'^def\s+(\w+)\s*\((.*?)\)\s*:(.*?)(?=^def\s|\Z)', src, flags=re.S | re.M):
        name, params, body = m.group(1), m.group(2), m.group(3)
        pn = []
        for a in params.split(','):
            a = a.strip()
            if not a: continue
            if '=' in a: raise TranslateError('%s: default value in wrapper signature' % name)
            pn.append(a.split()[-1])
        calls = re.findall(r'\bc_(\w+)\s*\((.*?)\)\s*\n', body, flags=re.S)
        if len(calls) != 1:
            raise TranslateError('%s: wrapper %s does not consist of one C call' % (os.path.basename(path), name))
        cname, al = calls[0]
        args = []
        for a in al.split(','):
            a = re.sub(r'\s+', '', re.sub(r'<\s*double\s*\*\s*>', '', a))
            mm = re.match(r'^(\w+)\.shape\[(\d+)\]$', a)
            if re.match(r'^-?\d+$', a): args.append('(.lit %s)' % a)
            elif re.match(r'^[A-Za-z_]\w*$', a): args.append('(.param %s)' % lstr(a))
            elif re.match(r'^[A-Za-z_]\w*\.data$', a): args.append('(.data %s)' % lstr(a[:-5]))
            elif re.match(r'^[A-Za-z_]\w*\.size$', a): args.append('(.size %s)' % lstr(a[:-5]))
            elif mm: args.append('(.shape %s %s)' % (lstr(mm.group(1)), mm.group(2)))
            else: args.append('(.other %s)' % lstr(a))
        rets = re.findall(r'^\s*return\s+(\w+)\s*$', body, flags=re.M)
        out[name] = (pn, cname, args, rets[-1] if rets else None)
    return out

KERNEL_SIG_TYPE = '''/-- what a Cython wrapper passes to the C function: one of its own parameters, the data pointer of one, an extent, a literal -/
inductive PyxArg where
  | param (n : String) | data (n : String) | shape (n : String) (i : Nat) | size (n : String) | lit (v : Int) | other (s : String)
deriving DecidableEq, Repr
structure KernelSig where
  name : String
  d : Nat
  ax : Nat
  pre : Bool
  pyxParams : List String
  pyxCall : List PyxArg
  pyxReturns : String
  cParams : List String
  rolePhi : String
  roleGrids : List String
  roleNu : String
  roleMig : List (String × Nat)
  roleGamma : String
  roleH : String
  roleBeta : Option String
  roleDt : String
  roleDelj : String
  roleCoef : List String
  roleDims : List String
deriving DecidableEq, Repr'''

def gen_kernel_sigs():
    """`kernelSigs`: for each of the 15 on-the-fly kernels, the 5 pre-computed-coefficient kernels and `tridiag`: the wrapper's
    parameter names, what it passes to the C function, the C function's parameter names, and which C parameter plays which
    role in the body (size → Vfunc, migration rate paired with which coordinate → Mfunc, gamma, h, dt → compute_abc_nobc and
    the right-hand side, switch → compute_delj)."""
    pyx = _pyx_wrappers(os.path.join(REPO, 'dadi', 'integration_c.pyx'))
    items = []
    def emit(**k):
        items.append('  { name := %s, d := %d, ax := %d, pre := %s, pyxParams := %s, pyxCall := %s, pyxReturns := %s, cParams := %s,\n'
                     '    rolePhi := %s, roleGrids := %s, roleNu := %s, roleMig := %s, roleGamma := %s, roleH := %s, roleBeta := %s,\n'
                     '    roleDt := %s, roleDelj := %s, roleCoef := %s, roleDims := %s }'
                     % (lstr(k['name']), k['d'], k['ax'], 'true' if k['pre'] else 'false', llist(map(lstr, k['pyxParams'])),
                        llist(k['pyxCall']), lstr(k['pyxReturns'] or ''), llist(map(lstr, k['cParams'])), lstr(k['phi']),
                        llist(map(lstr, k['grids'])), lstr(k['nu']), llist('(%s, %d)' % (lstr(a), b) for a, b in k['mig']),
                        lstr(k['gamma']), lstr(k['h']), ('some %s' % lstr(k['beta'])) if k['beta'] else 'none',
                        lstr(k['dt']), lstr(k['delj']), llist(map(lstr, k['coef'])), llist(map(lstr, k['dims']))))
    DIMN = ['L', 'M', 'N', 'O', 'P']
    for d in range(1, 6):
        for ax in range(d):
            r = _KERNEL_ROLES.get((d, ax))
            if r is None: raise TranslateError('kernel roles (%d,%d)' % (d, ax))
            name = r['name']; body = r['body']
            if name not in pyx: raise TranslateError('integration_c.pyx: wrapper %s not found' % name)
            pn, cname, cargs, ret = pyx[name]
            if cname != name: raise TranslateError('integration_c.pyx: %s calls %s' % (name, cname))
            cpar = [a[0] for a in r['args']]
            m1 = re.search(r'compute_abc_nobc\(\s*d\w\s*,\s*dfactor\s*,\s*delj\s*,\s*MInt\s*,\s*V\s*,\s*(\w+)\s*,', body)
            m2 = re.findall(r'r\[\w\w\] = phi\[[^\]]*\]/(\w+);', body)
            m3 = re.search(r'compute_delj\(\s*d\w\s*,\s*MInt\s*,\s*VInt\s*,\s*\w+\s*,\s*delj\s*,\s*(\w+)\s*\)', body)
            if not (m1 and m2 and m3) or any(x != m1.group(1) for x in m2):
                raise TranslateError('%s: dt / delj switch usage' % name)
            beta = r['vargs'][2] if (r['vfunc'] == 'Vfunc_beta' and len(r['vargs']) > 2) else None
            grids = GRIDN[:d]
            for g in grids:
                if g not in cpar: raise TranslateError('%s: grid parameter %s' % (name, g))
            emit(name=name, d=d, ax=ax, pre=False, pyxParams=pn, pyxCall=cargs, pyxReturns=ret, cParams=cpar, phi='phi', grids=grids,
                 nu=r['nu'], mig=list(zip(r['migs'], r['coord_axes'])), gamma=r['gamma'], h=r['h'], beta=beta, dt=m1.group(1),
                 delj=m3.group(1), coef=[], dims=DIMN[:d])
    for d in (2, 3):
        cf = c_functions(os.path.join(REPO, 'dadi', 'integration%dD.c' % d))
        for ax in range(d):
            name = 'implicit_precalc_%dD%s' % (d, AXN[ax])
            if name not in cf or name not in pyx: raise TranslateError('%s not found' % name)
            args, body = cf[name]
            body1 = re.sub(r'\s+', ' ', _canon_names(body))
            cpar = [a[0] for a in args]
            pn, cname, cargs, ret = pyx[name]
            if cname != name: raise TranslateError('integration_c.pyx: %s calls %s' % (name, cname))
            mb = re.search(r'\bb\[\w\w\] = (\w+)\[[^\]]*\] \+ 1\.?/(\w+);', body1)
            mr = re.search(r'\br\[\w\w\] = 1\.?/(\w+) \* phi\[', body1)
            ma = re.search(r'\ba\[\w\w\] = (\w+)\[', body1); mc = re.search(r'\bc\[\w\w\] = (\w+)\[', body1)
            mt = re.search(r'tridiag_premalloc\(\s*(&?\w+)(?:\[[^\]]*\])?\s*,\s*b\s*,\s*(&?\w+)(?:\[[^\]]*\])?\s*,\s*r\s*,', body1)
            if not (mb and mr and mt) or mb.group(2) != mr.group(1):
                raise TranslateError('%s: body shape' % name)
            A = ma.group(1) if (ma and mt.group(1) == 'a') else (mt.group(1)[1:] if mt.group(1).startswith('&') else None)
            Cc = mc.group(1) if (mc and mt.group(2) == 'c') else (mt.group(2)[1:] if mt.group(2).startswith('&') else None)
            if A is None or Cc is None: raise TranslateError('%s: a/c arrays' % name)
            emit(name=name, d=d, ax=ax, pre=True, pyxParams=pn, pyxCall=cargs, pyxReturns=ret, cParams=cpar, phi='phi', grids=[],
                 nu='', mig=[], gamma='', h='', beta=None, dt=mb.group(2), delj='', coef=[A, mb.group(1), Cc], dims=DIMN[:d])
    tp = _pyx_wrappers(os.path.join(REPO, 'dadi', 'tridiag_cython.pyx'))
    tf_ = c_functions(os.path.join(REPO, 'dadi', 'tridiag.c'))
    if 'tridiag' not in tp or 'tridiag' not in tf_: raise TranslateError('tridiag wrapper')
    pn, cname, cargs, ret = tp['tridiag']
    emit(name='tridiag', d=1, ax=0, pre=True, pyxParams=pn, pyxCall=cargs, pyxReturns=ret, cParams=[a[0] for a in tf_['tridiag'][0]],
         phi='r', grids=[], nu='', mig=[], gamma='', h='', beta=None, dt='', delj='', coef=['a', 'b', 'c'], dims=['n'])
    return KERNEL_SIG_TYPE + '\ndef kernelSigs : List KernelSig := [\n' + ',\n'.join(items) + '\n]'

# ----------------------------------------------------------------------------------------
# Kernel programs: the BODIES of implicit_{d}D{x,y,z,a,b} and implicit_precalc_{d}D{x,y,z}, statement by statement.
#   A small C parser (declarations, expression statements, `for`, `if`, blocks) and a symbolic walk:
#     * every `for` variable is numbered by what it is — `.outer k`: the variable of the k-th loop of the (perfect) loop nest,
#       `.it`: the variable of a tabulation loop (a loop whose body only assigns array elements) — so renaming a loop variable
#       translates to the same program; a variable used outside its loop does not translate;
#     * local work arrays are named by what they hold (output position of `compute_dx` / `compute_dfactor` / `compute_xInt` /
#       `compute_delj` / `compute_abc_nobc` / the solver; `V[i] = Vfunc*(grid[i], …)` → V, `…(local[i], …)` → VInt,
#       `… = Mfunc*(…)` → MInt; anything else by the position at which the solver consumes it); scalar aliases of grid values
#       (`y = yy[jj]`) and `index = <flat index>` are substituted;
#     * every index of `phi` (and of the coefficient arrays of the precalc kernels) is expanded into a linear form
#       Σ loop variable · Π extent parameters; parameters stay NAMES (resolved against `kernelSigs` in Lean).
#   Anything outside this statement language is a TranslateError.
# ----------------------------------------------------------------------------------------
KERNEL_PROG_TYPE = '''/-! ### kernel programs (bodies of the C kernels translated statement by statement) -/
/-- an `int` expression used as loop bound / extent / constant index: literal, or an `int` parameter minus a literal -/
inductive KBound where
  | lit (n : Nat) | par (name : String) (minus : Nat)
deriving DecidableEq, Repr
/-- loop variables by what they are: variable of the k-th loop of the loop nest / variable of a tabulation loop -/
inductive KVar where
  | outer (level : Nat) | it
deriving DecidableEq, Repr
/-- index into a 1-D array -/
inductive KIx where
  | var (v : KVar) (plus : Nat) | bnd (b : KBound)
deriving DecidableEq, Repr
/-- one term of a flat index: loop variable times the product of the named extents -/
structure KTerm where
  var : KVar
  strides : List String
deriving DecidableEq, Repr
/-- a C parameter (by name) or a local (by what it holds) -/
inductive KRef where
  | par (name : String) | loc (role : String)
deriving DecidableEq, Repr
inductive KExpr where
  | num (n d : Nat) | sc (r : KRef) | arr (r : KRef) (ix : KIx) | flat (r : KRef) (idx : List KTerm)
  | neg (e : KExpr) | add (a b : KExpr) | sub (a b : KExpr) | mul (a b : KExpr) | div (a b : KExpr)
deriving DecidableEq, Repr
/-- argument of a procedure call: array, `&array[flat index]`, extent, value -/
inductive KArg where
  | ptr (r : KRef) | addr (r : KRef) (idx : List KTerm) | ext (b : KBound) | val (e : KExpr)
deriving DecidableEq, Repr
inductive KCmp where
  | eq (e : KExpr) (n : Nat) | le0 (e : KExpr) | ge0 (e : KExpr)
deriving DecidableEq, Repr
inductive KStmt where
  | proc (fn : String) (args : List KArg)                                        -- compute_dx(xx, L, dx); tridiag_premalloc(…)
  | setSc (role : String) (fn : String) (args : List KExpr)                      -- Mfirst = Mfunc3D(…)
  | tab (role : String) (lo hi : KBound) (fn : Option String) (args : List KExpr) -- for(v=lo; v<hi; v++) role[v] = fn(args) | = args[0]
  | store (lo hi : KBound) (r : KRef) (idx : List KTerm) (e : KExpr)             -- for(v=lo; v<hi; v++) r[idx] = e
  | bc (cond : List KCmp) (role : String) (ix : KIx) (e : KExpr)                 -- if(cond) role[ix] += e
deriving DecidableEq, Repr
structure KernelProg where
  name : String
  d : Nat
  ax : Nat
  pre : Bool
  allocs : List (String × KBound)      -- local work array (by role) ↦ allocated length
  nest : List (KBound × KBound)        -- the loop nest, outermost first: `for(v = lo; v < hi; v++)`
  stmts : List KStmt                   -- all other statements in source order
deriving DecidableEq, Repr'''

_C_TOK = re.compile(r'\s*(?:(\d+\.\d*(?:[eE][-+]?\d+)?|\.\d+|\d+)|([A-Za-z_]\w*)|(\+\+|--|\+=|-=|\*=|/=|==|!=|<=|>=|&&|\|\||[-+*/=<>!&(){}\[\],;]))')

def _c_tokens(text):
    toks = []; i = 0; n = len(text)
    while i < n:
        m = _C_TOK.match(text, i)
        if not m:
            if text[i:].strip() == '': break
            raise TranslateError('C token at %r' % text[i:i+20])
        if m.group(1) is not None: toks.append(('num', m.group(1)))
        elif m.group(2) is not None: toks.append(('id', m.group(2)))
        else: toks.append(('op', m.group(3)))
        i = m.end()
    return toks

class _CParser:
    """statements: ('decl', ctype, [(name, isptr, init)]) | ('expr', e) | ('for', init, cond, step, body) | ('if', cond, body) | ('block', [s])
       expressions: ('num', text) | ('id', n) | ('idx', base, i) | ('call', fn, [args]) | ('un', op, e) | ('bin', op, l, r)
                    | ('assign', op, lhs, rhs) | ('inc', e) | ('sizeof', text)"""
    TYPES = ('int', 'double')
    def __init__(self, text, where):
        self.t = _c_tokens(text); self.i = 0; self.where = where
    def err(self, what):
        ctx = ' '.join(x[1] for x in self.t[max(0, self.i-4):self.i+6])
        raise TranslateError('%s: %s near `%s`' % (self.where, what, ctx))
    def peek(self, k=0):
        return self.t[self.i+k] if self.i+k < len(self.t) else ('eof', '')
    def next(self):
        tk = self.peek(); self.i += 1; return tk
    def accept(self, v):
        if self.peek() == ('op', v): self.i += 1; return True
        return False
    def expect(self, v):
        if not self.accept(v): self.err('expected `%s`' % v)
    def body(self):
        out = []
        while self.peek()[0] != 'eof':
            out.append(self.stmt())
        return out
    def stmt(self):
        k, v = self.peek()
        if (k, v) == ('op', '{'):
            self.next(); out = []
            while not self.accept('}'):
                if self.peek()[0] == 'eof': self.err('unterminated block')
                out.append(self.stmt())
            return ('block', out)
        if k == 'id' and v in self.TYPES:
            self.next(); items = []
            while True:
                isptr = self.accept('*')
                kk, name = self.next()
                if kk != 'id': self.err('declarator')
                init = None
                if self.accept('='): init = self.expr(1)
                items.append((name, isptr, init))
                if self.accept(','): continue
                self.expect(';'); break
            return ('decl', v, items)
        if k == 'id' and v == 'for':
            self.next(); self.expect('(')
            init = self.expr(); self.expect(';'); cond = self.expr(); self.expect(';'); step = self.expr(); self.expect(')')
            return ('for', init, cond, step, self.stmt())
        if k == 'id' and v == 'if':
            self.next(); self.expect('('); cond = self.expr(); self.expect(')')
            body = self.stmt()
            if self.peek() == ('id', 'else'): self.err('`else` is outside the kernel statement language')
            return ('if', cond, body)
        if k == 'id' and v in ('while', 'do', 'switch', 'goto', 'break', 'continue', 'return', 'else'):
            self.err('`%s` is outside the kernel statement language' % v)
        e = self.expr(); self.expect(';')
        return ('expr', e)
    PREC = [('||',), ('&&',), ('==', '!='), ('<', '<=', '>', '>='), ('+', '-'), ('*', '/')]
    def expr(self, lvl=0):
        if lvl == 0:
            lhs = self.expr(1)
            k, v = self.peek()
            if k == 'op' and v in ('=', '+=', '-=', '*=', '/='):
                self.next(); rhs = self.expr(0)
                return ('assign', v, lhs, rhs)
            return lhs
        if lvl - 1 < len(self.PREC):
            ops = self.PREC[lvl - 1]
            l = self.expr(lvl + 1)
            while self.peek()[0] == 'op' and self.peek()[1] in ops:
                op = self.next()[1]; r = self.expr(lvl + 1)
                l = ('bin', op, l, r)
            return l
        return self.unary()
    def unary(self):
        k, v = self.peek()
        if k == 'op' and v in ('-', '+', '!', '&', '*'):
            self.next(); return ('un', v, self.unary())
        if k == 'op' and v in ('++', '--'):
            self.next(); e = self.unary()
            if v == '--': self.err('decrement')
            return ('inc', e)
        return self.postfix()
    def postfix(self):
        k, v = self.next()
        if k == 'num': e = ('num', v)
        elif k == 'id' and v == 'sizeof':
            self.expect('('); depth = 1; txt = []
            while depth:
                kk, vv = self.next()
                if kk == 'eof': self.err('sizeof')
                if (kk, vv) == ('op', '('): depth += 1
                if (kk, vv) == ('op', ')'): depth -= 1
                if depth: txt.append(vv)
            e = ('sizeof', ''.join(txt))
        elif k == 'id': e = ('id', v)
        elif (k, v) == ('op', '('):
            e = self.expr(); self.expect(')')
        else:
            self.i -= 1; self.err('expression')
        while True:
            if self.accept('['):
                i = self.expr(); self.expect(']'); e = ('idx', e, i)
            elif self.peek() == ('op', '(') and e[0] == 'id':
                self.next(); args = []
                if not self.accept(')'):
                    while True:
                        args.append(self.expr(1))
                        if self.accept(','): continue
                        self.expect(')'); break
                e = ('call', e[1], args)
            elif self.accept('++'):
                e = ('inc', e)
            elif self.peek() == ('op', '--'):
                self.err('decrement')
            else:
                return e

def _c_show(e):
    k = e[0]
    if k in ('num', 'id'): return e[1]
    if k == 'idx': return '%s[%s]' % (_c_show(e[1]), _c_show(e[2]))
    if k == 'call': return '%s(%s)' % (e[1], ', '.join(_c_show(a) for a in e[2]))
    if k == 'un': return '%s%s' % (e[1], _c_show(e[2]))
    if k == 'bin': return '(%s %s %s)' % (_c_show(e[2]), e[1], _c_show(e[3]))
    if k == 'assign': return '%s %s %s' % (_c_show(e[2]), e[1], _c_show(e[3]))
    if k == 'inc': return '%s++' % _c_show(e[1])
    if k == 'sizeof': return 'sizeof(%s)' % e[1]
    return repr(e)

# procedures of the statement language: name -> list of (kind, role) per argument; kind in/out/ext/val
_K_PROCS = {
    'compute_dx': [('in', None), ('ext', None), ('out', 'dx')],
    'compute_dfactor': [('in', None), ('ext', None), ('out', 'dfactor')],
    'compute_xInt': [('in', None), ('ext', None), ('out', 'xInt')],
    'compute_delj': [('in', None), ('in', None), ('in', None), ('ext', None), ('out', 'delj'), ('val', None)],
    'compute_abc_nobc': [('in', None)] * 5 + [('val', None), ('ext', None), ('out', 'a'), ('out', 'b'), ('out', 'c')],
    'tridiag_premalloc': [('use', 'a'), ('use', 'b'), ('use', 'c'), ('use', 'r'), ('out', 'sol'), ('ext', None)],
    'tridiag': [('use', 'a'), ('use', 'b'), ('use', 'c'), ('use', 'r'), ('out', 'sol'), ('ext', None)],
    'tridiag_malloc': [('ext', None)],
}
_K_VFUNCS = ('Vfunc', 'Vfunc_beta')

class _KernelTr:
    def __init__(self, name, d, ax, pre, args, body, where):
        self.name, self.d, self.ax, self.pre, self.where = name, d, ax, pre, where
        self.ptr = [a[0] for a in args if a[1]]                       # double* parameters
        self.dbl = [a[0] for a in args if not a[1] and a[2] == 'double']
        self.int = [a[0] for a in args if not a[1] and a[2] == 'int']
        if len(self.ptr) + len(self.dbl) + len(self.int) != len(args):
            raise TranslateError('%s: parameter types' % where)
        self.ast = _CParser(body, where).body()
        self.ivars = set(); self.dlocals = set(); self.arrays = {}     # local int / double scalars / arrays (name -> alloc bound)
        self.alias = {}                                                # scalar local -> KExpr text (grid value) ; int local -> flat index
        self.scrole = {}                                               # scalar local -> role
        self.role = {}                                                 # local array -> role
        self.pending = []                                              # tabs whose target has no role yet
        self.scope = []                                                # [(cname, leanvar)]
        self.nest = []; self.stmts = []; self.nest_done = False
        self.defined = set()

    def err(self, what, node=None):
        raise TranslateError('%s: %s%s' % (self.where, what, (': `%s`' % _c_show(node)) if node is not None else ''))

    # ---- integers
    def bound(self, e):
        if e[0] == 'num' and re.match(r'^\d+$', e[1]): return ('lit', int(e[1]))
        if e[0] == 'id' and e[1] in self.int: return ('par', e[1], 0)
        if e[0] == 'bin' and e[1] == '-' and e[2][0] == 'id' and e[2][1] in self.int and e[3][0] == 'num' and re.match(r'^\d+$', e[3][1]):
            return ('par', e[2][1], int(e[3][1]))
        self.err('integer expression outside the bound language (literal | int parameter [- literal])', e)
    def lvar(self, name, node):
        for cn, lv in reversed(self.scope):
            if cn == name: return lv
        if name in self.alias: return None
        if name in self.ivars: self.err('loop variable `%s` used outside its loop' % name, node)
        return None
    def linear(self, e):
        """flat index -> list of (leanvar, [extent names]); every monomial has exactly one loop variable and coefficient 1"""
        def mono(x):
            if x[0] == 'bin' and x[1] == '*': return mono(x[2]) + mono(x[3])
            if x[0] == 'id': return [x[1]]
            self.err('flat index: factor outside (loop variable | int parameter)', x)
        def terms(x):
            if x[0] == 'bin' and x[1] == '+': return terms(x[2]) + terms(x[3])
            if x[0] == 'id' and x[1] in self.alias and self.alias[x[1]][0] == 'flat': return list(self.alias[x[1]][1])
            fs = mono(x); vs = [f for f in fs if self.lvar(f, x) is not None]; ps = [f for f in fs if f in self.int]
            if len(vs) != 1 or len(vs) + len(ps) != len(fs): self.err('flat index: term is not (one loop variable) * (int parameters)', x)
            return [(self.lvar(vs[0], x), ps)]
        return terms(e)
    def ix(self, e):
        if e[0] == 'id' and self.lvar(e[1], e) is not None: return ('var', self.lvar(e[1], e), 0)
        if e[0] == 'bin' and e[1] == '+' and e[2][0] == 'id' and self.lvar(e[2][1], e) is not None and e[3][0] == 'num' and re.match(r'^\d+$', e[3][1]):
            return ('var', self.lvar(e[2][1], e), int(e[3][1]))
        return ('bnd', self.bound(e))

    # ---- references / expressions
    def ref(self, name, node, reading=True):
        if name in self.ptr: return ('par', name)
        if name in self.arrays:
            if reading and name not in self.defined: self.err('work array `%s` read before it is filled' % name, node)
            return ('locname', name)
        self.err('`%s` is not an array' % name, node)
    def is_int(self, e):
        return (e[0] == 'num' and re.match(r'^\d+$', e[1]) is not None) or (e[0] == 'id' and (e[1] in self.int or e[1] in self.ivars))
    def expr(self, e):
        k = e[0]
        if k == 'num':
            fr = Fraction(e[1] + '0' if e[1].endswith('.') else e[1])
            return ('num', fr.numerator, fr.denominator)
        if k == 'id':
            n = e[1]
            if n in self.dbl: return ('sc', ('par', n))
            if n in self.int: return ('sc', ('par', n))        # an int switch passed on as a value (use_delj_trick)
            if n in self.alias and self.alias[n][0] == 'expr': return self.alias[n][1]
            if n in self.scrole: return ('sc', ('loc', self.scrole[n]))
            if n in self.dlocals: self.err('scalar `%s` read before it is assigned' % n, e)
            self.err('name `%s` in a value expression' % n, e)
        if k == 'idx':
            if e[1][0] != 'id': self.err('indexed expression', e)
            r = self.ref(e[1][1], e)
            i = e[2]
            simple = (i[0] == 'num') or (i[0] == 'id' and (self.lvar(i[1], e) is not None or i[1] in self.int)) or \
                     (i[0] == 'bin' and i[1] in '+-' and i[3][0] == 'num' and i[2][0] == 'id')
            if i[0] == 'id' and i[1] in self.alias and self.alias[i[1]][0] == 'flat': simple = False
            if simple: return ('arr', r, self.ix(i))
            return ('flat', r, self.linear(i))
        if k == 'un' and e[1] == '-': return ('neg', self.expr(e[2]))
        if k == 'un' and e[1] == '+': return self.expr(e[2])
        if k == 'bin' and e[1] in '+-*/':
            if e[1] == '/' and self.is_int(e[2]) and self.is_int(e[3]): self.err('integer division', e)
            return ({'+': 'add', '-': 'sub', '*': 'mul', '/': 'div'}[e[1]], self.expr(e[2]), self.expr(e[3]))
        self.err('expression outside the kernel expression language', e)
    def cond(self, e):
        if e[0] == 'bin' and e[1] == '&&': return self.cond(e[2]) + self.cond(e[3])
        if e[0] == 'bin' and e[1] in ('==', '<=', '>=') and e[3][0] == 'num' and re.match(r'^\d+$', e[3][1]):
            v = int(e[3][1]); x = self.expr(e[2])
            if e[1] == '==': return [('eq', x, v)]
            if v == 0: return [('le0', x) if e[1] == '<=' else ('ge0', x)]
        self.err('condition outside (e == literal | e <= 0 | e >= 0) && …', e)

    # ---- statements
    def set_role(self, name, role, node):
        old = self.role.get(name)
        if old is not None and old != role: self.err('local array `%s` re-used (holds %s, now %s)' % (name, old, role), node)
        for n2, r2 in self.role.items():
            if r2 == role and n2 != name: self.err('two local arrays hold %s (`%s`, `%s`)' % (role, n2, name), node)
        self.role[name] = role
    def call_stmt(self, e):
        fn, args = e[1], e[2]
        if fn == 'free':
            if len(args) != 1 or args[0][0] != 'id' or args[0][1] not in self.arrays: self.err('free of something that is not a local array', e)
            return
        if fn == 'tridiag_free':
            if args: self.err('arguments', e)
            return
        sig = _K_PROCS.get(fn)
        if sig is None: self.err('call of `%s` is outside the kernel statement language' % fn, e)
        if len(sig) != len(args): self.err('number of arguments', e)
        out = []; outs = []
        for (kind, role), a in zip(sig, args):
            if kind == 'ext': out.append(('ext', self.bound(a)))
            elif kind == 'val': out.append(('val', self.expr(a)))
            else:
                if a[0] == 'id':
                    if a[1] in self.ptr: out.append(('addr', ('par', a[1]), []) if kind == 'out' else ('ptr', ('par', a[1])))
                    elif a[1] in self.arrays:
                        if kind == 'out': self.set_role(a[1], role, e); outs.append(a[1])
                        elif kind == 'use':
                            if a[1] not in self.role: self.set_role(a[1], role, e)
                            if a[1] not in self.defined: self.err('work array `%s` used before it is filled' % a[1], e)
                        elif a[1] not in self.defined: self.err('work array `%s` used before it is filled' % a[1], e)
                        out.append(('ptr', ('locname', a[1])))
                    else: self.err('array argument', a)
                elif a[0] == 'un' and a[1] == '&' and a[2][0] == 'idx' and a[2][1][0] == 'id' and a[2][1][1] in self.ptr:
                    out.append(('addr', ('par', a[2][1][1]), self.linear(a[2][2])))
                else: self.err('array argument', a)
        for n in outs: self.defined.add(n)
        self.stmts.append(('proc', fn, out))
    def assign_stmt(self, e, tabvar=None):
        op, lhs, rhs = e[1], e[2], e[3]
        if lhs[0] == 'id':
            n = lhs[1]
            if op != '=': self.err('compound assignment to a scalar', e)
            if n in self.ivars and n not in [c for c, _ in self.scope]:
                if n in self.alias: self.err('`%s` assigned twice' % n, e)
                self.alias[n] = ('flat', self.linear(rhs)); return
            if n not in self.dlocals: self.err('assignment to `%s`' % n, e)
            if n in self.alias or n in self.scrole: self.err('scalar `%s` assigned twice' % n, e)
            if rhs[0] == 'call':
                if not re.match(r'^Mfunc\dD$', rhs[1]): self.err('scalar assigned from a call of `%s`' % rhs[1], e)
                args = [self.expr(a) for a in rhs[2]]
                first = args[0] if args else None
                role = 'Mfirst' if (first is not None and first[0] == 'arr' and first[2] == ('bnd', ('lit', 0))) else 'Mlast'
                if role in self.scrole.values(): self.err('two scalars hold %s' % role, e)
                self.scrole[n] = role
                self.stmts.append(('setSc', role, rhs[1], args)); return
            x = self.expr(rhs)
            if x[0] != 'arr' or x[1][0] != 'par': self.err('scalar alias of something that is not a grid value', e)
            self.alias[n] = ('expr', x); return
        if lhs[0] == 'idx' and lhs[1][0] == 'id':
            n = lhs[1][1]
            if n in self.arrays:
                ixx = self.ix(lhs[2])
                if op == '+=':
                    self.err('`+=` on a work array outside an `if`', e)
                if op != '=': self.err('assignment operator', e)
                if tabvar is None or ixx != ('var', 'it', 0): self.err('work array element assigned outside a tabulation loop over that index', e)
                if rhs[0] == 'call':
                    fn = rhs[1]; args = [self.expr(a) for a in rhs[2]]
                    if fn in _K_VFUNCS:
                        first = args[0] if args else None
                        role = 'V' if (first is not None and first[0] == 'arr' and first[1][0] == 'par') else 'VInt'
                    elif re.match(r'^Mfunc\dD$', fn): role = 'MInt'
                    else: self.err('call of `%s` is outside the kernel statement language' % fn, e)
                    self.set_role(n, role, e)
                    return ('tab', n, fn, args)
                return ('tab', n, None, [self.expr(rhs)])
            if n in self.ptr:
                if op != '=' or tabvar is None: self.err('store into a parameter array outside a loop', e)
                i = lhs[2]
                idx = self.linear(i) if not (i[0] == 'id' and self.lvar(i[1], e) is not None) else [(self.lvar(i[1], e), [])]
                return ('store', ('par', n), idx, self.expr(rhs))
        self.err('assignment outside the kernel statement language', e)
    def loop_header(self, s):
        init, cond, step = s[1], s[2], s[3]
        if not (init[0] == 'assign' and init[1] == '=' and init[2][0] == 'id' and init[2][1] in self.ivars): self.err('`for` initialisation', init)
        v = init[2][1]
        if any(c == v for c, _ in self.scope): self.err('loop variable `%s` re-used inside its own loop' % v, init)
        if v in self.alias: self.err('`%s` is both an index alias and a loop variable' % v, init)
        if not (cond[0] == 'bin' and cond[1] == '<' and cond[2] == ('id', v)): self.err('`for` condition is not `%s < extent`' % v, cond)
        ok = (step == ('inc', ('id', v))) or (step[0] == 'assign' and step[1] == '+=' and step[2] == ('id', v) and step[3] == ('num', '1'))
        if not ok: self.err('`for` step is not `%s++`' % v, step)
        return v, self.bound(init[3]), self.bound(cond[3])
    def flat_body(self, s):
        return s[1] if s[0] == 'block' else [s]
    def is_tab(self, body):
        def simple(st):
            if st[0] != 'expr' or st[1][0] != 'assign': return False
            lhs = st[1][2]
            return lhs[0] == 'idx' or (lhs[0] == 'id' and lhs[1] in self.ivars)
        return len(body) > 0 and all(simple(st) for st in body)
    def for_stmt(self, s):
        v, lo, hi = self.loop_header(s)
        body = self.flat_body(s[4])
        if self.is_tab(body):
            self.scope.append((v, 'it'))
            saved = dict(self.alias)
            res = []
            for st in body:
                r = self.assign_stmt(st[1], tabvar=v)
                if r is not None: res.append(r)
            # an index alias (`index = …`) lives for one iteration of this loop only
            for k_ in [k_ for k_ in self.alias if k_ not in saved]: del self.alias[k_]
            self.scope.pop()
            for r in res:
                if r[0] == 'tab':
                    self.defined.add(r[1]); self.stmts.append(('tab', r[1], lo, hi, r[2], r[3]))
                else:
                    self.stmts.append(('store', lo, hi, r[1], r[2], r[3]))
            return
        # a loop of the nest: must be perfectly nested, and there is only one nest
        if self.nest_done: self.err('a second loop nest', s[2])
        if any(lv == 'it' for _, lv in self.scope): self.err('loop nest inside a tabulation loop', s[2])
        level = len(self.nest)
        self.nest.append((lo, hi)); self.scope.append((v, ('outer', level)))
        inner = [st for st in body if st[0] == 'for' and not self.is_tab(self.flat_body(st[4]))]
        if inner:
            if len(body) != 1: self.err('loop nest is not perfect (statements next to an inner loop of the nest)', s[2])
            self.for_stmt(body[0])
        else:
            for st in body: self.stmt(st)
            self.nest_done = True
        self.scope.pop()
    def if_stmt(self, s):
        body = self.flat_body(s[2])
        if len(body) != 1 or body[0][0] != 'expr' or body[0][1][0] != 'assign' or body[0][1][1] != '+=': self.err('`if` body is not one `array[i] += e`', s[1])
        a = body[0][1]; lhs = a[2]
        if not (lhs[0] == 'idx' and lhs[1][0] == 'id' and lhs[1][1] in self.arrays): self.err('`+=` target', a)
        n = lhs[1][1]
        if n not in self.defined: self.err('work array `%s` updated before it is filled' % n, a)
        self.stmts.append(('bc', self.cond(s[1]), n, self.ix(lhs[2]), self.expr(a[3])))
    def decl_stmt(self, s):
        for name, isptr, init in s[2]:
            if name in self.ptr + self.dbl + self.int or name in self.ivars or name in self.dlocals or name in self.arrays:
                self.err('`%s` declared twice / shadows a parameter' % name)
            if s[1] == 'int':
                if isptr or init is not None: self.err('int declaration with initialiser / pointer `%s`' % name)
                self.ivars.add(name)
            elif not isptr:
                if init is not None: self.err('double declaration with initialiser `%s`' % name)
                self.dlocals.add(name)
            else:
                ok = init is not None and init[0] == 'call' and init[1] == 'malloc' and len(init[2]) == 1 and init[2][0][0] == 'bin' and \
                     init[2][0][1] == '*' and init[2][0][3][0] == 'sizeof' and init[2][0][3][1] in ('*' + name, 'double')
                if not ok: self.err('array `%s` is not `malloc(extent * sizeof(*%s))`' % (name, name))
                self.arrays[name] = self.bound(init[2][0][2])
    def stmt(self, s):
        k = s[0]
        if self.nest_done and not self.scope and self.nest:
            # after the loop nest only the release of the work arrays
            if not (k == 'expr' and s[1][0] == 'call' and s[1][1] in ('free', 'tridiag_free')):
                self.err('statement after the loop nest', s[1] if len(s) > 1 and isinstance(s[1], tuple) else None)
        if k == 'decl':
            if self.scope: self.err('declaration inside a loop')
            return self.decl_stmt(s)
        if k == 'block':
            for st in s[1]: self.stmt(st)
            return
        if k == 'for': return self.for_stmt(s)
        if k == 'if': return self.if_stmt(s)
        if k == 'expr':
            e = s[1]
            if e[0] == 'call': return self.call_stmt(e)
            if e[0] == 'assign':
                r = self.assign_stmt(e)
                if r is not None: self.err('array element assigned outside a tabulation loop', e)
                return
        self.err('statement outside the kernel statement language', s[1] if len(s) > 1 and isinstance(s[1], tuple) else None)

    def run(self):
        for s in self.ast: self.stmt(s)
        for n in self.arrays:
            if n in self.defined and n not in self.role: self.err('local array `%s` is filled but never handed to the solver' % n)
        return self

    # ---- emission
    def L_bound(self, b):
        return '(.lit %d)' % b[1] if b[0] == 'lit' else '(.par %s %d)' % (lstr(b[1]), b[2])
    def L_var(self, v):
        return '.it' if v == 'it' else '(.outer %d)' % v[1]
    def L_ix(self, i):
        return '(.var %s %d)' % (self.L_var(i[1]), i[2]) if i[0] == 'var' else '(.bnd %s)' % self.L_bound(i[1])
    def L_idx(self, t):
        return llist('⟨%s, %s⟩' % (self.L_var(v), llist(map(lstr, ps))) for v, ps in t)
    def L_ref(self, r):
        if r[0] == 'par': return '(.par %s)' % lstr(r[1])
        if r[0] == 'loc': return '(.loc %s)' % lstr(r[1])
        role = self.role.get(r[1])
        if role is None: self.err('local array `%s` has no role' % r[1])
        return '(.loc %s)' % lstr(role)
    def L_expr(self, e):
        k = e[0]
        if k == 'num': return '(.num %d %d)' % (e[1], e[2])
        if k == 'sc': return '(.sc %s)' % self.L_ref(e[1])
        if k == 'arr': return '(.arr %s %s)' % (self.L_ref(e[1]), self.L_ix(e[2]))
        if k == 'flat': return '(.flat %s %s)' % (self.L_ref(e[1]), self.L_idx(e[2]))
        if k == 'neg': return '(.neg %s)' % self.L_expr(e[1])
        return '(.%s %s %s)' % (k, self.L_expr(e[1]), self.L_expr(e[2]))
    def L_arg(self, a):
        if a[0] == 'ptr': return '(.ptr %s)' % self.L_ref(a[1])
        if a[0] == 'addr': return '(.addr %s %s)' % (self.L_ref(a[1]), self.L_idx(a[2]))
        if a[0] == 'ext': return '(.ext %s)' % self.L_bound(a[1])
        return '(.val %s)' % self.L_expr(a[1])
    def L_cmp(self, c):
        return '(.eq %s %d)' % (self.L_expr(c[1]), c[2]) if c[0] == 'eq' else '(.%s %s)' % (c[0], self.L_expr(c[1]))
    def L_stmt(self, s):
        k = s[0]
        if k == 'proc': return '.proc %s %s' % (lstr(s[1]), llist(map(self.L_arg, s[2])))
        if k == 'setSc': return '.setSc %s %s %s' % (lstr(s[1]), lstr(s[2]), llist(map(self.L_expr, s[3])))
        if k == 'tab':
            return '.tab %s %s %s %s %s' % (lstr(self.role[s[1]]), self.L_bound(s[2]), self.L_bound(s[3]),
                                            ('(some %s)' % lstr(s[4])) if s[4] else 'none', llist(map(self.L_expr, s[5])))
        if k == 'store': return '.store %s %s %s %s %s' % (self.L_bound(s[1]), self.L_bound(s[2]), self.L_ref(s[3]), self.L_idx(s[4]), self.L_expr(s[5]))
        if k == 'bc': return '.bc %s %s %s %s' % (llist(map(self.L_cmp, s[1])), lstr(self.role[s[2]]), self.L_ix(s[3]), self.L_expr(s[4]))
        raise TranslateError('emit %r' % (s,))
    def lean(self):
        allocs = llist('(%s, %s)' % (lstr(self.role[n]), self.L_bound(b)) for n, b in self.arrays.items() if n in self.role)
        nest = llist('(%s, %s)' % (self.L_bound(lo), self.L_bound(hi)) for lo, hi in self.nest)
        return ('  { name := %s, d := %d, ax := %d, pre := %s,\n    allocs := %s,\n    nest := %s,\n    stmts := [\n      %s] }'
                % (lstr(self.name), self.d, self.ax, 'true' if self.pre else 'false', allocs, nest,
                   ',\n      '.join(self.L_stmt(s) for s in self.stmts)))

def gen_kernel_programs():
    items = []
    for pre, dims in ((False, range(1, 6)), (True, (2, 3))):
        for d in dims:
            path = os.path.join(REPO, 'dadi', 'integration%dD.c' % d)
            cf = c_functions(path)
            for ax in range(d):
                name = 'implicit_%s%dD%s' % ('precalc_' if pre else '', d, AXN[ax])
                if name not in cf: raise TranslateError('%s not found' % name)
                args, body = cf[name]
                items.append(_KernelTr(name, d, ax, pre, args, body, 'integration%dD.c %s' % (d, name)).run().lean())
    return KERNEL_PROG_TYPE + '\ndef kernelProgs : List KernelProg := [\n' + ',\n'.join(items) + '\n]'

# ----------------------------------------------------------------------------------------
# Driver programs: the time loops of one_pop … five_pops and _one/_two/_three_pops_const_params, statement by statement
# ----------------------------------------------------------------------------------------
PROG_TYPES = '''/-! ### driver programs (time loops translated statement by statement) -/
inductive Param where
  | nu (k : Nat) | gamma (k : Nat) | h (k : Nat) | m (k l : Nat) | theta0 | beta
deriving DecidableEq, Repr
inductive Flag where
  | frozen (k : Nat) | nomut (k : Nat)
deriving DecidableEq, Repr
inductive TVar where
  | cur | next | init
deriving DecidableEq, Repr
inductive DtVar where
  | dt | thisDt
deriving DecidableEq, Repr
/-- time arithmetic: `current_t`/`next_t`/`initial_t`, `dt`/`this_dt`, `T`, sums and differences -/
inductive TExp where
  | tv (v : TVar) | dtv (v : DtVar) | tEnd | add (a b : TExp) | sub (a b : TExp) | other (s : String)
deriving DecidableEq, Repr
/-- what a call argument denotes.  `slot p`: the local holding the current value of parameter p (evaluated from its function of
    time, or the constant itself in the constant-parameter drivers); `raw p`: the argument as passed by the caller (possibly a
    function); `coef w ax`: the pre-computed a/b/c (w = 0/1/2) array of axis ax; `bPlusInvDt`: `b + 1/this_dt`; `rhs`: `phi/this_dt` -/
inductive Arg where
  | slot (p : Param) | raw (p : Param) | dtv (v : DtVar) | grid | spacing | phi | flag (f : Flag) | delj
  | coef (w ax : Nat) | bPlusInvDt (ax : Nat) (v : DtVar) | rhs (v : DtVar) | lit (n : Int) | tEnd | tInit | other (s : String)
deriving DecidableEq, Repr
/-- one argument of a call: keyword (or positional), a scalar (singleton) or a Python list display -/
structure CallArg where
  kw : Option String
  isList : Bool
  vals : List Arg
deriving DecidableEq, Repr
inductive Stmt where
  | computeDt (calls : List (List CallArg))      -- dt = min(_compute_dt(…), …)
  | capDt (args : List TExp)                     -- this_dt = min(…)
  | setNext (e : TExp)                           -- next_t = …
  | eval (p : Param) (t : TExp)                  -- <local of p> = p_f(t)
  | check (what : String) (args : List Arg)      -- if numpy.any(numpy.<what>([…], 0)): raise
  | inject (dim : Nat) (args : List CallArg)     -- _inject_mutations_<dim>D(…)
  | kernel (guard : Option Arg) (fn : String) (args : List CallArg)   -- [if not <guard>:] phi = int_c.<fn>(…)
  | rhsDiv (v : DtVar)                           -- r = phi/this_dt
  | tridiag (args : List CallArg)                -- phi = tridiag.tridiag(a, b+1/this_dt, c, r)
  | advance (e : TExp)                           -- current_t = … / current_t += …
  | log                                          -- demes_hist.append(…)
deriving DecidableEq, Repr
inductive CmpOp where
  | lt | le | gt | ge | ne
deriving DecidableEq, Repr
structure LoopCond where
  lhs : TExp
  op : CmpOp
  rhs : TExp
deriving DecidableEq, Repr
structure DriverProgram where
  fn : String
  d : Nat
  const : Bool
  wraps : List Param            -- parameters turned into functions of time by `Misc.ensure_1arg_func`
  prologue : List Stmt          -- statements on tracked names between entry and the loop (evaluations at the start time, dt of the constant drivers)
  cond : LoopCond
  body : List Stmt
  returnsPhi : Bool
deriving DecidableEq, Repr
/-- the constant/time-dependent dispatch of `one_pop`/`two_pops`/`three_pops` -/
structure Dispatch where
  fn : String
  d : Nat
  vars : List Arg               -- `vars_to_check`
  callee : String
  args : List CallArg
deriving DecidableEq, Repr'''

def _lean_param(name, d):
    if d == 1:
        return {'nu': '(.nu 0)', 'gamma': '(.gamma 0)', 'h': '(.h 0)', 'theta0': '.theta0', 'beta': '.beta'}.get(name)
    mm = re.match(r'^(nu|gamma|h)(\d)$', name)
    if mm and 1 <= int(mm.group(2)) <= d: return '(.%s %d)' % (mm.group(1), int(mm.group(2)) - 1)
    mm = re.match(r'^m(\d)(\d)$', name)
    if mm and 1 <= int(mm.group(1)) <= d and 1 <= int(mm.group(2)) <= d and mm.group(1) != mm.group(2):
        return '(.m %d %d)' % (int(mm.group(1)) - 1, int(mm.group(2)) - 1)
    if name == 'theta0': return '.theta0'
    return None

def _lean_flag(name, d):
    if d == 1:
        return '(.frozen 0)' if name == 'frozen' else None
    mm = re.match(r'^(frozen|nomut)(\d)$', name)
    if mm and 1 <= int(mm.group(2)) <= d: return '(.%s %d)' % (mm.group(1), int(mm.group(2)) - 1)
    return None

class _DriverTr:
    """symbolic walk over one driver: every local the schedule reads is tracked; a statement that touches a tracked name and is not
    one of the forms of the driver language raises TranslateError"""
    def __init__(self, fn, d, const, src, path):
        self.fn = fn; self.d = d; self.const = const; self.src = src; self.path = path
        self.env = {}
        self.coefs = {}
        self.wraps = []
        for a in fn.args.args + fn.args.kwonlyargs:
            n = a.arg
            p = _lean_param(n, d); f = _lean_flag(n, d)
            if p: self.env[n] = ('raw', p)
            elif f: self.env[n] = ('flag', f)
            elif n == 'phi': self.env[n] = ('phi',)
            elif n == 'xx': self.env[n] = ('grid',)
            elif n == 'T': self.env[n] = ('tEnd',)
            elif n == 'initial_t': self.env[n] = ('tv', 'init')
            else: self.env[n] = ('ignored',)
        if const:
            pat = r'^[abc]$' if d == 1 else r'^[abc][xyz]$'
            for s in fn.body:
                if isinstance(s, ast.AugAssign) and isinstance(s.target, ast.Subscript) and isinstance(s.target.value, ast.Name) \
                   and re.match(pat, s.target.value.id):
                    nm = s.target.value.id
                    self.coefs[nm] = ('coef', 'abc'.index(nm[0]), 0 if d == 1 else 'xyz'.index(nm[1]))
    def err(self, node, what):
        raise TranslateError('%s (%s): %s: %s' % (self.fn.name, srcline(node, self.path), what,
                                                   re.sub(r'\s+', ' ', ast.get_source_segment(self.src, node) or '')[:90]))
    # ---- expressions
    def lookup(self, name):
        if name in self.env: return self.env[name]
        if name in self.coefs: return self.coefs[name]
        return None
    def texp(self, node):
        """-> (lean TExp, kind) with kind in 'time' | 'dur' | '?'"""
        if isinstance(node, ast.Name):
            v = self.lookup(node.id)
            if v is None: return '(.other %s)' % lstr(node.id), '?'
            if v[0] == 'tv': return '(.tv .%s)' % v[1], 'time'
            if v[0] == 'dtv': return '(.dtv .%s)' % v[1], 'dur'
            if v[0] == 'tEnd': return '.tEnd', 'time'
            return '(.other %s)' % lstr(node.id), '?'
        if isinstance(node, ast.BinOp) and isinstance(node.op, (ast.Add, ast.Sub)):
            a, ka = self.texp(node.left); b, kb = self.texp(node.right)
            add = isinstance(node.op, ast.Add)
            if add: k = 'time' if sorted([ka, kb]) == ['dur', 'time'] else ('dur' if ka == kb == 'dur' else '?')
            else: k = 'dur' if ka == kb and ka in ('time', 'dur') else ('time' if (ka, kb) == ('time', 'dur') else '?')
            return '(.%s %s %s)' % ('add' if add else 'sub', a, b), k
        return '(.other %s)' % lstr(ast.unparse(node)), '?'
    def arg(self, node):
        if isinstance(node, ast.Name):
            v = self.lookup(node.id)
            if v is None:
                if node.id == 'use_delj_trick': return '.delj'
                return '(.other %s)' % lstr(node.id)
            k = v[0]
            if k == 'raw': return '(.slot %s)' % v[1] if self.const else '(.raw %s)' % v[1]
            if k == 'val': return '(.slot %s)' % v[1]
            if k == 'flag': return '(.flag %s)' % v[1]
            if k == 'dtv': return '(.dtv .%s)' % v[1]
            if k == 'tv' and v[1] == 'init': return '.tInit'
            if k in ('grid', 'spacing', 'phi', 'tEnd'): return '.' + k
            if k == 'coef': return '(.coef %d %d)' % (v[1], v[2])
            if k == 'rhs': return '(.rhs .%s)' % v[1]
            if k == 'inval': self.err(node, 'local %s no longer holds the value it is used for' % node.id)
            return '(.other %s)' % lstr(node.id)
        if isinstance(node, ast.Constant) and isinstance(node.value, int) and not isinstance(node.value, bool):
            return '(.lit %d)' % node.value
        if isinstance(node, ast.BinOp) and isinstance(node.op, ast.Add) and isinstance(node.left, ast.Name):
            v = self.lookup(node.left.id); r = node.right
            if v and v[0] == 'coef' and isinstance(r, ast.BinOp) and isinstance(r.op, ast.Div) and isinstance(r.left, ast.Constant) \
               and r.left.value == 1 and isinstance(r.right, ast.Name):
                w = self.lookup(r.right.id)
                if w and w[0] == 'dtv' and v[1] == 1: return '(.bPlusInvDt %d .%s)' % (v[2], w[1])
        return '(.other %s)' % lstr(ast.unparse(node))
    def callargs(self, call):
        out = []
        for a in call.args:
            if isinstance(a, ast.Starred): self.err(call, 'starred argument')
            if isinstance(a, (ast.List, ast.Tuple)):
                out.append('⟨none, true, %s⟩' % llist(self.arg(e) for e in a.elts))
            else:
                out.append('⟨none, false, [%s]⟩' % self.arg(a))
        for k in call.keywords:
            if k.arg is None: self.err(call, '** argument')
            if isinstance(k.value, (ast.List, ast.Tuple)):
                out.append('⟨some %s, true, %s⟩' % (lstr(k.arg), llist(self.arg(e) for e in k.value.elts)))
            else:
                out.append('⟨some %s, false, [%s]⟩' % (lstr(k.arg), self.arg(k.value)))
        return llist(out)
    # ---- statements
    def is_doc(self, s):
        return isinstance(s, ast.Expr) and isinstance(s.value, ast.Constant) and isinstance(s.value.value, str)
    def assigned_names(self, s):
        names = set()
        for n in ast.walk(s):
            if isinstance(n, (ast.Assign, ast.AugAssign, ast.AnnAssign, ast.For, ast.NamedExpr, ast.withitem, ast.Delete)):
                tg = n.targets if isinstance(n, (ast.Assign, ast.Delete)) else [getattr(n, 'target', None) or getattr(n, 'optional_vars', None)]
                for t in tg:
                    if t is None: continue
                    for m in ast.walk(t):
                        if isinstance(m, ast.Name) and not (isinstance(t, (ast.Subscript, ast.Attribute))): names.add(m.id)
                        elif isinstance(m, ast.Name) and isinstance(t, (ast.Subscript, ast.Attribute)) and m is (t.value if hasattr(t, 'value') else None):
                            names.add(m.id)
            if isinstance(n, (ast.Import, ast.ImportFrom)):
                for al in n.names: names.add((al.asname or al.name).split('.')[0])
            if isinstance(n, (ast.FunctionDef, ast.ClassDef)): names.add(n.name)
        return names
    def bind_eval(self, target, call, stmts):
        """<target> = <p>_f(<time>)"""
        if not (isinstance(target, ast.Name) and isinstance(call, ast.Call) and isinstance(call.func, ast.Name)): return False
        f = self.lookup(call.func.id)
        if not (f and f[0] == 'fn'): return False
        if len(call.args) != 1 or call.keywords: self.err(call, 'parameter function called with other than one argument')
        p = f[1]
        old = self.lookup(target.id)
        if old is not None and old not in (('raw', p), ('val', p), ('inval',)):
            self.err(target, 'local %s is re-used for parameter %s' % (target.id, p))
        te, kind = self.texp(call.args[0])
        for n, v in list(self.env.items()):
            if n != target.id and v in (('raw', p), ('val', p)): self.env[n] = ('inval',)
        self.env[target.id] = ('val', p)
        stmts.append('.eval %s %s' % (p, te))
        return True
    def dt_calls(self, node):
        """`_compute_dt(…)` or `min(_compute_dt(…), …)` -> list of call-arg lists, else None"""
        if isinstance(node, ast.Call) and callee_name(node.func) == '_compute_dt':
            return [self.callargs(node)]
        if isinstance(node, ast.Call) and callee_name(node.func) in ('min', 'numpy.min') and not node.keywords:
            elts = node.args[0].elts if (len(node.args) == 1 and isinstance(node.args[0], (ast.List, ast.Tuple))) else node.args
            subs = [self.dt_calls(a) for a in elts]
            if subs and all(s is not None for s in subs): return [c for s in subs for c in s]
        return None
    def has_dt_call(self, node):
        return any(isinstance(n, ast.Call) and callee_name(n.func) == '_compute_dt' for n in ast.walk(node))
    def set_role(self, name, val, node):
        """a tracked role (dt, this_dt, next_t) lives in one local"""
        for n, v in list(self.env.items()):
            if v == val and n != name: self.env[n] = ('inval',)
        old = self.lookup(name)
        if old is not None and old not in (val, ('inval',)): self.err(node, 'local %s is re-used' % name)
        self.env[name] = val
    def schedule_stmt(self, s, stmts, in_loop):
        """one statement of the driver language; returns False if `s` is not one (caller decides)"""
        if isinstance(s, ast.Pass) or self.is_doc(s): return True
        # --- calls for effect
        if isinstance(s, ast.Expr) and isinstance(s.value, ast.Call):
            cn = callee_name(s.value.func) or ''
            m = re.match(r'^_inject_mutations_(\d)D$', cn)
            if m:
                stmts.append('.inject %s %s' % (m.group(1), self.callargs(s.value))); return True
            if cn == 'demes_hist.append':
                stmts.append('.log'); return True
            return False
        if isinstance(s, ast.AugAssign) and isinstance(s.target, ast.Name):
            v = self.lookup(s.target.id)
            if v == ('tv', 'cur') and isinstance(s.op, ast.Add):
                te, kind = self.texp(s.value)
                stmts.append('.advance (.add (.tv .cur) %s)' % te); return True
            return False
        if isinstance(s, ast.Assign):
            if len(s.targets) != 1: return False
            t = s.targets[0]; v = s.value
            # tuple of parameter evaluations
            if isinstance(t, ast.Tuple) and isinstance(v, ast.Tuple) and len(t.elts) == len(v.elts):
                tmp = []
                save = dict(self.env)
                if all(self.bind_eval(a, b, tmp) for a, b in zip(t.elts, v.elts)):
                    stmts.extend(tmp); return True
                self.env = save
                return False
            if not isinstance(t, ast.Name): return False
            if self.bind_eval(t, v, stmts): return True
            old = self.lookup(t.id)
            # time step
            if self.has_dt_call(v):
                calls = self.dt_calls(v)
                if calls is None: self.err(s, 'time step is not min(_compute_dt(…), …)')
                self.set_role(t.id, ('dtv', 'dt'), s)
                stmts.append('.computeDt %s' % llist(calls)); return True
            if old == ('tv', 'cur') or (old is not None and old[0] == 'tv' and old[1] == 'init' and False):
                te, kind = self.texp(v)
                stmts.append('.advance %s' % te); return True
            if isinstance(v, ast.Call) and callee_name(v.func) in ('min', 'numpy.minimum') and not v.keywords and v.args and in_loop:
                tes = [self.texp(a) for a in v.args]
                if all(k == 'dur' for _, k in tes):
                    self.set_role(t.id, ('dtv', 'thisDt'), s)
                    stmts.append('.capDt %s' % llist(x for x, _ in tes)); return True
                self.err(s, 'min over something else than durations')
            # kernels
            if isinstance(v, ast.Call):
                cn = callee_name(v.func) or ''
                if cn.startswith('int_c.'):
                    if old != ('phi',): self.err(s, 'kernel result not assigned to the density')
                    stmts.append('.kernel none %s %s' % (lstr(cn[6:]), self.callargs(v))); return True
                if cn == 'tridiag.tridiag':
                    if old != ('phi',): self.err(s, 'solver result not assigned to the density')
                    stmts.append('.tridiag %s' % self.callargs(v)); return True
                if re.match(r'^_inject_mutations_(\d)D$', cn) and old == ('phi',):
                    stmts.append('.inject %s %s' % (cn[18], self.callargs(v))); return True
            # r = phi/this_dt
            if isinstance(v, ast.BinOp) and isinstance(v.op, ast.Div) and isinstance(v.left, ast.Name) and self.lookup(v.left.id) == ('phi',) \
               and isinstance(v.right, ast.Name) and (self.lookup(v.right.id) or ('',))[0] == 'dtv' and in_loop:
                w = self.lookup(v.right.id)
                self.set_role(t.id, ('rhs', w[1]), s)
                stmts.append('.rhsDiv .%s' % w[1]); return True
            if in_loop:
                te, kind = self.texp(v)
                if kind == 'time':
                    self.set_role(t.id, ('tv', 'next'), s)
                    stmts.append('.setNext %s' % te); return True
                if kind == 'dur':
                    self.set_role(t.id, ('dtv', 'thisDt'), s)
                    stmts.append('.capDt [%s]' % te); return True
            return False
        if isinstance(s, ast.If) and not s.orelse:
            t = s.test
            # guarded kernel
            if isinstance(t, ast.UnaryOp) and isinstance(t.op, ast.Not) and isinstance(t.operand, ast.Name) and len(s.body) == 1:
                g = self.lookup(t.operand.id)
                tmp = []
                if g and g[0] == 'flag' and self.schedule_stmt(s.body[0], tmp, in_loop) and len(tmp) == 1 and tmp[0].startswith('.kernel none '):
                    stmts.append('.kernel (some (.flag %s)) ' % g[1] + tmp[0][len('.kernel none '):]); return True
                return False
            # raise-guards on the values
            if isinstance(t, ast.Call) and callee_name(t.func) == 'numpy.any' and len(t.args) == 1 and isinstance(t.args[0], ast.Call) \
               and len(s.body) == 1 and isinstance(s.body[0], ast.Raise):
                c = t.args[0]; cn = callee_name(c.func) or ''
                if cn in ('numpy.less', 'numpy.equal') and len(c.args) == 2 and isinstance(c.args[0], (ast.List, ast.Tuple)) \
                   and isinstance(c.args[1], ast.Constant) and c.args[1].value == 0:
                    stmts.append('.check %s %s' % (lstr(cn[6:]), llist(self.arg(e) for e in c.args[0].elts))); return True
            return False
        return False
    def prologue_stmt(self, s, stmts):
        if self.is_doc(s): return
        if self.schedule_stmt(s, stmts, False): return
        if isinstance(s, ast.Assign):
            tg = s.targets; v = s.value
            names = [t.id for t in tg if isinstance(t, ast.Name)]
            if len(names) == len(tg):
                src = self.lookup(v.id) if isinstance(v, ast.Name) else None
                # phi = phi.copy(); xx = numpy.ascontiguousarray(xx); yy = xx; current_t = initial_t
                if ast.unparse(s).replace(' ', '') in ('phi=phi.copy()', 'xx=numpy.ascontiguousarray(xx)'): return
                if src == ('grid',):
                    for n in names:
                        if self.lookup(n) not in (None, ('grid',)): self.err(s, 'grid alias overwrites %s' % n)
                        self.env[n] = ('grid',)
                    return
                if src == ('tv', 'init') and len(names) == 1:
                    self.set_role(names[0], ('tv', 'cur'), s); return
                if isinstance(v, ast.Call) and callee_name(v.func) == 'Misc.ensure_1arg_func' and len(v.args) == 1 and isinstance(v.args[0], ast.Name) and len(names) == 1:
                    r = self.lookup(v.args[0].id)
                    if r and r[0] == 'raw' and self.lookup(names[0]) is None:
                        self.env[names[0]] = ('fn', r[1]); self.wraps.append(r[1]); return
                    self.err(s, 'ensure_1arg_func of something else than a parameter')
                if isinstance(v, ast.Call) and callee_name(v.func) == 'numpy.diff' and len(v.args) == 1 and isinstance(v.args[0], ast.Name) \
                   and self.lookup(v.args[0].id) == ('grid',) and len(names) == 1 and self.lookup(names[0]) in (None, ('spacing',)):
                    self.env[names[0]] = ('spacing',); return
            if len(tg) == 1 and isinstance(tg[0], ast.Tuple) and isinstance(v, ast.Tuple) and len(tg[0].elts) == len(v.elts):
                for a, b in zip(tg[0].elts, v.elts):
                    self.prologue_stmt(ast.copy_location(ast.Assign(targets=[a], value=b), s), stmts)
                return
        if isinstance(s, ast.If) and isinstance(s.test, ast.Name) and s.test.id == 'cuda_enabled' and not s.orelse:
            return          # CUDA path: not modelled (cuda_enabled is False unless dadi.cuda_enabled(True) was called)
        touched = self.assigned_names(s) & (set(self.env) - set(n for n, v in self.env.items() if v == ('ignored',)))
        if touched:
            self.err(s, 'statement outside the driver language assigns %s' % ','.join(sorted(touched)))
    def run(self):
        body = self.fn.body
        loops = [i for i, s in enumerate(body) if isinstance(s, ast.While)]
        others = [n for s in body for n in ast.walk(s) if isinstance(n, (ast.While, ast.For, ast.AsyncFor))
                  and not (isinstance(n, ast.While) and n in body)]
        if len(loops) != 1:
            raise TranslateError('%s: expected exactly one top-level `while` time loop, found %d' % (self.fn.name, len(loops)))
        for n in others:
            if self.assigned_names(n) & set(k for k, v in self.env.items() if v != ('ignored',)):
                self.err(n, 'another loop assigns tracked names')
        li = loops[0]; loop = body[li]
        pro = []
        for s in body[:li]:
            self.prologue_stmt(s, pro)
        if loop.orelse: self.err(loop, 'while … else')
        t = loop.test
        ops = {ast.Lt: 'lt', ast.LtE: 'le', ast.Gt: 'gt', ast.GtE: 'ge', ast.NotEq: 'ne'}
        if not (isinstance(t, ast.Compare) and len(t.ops) == 1 and type(t.ops[0]) in ops):
            self.err(loop, 'loop condition')
        cond = '⟨%s, .%s, %s⟩' % (self.texp(t.left)[0], ops[type(t.ops[0])], self.texp(t.comparators[0])[0])
        bd = []
        for s in loop.body:
            if not self.schedule_stmt(s, bd, True):
                self.err(s, 'statement outside the driver language in the time loop')
        ret = False
        for s in body[li+1:]:
            if isinstance(s, ast.Return):
                ret = isinstance(s.value, ast.Name) and self.lookup(s.value.id) == ('phi',)
                if s is not body[-1]: self.err(s, 'statements after return')
            elif isinstance(s, ast.Expr) and isinstance(s.value, ast.Call) and (callee_name(s.value.func) or '') == 'Demes.cache.append':
                pass
            else:
                self.err(s, 'statement after the time loop')
        return ('  { fn := %s, d := %d, const := %s, wraps := %s,\n    prologue := %s,\n    cond := %s,\n    body := %s,\n    returnsPhi := %s }'
                % (lstr(self.fn.name), self.d, 'true' if self.const else 'false', llist(self.wraps),
                   '[' + ',\n      '.join(pro) + ']', cond, '[' + ',\n      '.join(bd) + ']', 'true' if ret else 'false'))

def gen_driver_programs(src, fns, path):
    out = [PROG_TYPES]
    drivers = [('one_pop', 1, False), ('two_pops', 2, False), ('three_pops', 3, False), ('four_pops', 4, False), ('five_pops', 5, False),
               ('_one_pop_const_params', 1, True), ('_two_pops_const_params', 2, True), ('_three_pops_const_params', 3, True)]
    progs = []
    for nm, d, const in drivers:
        fn = fns.get(nm)
        if fn is None: raise TranslateError(nm)
        progs.append(_DriverTr(fn, d, const, src, path).run())
    out.append('def driverPrograms : List DriverProgram := [\n' + ',\n'.join(progs) + '\n]')
    # signatures the calls are bound against (parameter NAMES of the callees, from the source)
    sigs = []
    for d in range(1, 6):
        fn = fns.get('_inject_mutations_%dD' % d)
        if fn is None: raise TranslateError('_inject_mutations_%dD' % d)
        if fn.args.vararg or fn.args.kwarg or fn.args.kwonlyargs: raise TranslateError('_inject_mutations_%dD: signature' % d)
        def meaning(n, d=d):
            if n == 'phi': return '.phi'
            if n == 'dt': return '(.dtv .dt)'
            if n in GRIDN[:d]: return '.grid'
            if n == 'theta0': return '(.slot .theta0)'
            f = _lean_flag(n, d) if d > 1 else None
            if f: return '(.flag %s)' % f
            return '(.other %s)' % lstr(n)
        sigs.append('  (%d, %s)' % (d, llist('(%s, %s)' % (lstr(a.arg), meaning(a.arg)) for a in fn.args.args)))
    out.append('/-- parameters of `_inject_mutations_<d>D`: name and what the name stands for inside the function (its guards `if not frozen<k>`\n'
               '    are in `injectTerms`) -/\ndef injectSigs : List (Nat × List (String × Arg)) := [\n' + ',\n'.join(sigs) + '\n]')
    fn = fns.get('_compute_dt')
    out.append('/-- parameter names of `_compute_dt` -/\ndef computeDtSig : List String := %s' % llist(lstr(a.arg) for a in fn.args.args))
    # dispatch to the constant-parameter drivers
    disp = []; csigs = []
    for nm, d, callee in (('one_pop', 1, '_one_pop_const_params'), ('two_pops', 2, '_two_pops_const_params'), ('three_pops', 3, '_three_pops_const_params')):
        fn = fns[nm]
        tr = _DriverTr(fn, d, False, src, path)
        vars_ = None; call = None
        for s in fn.body:
            if isinstance(s, ast.Assign) and len(s.targets) == 1 and isinstance(s.targets[0], ast.Name) and s.targets[0].id == 'vars_to_check' \
               and isinstance(s.value, (ast.List, ast.Tuple)):
                vars_ = [tr.arg(e) for e in s.value.elts]
            if isinstance(s, ast.If) and ast.unparse(s.test).replace(' ', '') == 'numpy.all([numpy.isscalar(var)forvarinvars_to_check])':
                rets = [n for n in ast.walk(s) if isinstance(n, ast.Return) and isinstance(n.value, ast.Call)]
                if len(rets) != 1 or callee_name(rets[0].value.func) != callee:
                    raise TranslateError('%s: dispatch to %s' % (nm, callee))
                call = rets[0].value
                # the only conditions allowed on the way are on the CUDA switch
                for n in ast.walk(s):
                    if isinstance(n, ast.If) and n is not s and not set(x.id for x in ast.walk(n.test) if isinstance(x, ast.Name)) <= {'cuda_enabled', 'enable_cuda_cached'}:
                        raise TranslateError('%s: condition inside the constant-parameter dispatch' % nm)
        if vars_ is None or call is None: raise TranslateError('%s: constant-parameter dispatch not found' % nm)
        disp.append('  { fn := %s, d := %d, vars := %s, callee := %s, args := %s }' % (lstr(nm), d, llist(vars_), lstr(callee), tr.callargs(call)))
        cf = fns[callee]
        ctr = _DriverTr(cf, d, False, src, path)      # meaning of each callee parameter: the same public names
        csigs.append('  (%s, %s)' % (lstr(callee), llist('(%s, %s)' % (lstr(a.arg), ctr.arg(ast.Name(id=a.arg))) for a in cf.args.args)))
    out.append('def dispatches : List Dispatch := [\n' + ',\n'.join(disp) + '\n]')
    out.append('/-- parameters of the constant-parameter drivers: name and what it stands for -/\n'
               'def constSigs : List (String × List (String × Arg)) := [\n' + ',\n'.join(csigs) + '\n]')
    # parameters behind the pre-computed coefficient arrays: which of the driver's arguments enter V and M of each axis
    pp = []
    for nm, d in (('_one_pop_const_params', 1), ('_two_pops_const_params', 2), ('_three_pops_const_params', 3)):
        fn = fns[nm]
        tr = _DriverTr(fn, d, True, src, path)
        for ax in range(d):
            a = '' if d == 1 else 'xyz'[ax]
            Vn = 'V' + a; Mn = 'M' + a
            vcall = mcall = None
            for s in fn.body:
                if isinstance(s, ast.Assign) and len(s.targets) == 1 and isinstance(s.targets[0], ast.Name) and isinstance(s.value, ast.Call):
                    if s.targets[0].id == Vn and callee_name(s.value.func) == '_Vfunc': vcall = s.value
                    if s.targets[0].id == Mn and callee_name(s.value.func) == '_Mfunc%dD' % d: mcall = s.value
            if vcall is None or mcall is None: raise TranslateError('%s: %s / %s' % (nm, Vn, Mn))
            if len(vcall.args) != 2: raise TranslateError('%s: %s arguments' % (nm, Vn))
            nu = tr.arg(vcall.args[1])
            beta = None
            for k in vcall.keywords:
                if k.arg == 'beta': beta = tr.arg(k.value)
                else: raise TranslateError('%s: %s keyword %s' % (nm, Vn, k.arg))
            if mcall.keywords or len(mcall.args) != 2 * d + 1 - 1 + 1 - 1 + 0 and len(mcall.args) != 2 * (d - 1) + 3:
                raise TranslateError('%s: %s arguments' % (nm, Mn))
            coords = mcall.args[1:d]; migs = mcall.args[d:2 * d - 1]; gam, hh = mcall.args[2 * d - 1], mcall.args[2 * d]
            pairs = []
            for cnode, mnode in zip(coords, migs):
                # the coordinate is `<grid>[nuax,…,:,…]`: the position of `:` is the axis it runs along
                if not (isinstance(cnode, ast.Subscript) and isinstance(cnode.value, ast.Name)):
                    raise TranslateError('%s: coordinate argument %s' % (nm, ast.unparse(cnode)))
                sl = cnode.slice.elts if isinstance(cnode.slice, ast.Tuple) else [cnode.slice]
                pos = [i for i, e in enumerate(sl) if isinstance(e, ast.Slice) and e.lower is None and e.upper is None and e.step is None]
                if len(sl) != d or len(pos) != 1 or not all(isinstance(e, ast.Name) and e.id == 'nuax' for i, e in enumerate(sl) if i != pos[0]):
                    raise TranslateError('%s: coordinate argument %s' % (nm, ast.unparse(cnode)))
                pairs.append('(%s, %d)' % (tr.arg(mnode), pos[0]))
            pp.append('  (%d, %d, %s, %s, %s, %s, %s)' % (d, ax, nu, llist(pairs), tr.arg(gam), tr.arg(hh), ('some %s' % beta) if beta else 'none'))
    out.append('/-- constant-parameter drivers: (d, axis, size, [(migration rate, coordinate axis it multiplies)], gamma, h, beta) entering the\n'
               '    pre-computed coefficients of that axis (arguments of `V<ax> = _Vfunc(…)`, `M<ax> = _Mfunc<d>D(…)`) -/\n'
               'def preParams : List (Nat × Nat × Arg × List (Arg × Nat) × Arg × Arg × Option Arg) := [\n' + ',\n'.join(pp) + '\n]')
    return '\n'.join(out)


GENERATORS = {'Coeffs': gen_coeffs}

def _discover():
    """tools/gen_<Name>.py modules: each defines NAME (= Lean file Generated/<NAME>.lean) and generate() -> str"""
    import importlib.util, glob
    here = os.path.dirname(os.path.abspath(__file__))
    for path in sorted(glob.glob(os.path.join(here, 'gen_*.py'))):
        modname = os.path.basename(path)[:-3]
        spec = importlib.util.spec_from_file_location(modname, path)
        mod = importlib.util.module_from_spec(spec)
        sys.modules.setdefault('translate', sys.modules[__name__])
        try:
            spec.loader.exec_module(mod)
            GENERATORS[mod.NAME] = mod.generate
        except Exception as e:      # a half-written generator of another property must not break this one
            sys.stderr.write('translate: skipping %s (%r)\n' % (modname, e))
_discover()

def _generate_from(repo, g):
    """run generator g against another tree (None if that fails too)"""
    global REPO
    saved = REPO
    REPO = repo
    try:
        return g()
    except Exception:
        return None
    finally:
        REPO = saved

def write_all(which=None, gen_dir=GEN_DIR):
    """returns dict name -> None (ok) or error string.  A failing generator leaves a stub file
    that defines `translateFailed_<name> : String` so that dependants fail to build loudly."""
    os.makedirs(gen_dir, exist_ok=True)
    res = {}
    for name, g in GENERATORS.items():
        if which and name not in which: continue
        path = os.path.join(gen_dir, name + '.lean')
        try:
            text = g(); res[name] = None
        except TranslateError as e:
            # The obligation "this source translates" is broken (reported upstream).  Keep the last good generated
            # file in place if there is one, so that the model still builds and the correspondence / failing-input
            # search can run; only if there is none write a stub that makes dependants fail loudly.
            res[name] = str(e)
            if name == 'Coeffs' and os.path.realpath(REPO) != os.path.realpath('/repo') and os.path.isdir('/repo/dadi'):
                # a trial against another tree (seeded change, patched copy): the file in place may stem from yet another tree (the
                # parallel seed runner re-uses its private copies) — fall back to the definitions of the pinned tree instead
                text = _generate_from('/repo', g)
                if text is not None:
                    old = open(path).read() if os.path.exists(path) else None
                    if old != text:
                        with open(path, 'w') as f: f.write(text)
                    continue
            if os.path.exists(path) and 'translateFailed_' not in open(path).read():
                continue
            text = HEADER + '/-- translation failed: %s -/\ndef translateFailed_%s : String := %s\nend DadiVerif\n' % (
                str(e).replace('-/', '- /'), name, json.dumps(str(e)))
        except Exception as e:
            res[name] = 'translator crashed: %r' % (e,)
            continue
        old = open(path).read() if os.path.exists(path) else None
        if old != text:
            with open(path, 'w') as f: f.write(text)
    return res

if __name__ == '__main__':
    r = write_all(sys.argv[1:] or None)
    print(json.dumps(r, indent=1))
    sys.exit(0 if all(v is None for v in r.values()) else 3)
