#!/venv/bin/python
"""T tie: regenerate lean/DadiVerif/Generated/*.lean from /repo's current source.

Only a *closed expression language* is translated (see DESIGN.md App. A): + - * / , integer
powers, exact decimal literals (read from source text, never through float), names,
constant subscripts, abs/min/max, comparisons, and/or/not, conditional expressions.
Anything else raises TranslateError: the caller treats that as "obligation cannot be stated"
(-> failing-input search), never as a guess.

Each generator returns Lean source text; `write_all()` writes a file only if its content
changed (so an unchanged tree is a no-op `lake build`).
"""
import ast, os, re, sys, json, hashlib
from fractions import Fraction

REPO = os.environ.get('DADI_REPO', '/repo')
GEN_DIR = os.path.join(os.path.dirname(os.path.abspath(__file__)), '..', 'lean', 'DadiVerif', 'Generated')

class TranslateError(Exception):
    pass

# ----------------------------------------------------------------------------------------
# expression translation
# ----------------------------------------------------------------------------------------
def lit(text):
    """exact rational for a numeric literal given as source text"""
    t = text.strip().rstrip('fFlL')
    try:
        fr = Fraction(t)
    except Exception:
        try:
            fr = Fraction(t + '0') if t.endswith('.') else None
        except Exception:
            fr = None
        if fr is None:
            raise TranslateError('literal %r' % text)
    if fr.denominator == 1:
        return '(%d : Rat)' % fr.numerator
    return '((%d : Rat) / %d)' % (fr.numerator, fr.denominator)

class Ctx:
    """names: python name -> lean term; funcs: python callee -> lean function name;
    subscript: callable(base_lean, index_node, ctx) -> lean"""
    def __init__(self, names=None, funcs=None, src=None, opaque=None, subscript=None, attr=None):
        self.names = dict(names or {})
        self.funcs = dict(funcs or {})
        self.src = src
        self.opaque = set(opaque or ())
        self.subscript = subscript
        self.attr = attr

def _src(node, ctx):
    if ctx.src is None:
        return None
    return ast.get_source_segment(ctx.src, node)

def callee_name(f):
    if isinstance(f, ast.Name):
        return f.id
    if isinstance(f, ast.Attribute):
        base = callee_name(f.value)
        return (base + '.' if base else '') + f.attr
    return None

def tr(node, ctx):
    if isinstance(node, ast.Expression):
        return tr(node.body, ctx)
    if isinstance(node, ast.BinOp):
        l, r = node.left, node.right
        if isinstance(node.op, ast.Pow):
            if isinstance(r, ast.Constant) and isinstance(r.value, (int, float)) and float(r.value).is_integer() and r.value >= 0:
                return '(%s ^ %d)' % (tr(l, ctx), int(r.value))
            raise TranslateError('non-literal power')
        ops = {ast.Add: '+', ast.Sub: '-', ast.Mult: '*', ast.Div: '/'}
        for k, v in ops.items():
            if isinstance(node.op, k):
                return '(%s %s %s)' % (tr(l, ctx), v, tr(r, ctx))
        raise TranslateError('operator %s' % type(node.op).__name__)
    if isinstance(node, ast.UnaryOp):
        if isinstance(node.op, ast.USub):
            return '(- %s)' % tr(node.operand, ctx)
        if isinstance(node.op, ast.UAdd):
            return tr(node.operand, ctx)
        if isinstance(node.op, ast.Not):
            return '(! %s)' % trb(node.operand, ctx)
        raise TranslateError('unary')
    if isinstance(node, ast.Constant):
        if isinstance(node.value, bool):
            return 'true' if node.value else 'false'
        if isinstance(node.value, (int, float)):
            s = _src(node, ctx)
            if s is None:
                s = repr(node.value)
            return lit(s)
        raise TranslateError('constant %r' % (node.value,))
    if isinstance(node, ast.Name):
        if node.id in ctx.names:
            return ctx.names[node.id]
        raise TranslateError('free name %s' % node.id)
    if isinstance(node, ast.Attribute):
        nm = callee_name(node)
        if nm in ctx.names:
            return ctx.names[nm]
        raise TranslateError('attribute %s' % nm)
    if isinstance(node, ast.Call):
        nm = callee_name(node.func)
        if node.keywords:
            raise TranslateError('keyword call %s' % nm)
        args = [tr(a, ctx) for a in node.args]
        if nm in ('abs', 'numpy.abs', 'np.abs', 'fabs'):
            return '(ratAbs %s)' % args[0]
        if nm in ('min', 'max') and len(args) >= 2:
            out = args[0]
            for a in args[1:]:
                out = '(%s %s %s)' % ('ratMin' if nm == 'min' else 'ratMax', out, a)
            return out
        if nm == 'pow' and len(node.args) == 2 and isinstance(node.args[1], ast.Constant):
            return '(%s ^ %d)' % (args[0], int(node.args[1].value))
        if nm in ctx.funcs:
            return '(%s %s)' % (ctx.funcs[nm], ' '.join(args))
        if nm in ctx.opaque:
            return '(%s %s)' % (nm.split('.')[-1], ' '.join(args))
        raise TranslateError('call %s' % nm)
    if isinstance(node, ast.Subscript):
        if ctx.subscript is not None:
            return ctx.subscript(node, ctx)
        raise TranslateError('subscript')
    if isinstance(node, ast.IfExp):
        return '(if %s then %s else %s)' % (trb(node.test, ctx), tr(node.body, ctx), tr(node.orelse, ctx))
    raise TranslateError('node %s' % type(node).__name__)

def trb(node, ctx):
    """boolean expression -> Lean Bool"""
    if isinstance(node, ast.BoolOp):
        op = ' && ' if isinstance(node.op, ast.And) else ' || '
        return '(' + op.join(trb(v, ctx) for v in node.values) + ')'
    if isinstance(node, ast.UnaryOp) and isinstance(node.op, ast.Not):
        return '(! %s)' % trb(node.operand, ctx)
    if isinstance(node, ast.Compare):
        parts = []
        left = node.left
        for op, right in zip(node.ops, node.comparators):
            m = {ast.Lt: '<', ast.LtE: '≤', ast.Gt: '>', ast.GtE: '≥', ast.Eq: '==', ast.NotEq: '!='}
            for k, v in m.items():
                if isinstance(op, k):
                    if v in ('==', '!='):
                        parts.append('(%s %s %s)' % (tr(left, ctx), v, tr(right, ctx)))
                    else:
                        parts.append('(decide (%s %s %s))' % (tr(left, ctx), v, tr(right, ctx)))
                    break
            else:
                raise TranslateError('comparison')
            left = right
        return '(' + ' && '.join(parts) + ')'
    if isinstance(node, ast.Name):
        if node.id in ctx.names:
            return ctx.names[node.id]
        raise TranslateError('free bool name %s' % node.id)
    if isinstance(node, ast.Constant) and isinstance(node.value, bool):
        return 'true' if node.value else 'false'
    raise TranslateError('bool node %s' % type(node).__name__)

def const_index_subscript(fmt='({base} {idx})', last=None):
    """xx[2] -> (xx 2); xx[-1] -> (xx (N-1)) if `last` given as lean term for N"""
    def f(node, ctx):
        base = tr(node.value, ctx)
        idx = node.slice
        if isinstance(idx, ast.Tuple):
            parts = []
            for e in idx.elts:
                parts.append(_const_idx(e, last))
            return '(%s %s)' % (base, ' '.join(parts))
        return '(%s %s)' % (base, _const_idx(idx, last))
    return f

def _const_idx(e, last):
    if isinstance(e, ast.Constant) and isinstance(e.value, int):
        return str(e.value)
    if isinstance(e, ast.UnaryOp) and isinstance(e.op, ast.USub) and isinstance(e.operand, ast.Constant):
        if last is None:
            raise TranslateError('negative index')
        return '(%s - %d)' % (last, e.operand.value)
    raise TranslateError('non-constant index')

# ----------------------------------------------------------------------------------------
# C helpers: the arithmetic expression syntax of C used in dadi is Python-compatible after
# trivial normalisation ("1." -> "1.0", "&&" -> "and", "||" -> "or", "!" -> "not").
# ----------------------------------------------------------------------------------------
def c_expr_to_ast(text):
    t = text.strip().rstrip(';')
    t = re.sub(r'(?<![\w.])(\d+)\.(?![\d\w])', r'\1.0', t)
    t = t.replace('&&', ' and ').replace('||', ' or ')
    t = re.sub(r'!(?!=)', ' not ', t)
    t = re.sub(r'\s+', ' ', t)
    try:
        return ast.parse(t, mode='eval'), t
    except SyntaxError as e:
        raise TranslateError('C expression %r: %s' % (text, e))

def c_functions(path):
    """map name -> (argnames, body text) for `double f(...){...}` / `void f(...){...}`"""
    src = open(path).read()
    src_nc = re.sub(r'/\*.*?\*/', '', src, flags=re.S)
    out = {}
    for m in re.finditer(r'\b(double|void|int)\s+(\w+)\s*\(([^)]*)\)\s*\{', src_nc):
        start = m.end()
        depth = 1; i = start
        while depth and i < len(src_nc):
            if src_nc[i] == '{': depth += 1
            elif src_nc[i] == '}': depth -= 1
            i += 1
        body = src_nc[start:i-1]
        args = []
        for a in m.group(3).split(','):
            a = a.strip()
            if not a: continue
            nm = re.sub(r'\[\]', '', a.split()[-1]).lstrip('*')
            args.append((nm, '*' in a or '[' in a, a.split()[0]))
        out[m.group(2)] = (args, body)
    return out

def c_return_expr(body):
    m = re.match(r'^\s*return\s+(.*?);\s*$', body, flags=re.S)
    if not m:
        raise TranslateError('not a single return')
    return m.group(1)

HEADER = '''/- GENERATED by tools/translate.py from /repo — do not edit.  Regenerated on every check. -/
import DadiVerif.Model.Prelude
set_option linter.unusedVariables false
namespace DadiVerif
'''

def py_functions(path):
    src = open(path).read()
    tree = ast.parse(src)
    fns = {}
    for n in ast.walk(tree):
        if isinstance(n, (ast.FunctionDef,)):
            fns.setdefault(n.name, n)
    return src, tree, fns

def single_return(fn):
    body = [s for s in fn.body if not (isinstance(s, ast.Expr) and isinstance(s.value, ast.Constant))]
    if len(body) == 1 and isinstance(body[0], ast.Return):
        return body[0].value
    raise TranslateError('%s is not a single return' % fn.name)

def srcline(node, path):
    return '%s:%d' % (os.path.relpath(path, REPO), node.lineno)

# ----------------------------------------------------------------------------------------
# Generated/Coeffs.lean : coefficient functions, a/b/c assembly, boundary terms, injection, dt
# ----------------------------------------------------------------------------------------
def gen_coeffs():
    out = [HEADER, 'namespace Gen']
    # ---- C side
    shared = os.path.join(REPO, 'dadi', 'integration_shared.c')
    cf = c_functions(shared)
    out.append('namespace C')
    for name in ['Vfunc', 'Vfunc_beta', 'Mfunc1D', 'Mfunc2D', 'Mfunc3D', 'Mfunc4D', 'Mfunc5D']:
        if name not in cf:
            raise TranslateError('C function %s not found' % name)
        args, body = cf[name]
        e, t = c_expr_to_ast(c_return_expr(body))
        ctx = Ctx(names={a[0]: a[0] + '_' if a[0] in ('a', 'b', 'h') and False else a[0] for a in args}, src=t)
        out.append('/-- integration_shared.c `%s`: return %s -/' % (name, t))
        out.append('def %s (%s : Rat) : Rat := %s' % (name, ' '.join(a[0] for a in args), tr(e, ctx)))
    # compute_abc_nobc: atemp, ctemp and the four updates
    args, body = cf['compute_abc_nobc']
    m_at = re.search(r'atemp\s*=\s*(.*?);', body); m_ct = re.search(r'ctemp\s*=\s*(.*?);', body)
    if not (m_at and m_ct):
        raise TranslateError('atemp/ctemp not found')
    def sub(node, ctx):
        # arrays indexed by ii / ii+1 : MInt[ii] -> MInt_i ; V[ii] -> V_i ; V[ii+1] -> V_ip1
        base = node.value.id
        s = ast.unparse(node.slice).replace(' ', '')
        if s == 'ii': return base + '_i'
        if s == 'ii+1': return base + '_ip1'
        raise TranslateError('index %s' % s)
    for nm, mm in (('atemp', m_at), ('ctemp', m_ct)):
        e, t = c_expr_to_ast(mm.group(1))
        ctx = Ctx(src=t, subscript=sub)
        out.append('/-- compute_abc_nobc: %s = %s -/' % (nm, t))
        out.append('def %s (MInt_i delj_i V_i V_ip1 dx_i : Rat) : Rat := %s' % (nm, tr(e, ctx)))
    # update pattern: exact statements (normalised) must be present
    body_n = re.sub(r'\s+', '', body)
    pattern = ['a[0]=0;', 'c[N-1]=0;', 'b[ii]=1./dt;', 'a[ii+1]=-dfactor[ii+1]*atemp;', 'b[ii]+=dfactor[ii]*atemp;',
               'b[ii+1]+=dfactor[ii+1]*ctemp;', 'c[ii]=-dfactor[ii]*ctemp;',
               'for(ii=0;ii<N;ii++)b[ii]=1./dt;', 'for(ii=0;ii<N-1;ii++){atemp=']
    missing = [p for p in pattern if p not in body_n]
    out.append('/-- structural check of compute_abc_nobc (the pointwise a/b/c of Model.Line assume this shape) -/')
    out.append('def abcShapeOk : Bool := %s' % ('true' if not missing else 'false'))
    out.append('/- missing statements: %s -/' % json.dumps(missing))
    # compute_dfactor
    args, body = cf['compute_dfactor']
    body_n = re.sub(r'\s+', '', body)
    pat = ['for(ii=1;ii<N-1;ii++)dfactor[ii]=2./(dx[ii]+dx[ii-1]);', 'dfactor[0]=2./dx[0];', 'dfactor[N-1]=2./dx[N-2];']
    out.append('def dfactorShapeOk : Bool := %s' % ('true' if all(p in body_n for p in pat) else 'false'))
    args, body = cf['compute_xInt']
    out.append('def xIntShapeOk : Bool := %s' % ('true' if 'xInt[ii]=0.5*(xx[ii+1]+xx[ii]);' in re.sub(r'\s+', '', body) else 'false'))
    args, body = cf['compute_dx']
    out.append('def dxShapeOk : Bool := %s' % ('true' if 'dx[ii]=xx[ii+1]-xx[ii];' in re.sub(r'\s+', '', body) else 'false'))
    # compute_delj quotient
    args, body = cf['compute_delj']
    m = re.search(r'delj\[ii\]\s*=\s*(\(.*?\)\s*/\s*\(.*?\));', body)
    mw = re.search(r'wj\s*=\s*(.*?);', body)
    mg = re.search(r'if\s*\(([^{};]*?)\)\s*delj\[ii\]\s*=\s*\(', body, flags=re.S)
    if not (m and mw and mg):
        raise TranslateError('delj pieces')
    def sub2(node, ctx):
        base = node.value.id
        if ast.unparse(node.slice) == 'ii': return base + '_i'
        raise TranslateError('index')
    e, t = c_expr_to_ast(mw.group(1)); out.append('/-- compute_delj: wj = %s -/' % t)
    out.append('def delj_wj (MInt_i dx_i : Rat) : Rat := %s' % tr(e, Ctx(src=t, subscript=sub2)))
    e, t = c_expr_to_ast(m.group(1)); out.append('/-- compute_delj: delj = %s -/' % t)
    out.append('def delj_quot (epsj wj VInt_i : Rat) : Rat := %s' % tr(e, Ctx(names={'epsj': 'epsj', 'wj': 'wj'}, src=t, subscript=sub2)))
    e, t = c_expr_to_ast(mg.group(1)); out.append('/-- compute_delj guard: %s -/' % t)
    out.append('def delj_guard (epsj wj : Rat) : Bool := %s' % trb(e.body, Ctx(names={'epsj': 'epsj', 'wj': 'wj'}, src=t)))
    # tridiag.c: statement-level shape of the Thomas sweep that Model/Tridiag.lean (`solveAux`) transcribes
    tf_ = c_functions(os.path.join(REPO, 'dadi', 'tridiag.c'))
    if 'tridiag_premalloc' not in tf_ or 'tridiag' not in tf_:
        raise TranslateError('tridiag.c: functions not found')
    tb = re.sub(r'\s+', '', tf_['tridiag_premalloc'][1])
    tpat = ['doublebet=b[0];', 'u[0]=r[0]/bet;', 'for(j=1;j<=n-1;j++){gam[j]=c[j-1]/bet;bet=b[j]-a[j]*gam[j];u[j]=(r[j]-a[j]*u[j-1])/bet;}',
            'for(j=(n-2);j>=0;j--){u[j]-=gam[j+1]*u[j+1];}']
    tb2 = re.sub(r'\s+', '', tf_['tridiag'][1])
    out.append('/-- tridiag.c `tridiag_premalloc` consists of exactly the forward and backward sweeps transcribed by `solveAux` -/')
    out.append('def tridiagShapeOk : Bool := %s' % ('true' if all(p_ in tb for p_ in tpat) and 'tridiag_premalloc(a,b,c,r,u,n);' in tb2 else 'false'))
    # per-kernel wiring: Mfunc call argument lists, bc guards, bc terms, flat index
    out.append(gen_kernel_wiring())
    out.append('end C')
    # ---- Python side
    path = os.path.join(REPO, 'dadi', 'Integration.py')
    src, tree, fns = py_functions(path)
    out.append('namespace Py')
    for name, lname in [('_Vfunc', 'Vfunc'), ('_Mfunc1D', 'Mfunc1D'), ('_Mfunc2D', 'Mfunc2D'), ('_Mfunc3D', 'Mfunc3D')]:
        fn = fns.get(name)
        if fn is None: raise TranslateError('%s not found' % name)
        e = single_return(fn)
        an = [a.arg for a in fn.args.args]
        out.append('/-- %s `%s`: return %s -/' % (srcline(fn, path), name, ast.get_source_segment(src, e)))
        out.append('def %s (%s : Rat) : Rat := %s' % (lname, ' '.join(an), tr(e, Ctx(names={a: a for a in an}, src=src))))
    # injection increments
    out.append(gen_inject(src, fns, path))
    out.append(gen_compute_dt(src, fns, path))
    out.append(gen_precalc(src, fns, path))
    out.append(gen_driver_wiring(src, fns, path))
    out.append('end Py')
    out.append('end Gen\nend DadiVerif\n')
    return '\n'.join(out)

AXN = ['x', 'y', 'z', 'a', 'b']
GRIDN = ['xx', 'yy', 'zz', 'aa', 'bb']

def gen_kernel_wiring():
    """For each kernel implicit_{d}D{axis}: which migration parameter is paired with which
    coordinate, which (nu, gamma, h) it uses, the bc guards and the bc expressions, the flat
    index strides.  Rendered as a Lean table `kernels : List KernelWiring` checked by
    `decide` in Props/C02."""
    rows = []
    bcs = []
    for d in range(1, 6):
        path = os.path.join(REPO, 'dadi', 'integration%dD.c' % d)
        cf = c_functions(path)
        for ax in range(d):
            name = 'implicit_%dD%s' % (d, AXN[ax])
            if name not in cf:
                raise TranslateError('%s not found' % name)
            args, body = cf[name]
            body1 = re.sub(r'\s+', ' ', body)
            calls = re.findall(r'(Mfirst|Mlast|MInt\[\w+\])\s*=\s*Mfunc%dD\((.*?)\);' % d, body1)
            if len(calls) != 3:
                raise TranslateError('%s: expected 3 Mfunc calls, got %d' % (name, len(calls)))
            # local aliases: x = xx[ii]; y = yy[jj]; ...
            alias = dict((m.group(1), m.group(2)) for m in re.finditer(r'\b(\w+) = (\w\w)\[\w\w\];', body1))
            LOOPV = {'xx': 'ii', 'yy': 'jj', 'zz': 'kk', 'aa': 'll', 'bb': 'mm'}
            idx_ok = all(LOOPV.get(m.group(2)) == m.group(3) for m in re.finditer(r'\b(\w+) = (\w\w)\[(\w\w)\];', body1) if m.group(2) in LOOPV)
            sig = None
            kinds = {}
            for lhs, al in calls:
                parts = [p.strip() for p in al.split(',')]
                first = parts[0]
                rest = parts[1:]
                kinds[lhs.split('[')[0]] = first
                if sig is None: sig = rest
                elif sig != rest: raise TranslateError('%s: Mfunc calls disagree' % name)
            g = GRIDN[ax]
            dimn = ['L', 'M', 'N', 'O', 'P'][ax]
            intn = AXN[ax] + 'Int'
            okfirst = kinds.get('Mfirst', '').replace(' ', '') == '%s[0]' % g
            oklast = kinds.get('Mlast', '').replace(' ', '') == '%s[%s-1]' % (g, dimn)
            okint = re.match(r'^%s\[\w\w\]$' % intn, kinds.get('MInt', '').replace(' ', '')) is not None
            # coordinates passed (d-1 of them), then d-1 migration rates, gamma, h
            coords = sig[:d-1]; migs = sig[d-1:2*(d-1)]; gam, hh = sig[2*(d-1):2*(d-1)+2]
            coord_axes = []
            for cname in coords:
                gridname = alias.get(cname, None)
                if gridname is None or gridname not in GRIDN:
                    raise TranslateError('%s: coordinate %s not an alias of a grid' % (name, cname))
                coord_axes.append(GRIDN.index(gridname))
            mig_pairs = []
            for mname in migs:
                mm = re.match(r'^m(\d)(\d)$', mname)
                if not mm: raise TranslateError('%s: migration arg %s' % (name, mname))
                mig_pairs.append((int(mm.group(1)) - 1, int(mm.group(2)) - 1))
            # V uses nu<k>
            mv = re.search(r'V\[\w\w\] = (Vfunc\w*)\((.*?)\);', body1)
            vargs = [p.strip() for p in mv.group(2).split(',')]
            nu = vargs[1]
            # bc guards
            g0 = re.search(r'if\(([^;{}]*?)\(Mfirst <= 0\)\)\s*b\[0\] \+= (.*?);', body1)
            g1 = re.search(r'if\(([^;{}]*?)\(Mlast >= 0\)\)\s*b\[%s-1\] \+= (.*?);' % dimn, body1)
            if d == 1:
                g0 = re.search(r'if\(()Mfirst <= 0\)\s*b\[0\] \+= (.*?);', body1)
                g1 = re.search(r'if\(()Mlast >= 0\)\s*b\[%s-1\] \+= (.*?);' % dimn, body1)
            if not (g0 and g1): raise TranslateError('%s: bc statements' % name)
            z0 = sorted(GRIDN.index(m.group(1)) for m in re.finditer(r'\((\w\w)\[\w\w\]\s*==\s*0\)', g0.group(1)))
            z1 = sorted(GRIDN.index(m.group(1)) for m in re.finditer(r'\((\w\w)\[\w\w\]\s*==\s*1\)', g1.group(1)))
            n0 = len(re.findall(r'==', g0.group(1))); n1 = len(re.findall(r'==', g1.group(1)))
            for gg in (g0, g1):
                for m in re.finditer(r'\((\w\w)\[(\w\w)\]\s*==\s*[01]\)', gg.group(1)):
                    if LOOPV.get(m.group(1)) != m.group(2): idx_ok = False
            # the r[] load and the write-back must use the same flat index
            wbs = re.findall(r'phi\[([^\]]*?)\] = temp\[\w\w\];', body1)
            lds = re.findall(r'r\[\w\w\] = phi\[([^\]]*?)\]/dt;', body1)
            if wbs and lds and wbs[0].replace(' ', '') != lds[0].replace(' ', ''): idx_ok = False
            # flat index strides
            fi = re.search(r'r\[\w\w\] = phi\[(.*?)\]/dt;', body1)
            idx = fi.group(1).replace(' ', '') if fi else 'ii'
            terms = idx.split('+')
            names_ = ['L', 'M', 'N', 'O', 'P'][:d]
            expect = []
            loopv = ['ii', 'jj', 'kk', 'll', 'mm']
            for k in range(d):
                t = loopv[k] + ''.join('*' + n for n in names_[k+1:])
                expect.append(t)
            strides_ok = (terms == expect)
            wb = re.search(r'phi\[(.*?)\] = temp\[\w\w\];', body1)
            # 4D/5D last axis writes in place via &phi[...]
            rows.append(dict(d=d, ax=ax, coord_axes=coord_axes, mig_pairs=mig_pairs,
                             nu=nu, gamma=gam, h=hh, vfunc=mv.group(1), z0=z0, z1=z1, n0=n0, n1=n1,
                             okfirst=okfirst, oklast=oklast, okint=okint, strides_ok=strides_ok and idx_ok,
                             bc0=g0.group(2), bc1=g1.group(2), nuarg=nu))
    out = ['structure KernelWiring where\n  d : Nat\n  ax : Nat\n  coordAxes : List Nat\n  migPairs : List (Nat × Nat)\n'
           '  nuIdx : Nat\n  gammaIdx : Nat\n  hIdx : Nat\n  zeroGuardAxes : List Nat\n  oneGuardAxes : List Nat\n'
           '  nGuard0 : Nat\n  nGuard1 : Nat\n  endpointsOk : Bool\n  stridesOk : Bool\n  usesBeta : Bool\nderiving DecidableEq, Repr']
    items = []
    def idx_of(s, pre):
        m = re.match(r'^%s(\d)?$' % pre, s)
        if not m: raise TranslateError('parameter name %s' % s)
        return int(m.group(1)) - 1 if m.group(1) else 0
    for r in rows:
        items.append('  { d := %d, ax := %d, coordAxes := %s, migPairs := %s, nuIdx := %d, gammaIdx := %d, hIdx := %d, '
                     'zeroGuardAxes := %s, oneGuardAxes := %s, nGuard0 := %d, nGuard1 := %d, endpointsOk := %s, stridesOk := %s, usesBeta := %s }'
                     % (r['d'], r['ax'], r['coord_axes'], '[' + ', '.join('(%d, %d)' % p for p in r['mig_pairs']) + ']',
                        idx_of(r['nu'], 'nu'), idx_of(r['gamma'], 'gamma'), idx_of(r['h'], 'h'),
                        r['z0'], r['z1'], r['n0'], r['n1'],
                        'true' if (r['okfirst'] and r['oklast'] and r['okint']) else 'false',
                        'true' if r['strides_ok'] else 'false', 'true' if r['vfunc'] == 'Vfunc_beta' else 'false'))
    out.append('def kernels : List KernelWiring := [\n' + ',\n'.join(items) + '\n]')
    # bc expressions (per kernel, must all be the same two formulas up to names)
    seen0 = set(); seen1 = set()
    for r in rows:
        n = r['nuarg']
        dn = 'd' + AXN[r['ax']]
        dimn = ['L', 'M', 'N', 'O', 'P'][r['ax']]
        seen0.add(r['bc0'].replace(n, 'nu').replace('%s[0]' % dn, 'dx0'))
        seen1.add(r['bc1'].replace(n, 'nu').replace('%s[%s-2]' % (dn, dimn), 'dxlast'))
    if len(seen0) != 1 or len(seen1) != 1:
        raise TranslateError('boundary terms differ between kernels: %r %r' % (seen0, seen1))
    e, t = c_expr_to_ast(seen0.pop()); out.append('/-- boundary term added to b[0]: %s -/' % t)
    out.append('def bcFirst (nu Mfirst dx0 : Rat) : Rat := %s' % tr(e, Ctx(names={'nu': 'nu', 'Mfirst': 'Mfirst', 'dx0': 'dx0'}, src=t)))
    e, t = c_expr_to_ast(seen1.pop()); out.append('/-- boundary term added to b[N-1]: %s -/' % t)
    out.append('def bcLast (nu Mlast dxlast : Rat) : Rat := %s' % tr(e, Ctx(names={'nu': 'nu', 'Mlast': 'Mlast', 'dxlast': 'dxlast'}, src=t)))
    return '\n'.join(out)

def gen_inject(src, fns, path):
    """_inject_mutations_{d}D: for each population k the guarded `phi[e_k] += expr`."""
    out = ['structure InjectTerm where\n  d : Nat\n  pop : Nat\n  target : List Nat\n  guards : List String\nderiving DecidableEq, Repr']
    items = []
    for d in range(1, 6):
        fn = fns.get('_inject_mutations_%dD' % d)
        if fn is None: raise TranslateError('_inject_mutations_%dD' % d)
        argn = [a.arg for a in fn.args.args]
        stmts = [s for s in fn.body if not (isinstance(s, ast.Expr) and isinstance(s.value, ast.Constant))]
        if not isinstance(stmts[-1], ast.Return): raise TranslateError('inject return')
        k = 0
        for s in stmts[:-1]:
            guards = []
            if isinstance(s, ast.If):
                if s.orelse or len(s.body) != 1: raise TranslateError('inject if shape')
                t = s.test
                conj = t.values if isinstance(t, ast.BoolOp) and isinstance(t.op, ast.And) else [t]
                for c in conj:
                    if isinstance(c, ast.UnaryOp) and isinstance(c.op, ast.Not) and isinstance(c.operand, ast.Name):
                        guards.append(c.operand.id)
                    else: raise TranslateError('inject guard')
                s = s.body[0]
            if not (isinstance(s, ast.AugAssign) and isinstance(s.op, ast.Add) and isinstance(s.target, ast.Subscript)):
                raise TranslateError('inject statement')
            tgt = s.target.slice
            tl = [e.value for e in tgt.elts] if isinstance(tgt, ast.Tuple) else [tgt.value]
            grids = GRIDN[:d]
            ctx = Ctx(names=dict([(g, g) for g in grids] + [('dt', 'dt'), ('theta0', 'theta0')]), src=src,
                      subscript=const_index_subscript())
            items.append('  { d := %d, pop := %d, target := %s, guards := %s }' % (d, k, tl, json.dumps(guards)))
            out.append('/-- %s -/' % ast.get_source_segment(src, s))
            out.append('def inject%dD_%d (dt theta0 : Rat) (%s : Nat → Rat) : Rat := %s'
                       % (d, k, ' '.join(grids), tr(s.value, ctx)))
            k += 1
        if k != d: raise TranslateError('inject %dD has %d terms' % (d, k))
    out.append('def injectTerms : List InjectTerm := [\n' + ',\n'.join(items) + '\n]')
    return '\n'.join(out)

def gen_compute_dt(src, fns, path):
    fn = fns.get('_compute_dt')
    if fn is None: raise TranslateError('_compute_dt')
    stmts = [s for s in fn.body if not (isinstance(s, ast.Expr) and isinstance(s.value, ast.Constant))]
    # expected shape: if use_old_timestep: return ...; maxVM = max(a, sum(ms), b); if maxVM > 0: dt = tf/maxVM else inf; if dt==0 raise; return dt
    asg = [s for s in stmts if isinstance(s, ast.Assign) and isinstance(s.targets[0], ast.Name) and s.targets[0].id == 'maxVM']
    if len(asg) != 1: raise TranslateError('_compute_dt: maxVM assignment')
    call = asg[0].value
    if not (isinstance(call, ast.Call) and callee_name(call.func) == 'max' and len(call.args) == 3):
        raise TranslateError('_compute_dt: maxVM = max(.,.,.) expected')
    a0, a1, a2 = call.args
    if not (isinstance(a1, ast.Call) and callee_name(a1.func) == 'sum' and isinstance(a1.args[0], ast.Name) and a1.args[0].id == 'ms'):
        raise TranslateError('_compute_dt: sum(ms)')
    ctx = Ctx(names={'nu': 'nu', 'gamma': 'gamma', 'h': 'h'}, src=src)
    out = ['/-- %s: maxVM = %s -/' % (srcline(fn, path), re.sub(r'\s+', ' ', ast.get_source_segment(src, call)))]
    out.append('def maxVM (nu sumMs gamma h : Rat) : Rat := ratMax (ratMax %s sumMs) %s' % (tr(a0, ctx), tr(a2, ctx)))
    ifs = [s for s in stmts if isinstance(s, ast.If)]
    ok = False
    for s in ifs:
        t = ast.unparse(s.test)
        if t == 'maxVM > 0':
            b = ast.unparse(s.body[0]); o = ast.unparse(s.orelse[0]) if s.orelse else ''
            ok = (b == 'dt = timescale_factor / maxVM' and o == 'dt = numpy.inf')
    out.append('/-- `if maxVM > 0: dt = timescale_factor / maxVM else: dt = inf` present as such -/')
    out.append('def computeDtShapeOk : Bool := %s' % ('true' if ok else 'false'))
    out.append('/-- dt as an Option (none = +inf) -/')
    out.append('def computeDt (tf nu sumMs gamma h : Rat) : Option Rat := if maxVM nu sumMs gamma h > 0 then some (tf / maxVM nu sumMs gamma h) else none')
    return '\n'.join(out)

def gen_precalc(src, fns, path):
    """_one_pop_const_params etc: the a/b/c update expressions (pointwise translation of the
    slice idioms) — compared by theorem with the C assembly."""
    out = []
    fn = fns.get('_one_pop_const_params')
    if fn is None: raise TranslateError('_one_pop_const_params')
    # collect `X[sl] += expr` statements for X in a,b,c
    upd = []
    for s in fn.body:
        if isinstance(s, ast.AugAssign) and isinstance(s.target, ast.Subscript) and isinstance(s.target.value, ast.Name) \
           and s.target.value.id in ('a', 'b', 'c') and isinstance(s.op, ast.Add):
            upd.append((s.target.value.id, ast.unparse(s.target.slice), s.value))
    # slice semantics: target slice '1:' means node j receives expr with interval index j-1;
    # ':-1' means node j receives expr with interval index j.  Inside expr: dfactor[1:] -> dfactor at node (i+1),
    # dfactor[:-1] -> node i ; V[:-1] -> V at node i ; V[1:] -> V at node i+1 ; MInt, dx, delj -> interval i.
    def sub(node, ctx):
        base = node.value.id
        sl = ast.unparse(node.slice).replace(' ', '')
        if base in ('dfactor', 'V') and sl == '1:': return base + '_ip1'
        if base in ('dfactor', 'V') and sl == ':-1': return base + '_i'
        raise TranslateError('slice %s[%s]' % (base, sl))
    names = {'MInt': 'MInt_i', 'delj': 'delj_i', 'dx': 'dx_i'}
    k = 0
    for arr, sl, e in upd:
        ctx = Ctx(names=names, src=src, subscript=sub)
        out.append('/-- _one_pop_const_params: %s[%s] += %s -/' % (arr, sl, re.sub(r'\s+', ' ', ast.get_source_segment(src, e))))
        out.append('def pre1D_%s_%s (MInt_i delj_i dx_i V_i V_ip1 dfactor_i dfactor_ip1 : Rat) : Rat := %s'
                   % (arr, 'hi' if sl == '1:' else 'lo', tr(e, ctx)))
        k += 1
    if sorted((a, s) for a, s, _ in upd) != [('a', '1:'), ('b', '1:'), ('b', ':-1'), ('c', ':-1')]:
        raise TranslateError('_one_pop_const_params update set %r' % [(a, s) for a, s, _ in upd])
    # bc lines
    bcs = [s for s in fn.body if isinstance(s, ast.If) and 'M[' in ast.unparse(s.test)]
    if len(bcs) != 2: raise TranslateError('1D const bc')
    def subbc(node, ctx):
        base = node.value.id; sl = ast.unparse(node.slice).replace(' ', '')
        m = {('M', '0'): 'Mfirst', ('M', '-1'): 'Mlast', ('dx', '0'): 'dx0', ('dx', '-1'): 'dxlast'}
        if (base, sl) in m: return m[(base, sl)]
        raise TranslateError('bc index')
    for s, nm in zip(bcs, ['First', 'Last']):
        inc = s.body[0]
        ctx = Ctx(names={'nu': 'nu'}, src=src, subscript=subbc)
        out.append('/-- %s -/' % re.sub(r'\s+', ' ', ast.get_source_segment(src, s)))
        out.append('def pre1D_bc%s (nu Mfirst Mlast dx0 dxlast : Rat) : Rat := %s' % (nm, tr(inc.value, ctx)))
        out.append('def pre1D_bc%sGuard (Mfirst Mlast : Rat) : Bool := %s' % (nm, trb(s.test, Ctx(src=src, subscript=subbc))))
    # 2D and 3D: same four update expressions per axis (after stripping nuax broadcasting)
    for d, fname in ((2, '_two_pops_const_params'), (3, '_three_pops_const_params')):
        fn = fns.get(fname)
        if fn is None: raise TranslateError(fname)
        for s in fn.body:
            if isinstance(s, ast.AugAssign) and isinstance(s.target, ast.Subscript) and isinstance(s.target.value, ast.Name) \
               and re.match(r'^[abc][xyz]$', s.target.value.id) and isinstance(s.op, ast.Add):
                arr = s.target.value.id
                axn = arr[1]; ax = 'xyz'.index(axn)
                tsl = ast.unparse(s.target.slice).replace(' ', '')
                if tsl.startswith('(') : tsl = tsl[1:-1]
                parts = tsl.split(',')
                # slice position must be the axis position
                want_pos = ax
                pos = [i for i, p in enumerate(parts) if p != ':']
                if len(parts) - 1 != ax or pos != [ax]:
                    raise TranslateError('%s: target slice %s of %s not on axis %d' % (fname, tsl, arr, ax))
                hi = parts[ax] == '1:'
                def sub(node, ctx, axn=axn, ax=ax, d=d):
                    base = node.value.id
                    sl = ast.unparse(node.slice).replace(' ', '')
                    if sl.startswith('('): sl = sl[1:-1]
                    ps = sl.split(',')
                    real = [p for p in ps if p not in ('nuax',)]
                    # position of the real slice among broadcast axes must be `ax` when newaxes are given
                    if len(ps) > 1:
                        if len(ps) != d and not (len(ps) == ax + 1):
                            raise TranslateError('%s: broadcast rank %s' % (fname, sl))
                        if ps.index(real[0]) != ax: raise TranslateError('%s: broadcast axis of %s[%s]' % (fname, base, sl))
                    r = real[0]
                    if base == 'dfact_' + axn: b = 'dfactor'
                    elif base == 'V' + axn: b = 'V'
                    elif base == 'd' + axn: return 'dx_i'
                    else: raise TranslateError('%s: array %s' % (fname, base))
                    if r == '1:': return b + '_ip1'
                    if r == ':-1': return b + '_i'
                    raise TranslateError('%s: slice %s' % (fname, r))
                names = {'M%sInt' % axn: 'MInt_i', 'delj' + axn: 'delj_i', 'd' + axn: 'dx_i'}
                ctx = Ctx(names=names, src=src, subscript=sub)
                out.append('/-- %s: %s -/' % (fname, re.sub(r'\s+', ' ', ast.get_source_segment(src, s))))
                out.append('def pre%dD%s_%s_%s (MInt_i delj_i dx_i V_i V_ip1 dfactor_i dfactor_ip1 : Rat) : Rat := %s'
                           % (d, axn, arr[0], 'hi' if hi else 'lo', tr(s.value, ctx)))
    # ---- wiring of the 2-D / 3-D constant-parameter drivers: which grid, migration rate, nu, gamma, h each axis uses
    out.append('structure PreWiring where\n  d : Nat\n  ax : Nat\n  what : String\n  args : List String\nderiving DecidableEq, Repr')
    items = []
    def norm(e):
        t = ast.unparse(e).replace(' ', '')
        return t
    for d, fname in ((2, '_two_pops_const_params'), (3, '_three_pops_const_params')):
        fn = fns[fname]
        for s_ in fn.body:
            if isinstance(s_, ast.Assign) and len(s_.targets) == 1 and isinstance(s_.targets[0], ast.Name) and isinstance(s_.value, ast.Call):
                nm = s_.targets[0].id
                m = re.match(r'^(M|V)([xyz])(Int)?$', nm)
                if m and callee_name(s_.value.func) in ('_Mfunc%dD' % d, '_Vfunc'):
                    ax = 'xyz'.index(m.group(2))
                    items.append((d, ax, nm, [norm(a) for a in s_.value.args]))
            if isinstance(s_, ast.If) and len(s_.body) == 1 and isinstance(s_.body[0], ast.AugAssign):
                tgt = s_.body[0].target
                if isinstance(tgt, ast.Subscript) and isinstance(tgt.value, ast.Name) and re.match(r'^b[xyz]$', tgt.value.id):
                    ax = 'xyz'.index(tgt.value.id[1])
                    items.append((d, ax, 'bc:' + norm(s_.test), [norm(tgt), norm(s_.body[0].value)]))
    out.append('def preWiring : List PreWiring := [\n' + ',\n'.join(
        '  { d := %d, ax := %d, what := %s, args := %s }' % (d, ax, json.dumps(w), json.dumps(a)) for d, ax, w, a in items) + '\n]')
    return '\n'.join(out)

def gen_driver_wiring(src, fns, path):
    """Which arguments each public integrator passes to each kernel and to _compute_dt; frozen/migration
    guard; copy-on-entry.  Emitted as Lean tables checked in Props (C02_wiring, C04, C20)."""
    out = ['structure DriverCall where\n  d : Nat\n  ax : Nat\n  fn : String\n  args : List String\n  guard : String\nderiving DecidableEq, Repr',
           'structure DtCall where\n  d : Nat\n  fn : String\n  ax : Nat\n  args : List String\nderiving DecidableEq, Repr']
    names = {1: 'one_pop', 2: 'two_pops', 3: 'three_pops', 4: 'four_pops', 5: 'five_pops'}
    calls = []; dts = []; effects = []; guards = []
    for d, nm in names.items():
        fn = fns.get(nm)
        if fn is None: raise TranslateError(nm)
        # copy on entry
        first = [s for s in fn.body if not (isinstance(s, ast.Expr) and isinstance(s.value, ast.Constant))][0]
        copies = ast.unparse(first).replace(' ', '') == 'phi=phi.copy()'
        effects.append('  ("%s", %s)' % (nm, 'true' if copies else 'false'))
        for node in ast.walk(fn):
            if isinstance(node, ast.Call):
                cn = callee_name(node.func)
                if cn and cn.startswith('int_c.implicit_%dD' % d):
                    ax = AXN.index(cn[-1])
                    args = [ast.unparse(a) for a in node.args] + ['%s=%s' % (k.arg, ast.unparse(k.value)) for k in node.keywords]
                    calls.append((d, ax, cn, args))
        whiles = [n for n in ast.walk(fn) if isinstance(n, ast.While)]
        if len(whiles) != 1: raise TranslateError('%s: while loops' % nm)
        for node in ast.walk(whiles[0]):
            if isinstance(node, ast.Call) and callee_name(node.func) == '_compute_dt':
                dts.append((d, nm, sum(1 for x in dts if x[1] == nm), [ast.unparse(a) for a in node.args]))
        # frozen/migration guard
        if d >= 2:
            g = None
            for s in fn.body:
                if isinstance(s, ast.If) and isinstance(s.body[0], ast.Raise) and 'frozen' in ast.unparse(s.test):
                    g = s.test
            if g is None: raise TranslateError('%s: frozen/migration guard not found' % nm)
            nmz = {}
            for k in range(1, d+1):
                nmz['frozen%d' % k] = '(fr %d)' % (k-1)
                for l in range(1, d+1):
                    if l != k: nmz['m%d%d' % (k, l)] = '(m %d %d)' % (k-1, l-1)
            out.append('/-- %s: %s -/' % (nm, re.sub(r'\s+', ' ', ast.get_source_segment(src, g))))
            out.append('def frozenMigGuard%d (fr : Nat → Bool) (m : Nat → Nat → Rat) : Bool := %s' % (d, trb(g, Ctx(names=nmz, src=src))))
    out.append('def driverCalls : List DriverCall := [\n' + ',\n'.join(
        '  { d := %d, ax := %d, fn := "%s", args := %s, guard := "" }' % (d, ax, cn, json.dumps(args)) for d, ax, cn, args in calls) + '\n]')
    out.append('def dtCalls : List DtCall := [\n' + ',\n'.join(
        '  { d := %d, fn := "%s", ax := %d, args := %s }' % (d, nm, ax, json.dumps(args)) for (d, nm, ax, args) in dts) + '\n]')
    out.append('def copiesOnEntry : List (String × Bool) := [\n' + ',\n'.join(effects) + '\n]')
    return '\n'.join(out)

GENERATORS = {'Coeffs': gen_coeffs}

def _discover():
    """tools/gen_<Name>.py modules: each defines NAME (= Lean file Generated/<NAME>.lean) and generate() -> str"""
    import importlib.util, glob
    here = os.path.dirname(os.path.abspath(__file__))
    for path in sorted(glob.glob(os.path.join(here, 'gen_*.py'))):
        modname = os.path.basename(path)[:-3]
        spec = importlib.util.spec_from_file_location(modname, path)
        mod = importlib.util.module_from_spec(spec)
        sys.modules.setdefault('translate', sys.modules[__name__])
        try:
            spec.loader.exec_module(mod)
            GENERATORS[mod.NAME] = mod.generate
        except Exception as e:      # a half-written generator of another property must not break this one
            sys.stderr.write('translate: skipping %s (%r)\n' % (modname, e))
_discover()

def write_all(which=None, gen_dir=GEN_DIR):
    """returns dict name -> None (ok) or error string.  A failing generator leaves a stub file
    that defines `translateFailed_<name> : String` so that dependants fail to build loudly."""
    os.makedirs(gen_dir, exist_ok=True)
    res = {}
    for name, g in GENERATORS.items():
        if which and name not in which: continue
        path = os.path.join(gen_dir, name + '.lean')
        try:
            text = g(); res[name] = None
        except TranslateError as e:
            # The obligation "this source translates" is broken (reported upstream).  Keep the last good generated
            # file in place if there is one, so that the model still builds and the correspondence / failing-input
            # search can run; only if there is none write a stub that makes dependants fail loudly.
            res[name] = str(e)
            if os.path.exists(path) and 'translateFailed_' not in open(path).read():
                continue
            text = HEADER + '/-- translation failed: %s -/\ndef translateFailed_%s : String := %s\nend DadiVerif\n' % (
                str(e).replace('-/', '- /'), name, json.dumps(str(e)))
        except Exception as e:
            res[name] = 'translator crashed: %r' % (e,)
            continue
        old = open(path).read() if os.path.exists(path) else None
        if old != text:
            with open(path, 'w') as f: f.write(text)
    return res

if __name__ == '__main__':
    r = write_all(sys.argv[1:] or None)
    print(json.dumps(r, indent=1))
    sys.exit(0 if all(v is None for v in r.values()) else 3)
