"""Generated/Demog1D.lean (C01): the one-population model functions of the library as straight-line epoch programs.

Sources: dadi/Demographics1D.py (every function with `__param_names__`) and dadi/DFE/DemogSelModels.py (the functions with
`__param_names__` that start from `PhiManip.phi_1D` and integrate with `Integration.one_pop` only).

Closed statement language - anything else raises TranslateError (never a guess; in particular an integration call under an
`if`, in a loop, or in a conditional expression is refused: an epoch of the documented history must be integrated
whatever the parameter values are):
    a, b, ... = params                                   parameter names (a model without it takes no parameters)
    xx = Numerics.default_grid(pts)
    phi = PhiManip.phi_1D(xx[, gamma=<arg>])             start
    name = lambda t: <expr>                              local function of time (kept as source text)
    phi = Integration.one_pop(phi, xx, <arg>, <arg> | nu=<arg>[, gamma=<arg>])      one epoch
    fs = Spectrum.from_phi(phi, ns, (xx,)) | Spectrum.from_phi_inbreeding(phi, ns, (xx,), (<arg>,), (2,))
    return fs | return Spectrum.from_phi(phi, ns, (xx,))
<arg> = a parameter name, the name of a local function of time, or a numeric literal.
"""
import ast, os, re
from fractions import Fraction
import translate as T

NAME = 'Demog1D'

FILES = [('Demographics1D', 'dadi/Demographics1D.py'), ('DFE.DemogSelModels', 'dadi/DFE/DemogSelModels.py')]

def _norm(node):
    return re.sub(r'\s+', '', ast.unparse(node))

def _param_named(tree):
    names = set()
    for st in tree.body:
        if (isinstance(st, ast.Assign) and len(st.targets) == 1 and isinstance(st.targets[0], ast.Attribute)
                and st.targets[0].attr == '__param_names__' and isinstance(st.targets[0].value, ast.Name)):
            names.add(st.targets[0].value.id)
    return names

def _is_one_population(fn):
    """starts from PhiManip.phi_1D and uses no other PhiManip function and no Integration function but one_pop"""
    start = False
    for n in ast.walk(fn):
        if isinstance(n, ast.Attribute) and isinstance(n.value, ast.Name):
            if n.value.id == 'PhiManip':
                if n.attr != 'phi_1D': return False
                start = True
            if n.value.id == 'Integration' and n.attr != 'one_pop': return False
    return start

def _lit(q):
    q = Fraction(q)
    return '((%d : Rat) / %d)' % (q.numerator, q.denominator) if q.denominator != 1 else '(%d : Rat)' % q.numerator

class _M:
    def __init__(self, mod, fn):
        self.mod = mod; self.fn = fn; self.name = fn.name
        self.params = []; self.funcs = {}; self.start = None; self.epochs = []; self.sampler = None; self.F = None
        self.returned = False

    def err(self, st, why):
        raise T.TranslateError('%s.%s line %d: %s: `%s`' % (self.mod, self.name, getattr(st, 'lineno', 0), why, ast.unparse(st)[:120]))

    def arg(self, st, e):
        if isinstance(e, ast.Name):
            if e.id in self.params: return '.param %d' % self.params.index(e.id)
            if e.id in self.funcs: return '.func "%s"' % e.id
            self.err(st, 'argument %s is neither a parameter nor a local function of time' % e.id)
        if isinstance(e, ast.Constant) and isinstance(e.value, (int, float)) and not isinstance(e.value, bool):
            return '.lit %s' % _lit(Fraction(repr(e.value)) if isinstance(e.value, float) else e.value)
        self.err(st, 'argument outside the closed language')

    def call(self, e, mod, attr):
        return (isinstance(e, ast.Call) and isinstance(e.func, ast.Attribute) and e.func.attr == attr
                and isinstance(e.func.value, ast.Name) and e.func.value.id == mod)

    def sample(self, st, e):
        if self.call(e, 'Spectrum', 'from_phi'):
            if [_norm(a) for a in e.args] != ['phi', 'ns', '(xx,)'] or e.keywords: self.err(st, 'from_phi arguments')
            self.sampler = 'from_phi'
        elif self.call(e, 'Spectrum', 'from_phi_inbreeding'):
            a = e.args
            if len(a) != 5 or [_norm(x) for x in a[:3]] != ['phi', 'ns', '(xx,)'] or e.keywords: self.err(st, 'from_phi_inbreeding arguments')
            if not (isinstance(a[3], ast.Tuple) and len(a[3].elts) == 1 and _norm(a[4]) == '(2,)'): self.err(st, 'from_phi_inbreeding arguments')
            self.sampler = 'from_phi_inbreeding'; self.F = self.arg(st, a[3].elts[0])
        else:
            self.err(st, 'not a sampling call')

    def stmt(self, st):
        if self.returned: self.err(st, 'statement after return')
        if isinstance(st, ast.Expr) and isinstance(st.value, ast.Constant) and isinstance(st.value.value, str):
            return
        if isinstance(st, ast.Return):
            if self.start is None: self.err(st, 'return before the start density')
            if isinstance(st.value, ast.Name) and st.value.id == 'fs' and self.sampler: pass
            elif st.value is not None and self.sampler is None: self.sample(st, st.value)
            else: self.err(st, 'return value')
            self.returned = True; return
        if not (isinstance(st, ast.Assign) and len(st.targets) == 1):
            self.err(st, 'statement outside the straight-line language (an epoch of the documented history must be integrated unconditionally)')
        tg, v = st.targets[0], st.value
        if isinstance(tg, ast.Tuple) and isinstance(v, ast.Name) and v.id == 'params':
            if self.params or not all(isinstance(x, ast.Name) for x in tg.elts): self.err(st, 'parameter unpacking')
            self.params = [x.id for x in tg.elts]; return
        if not isinstance(tg, ast.Name): self.err(st, 'assignment target')
        if tg.id in self.params: self.err(st, 'a parameter is re-assigned')
        if tg.id == 'xx':
            if _norm(v) != 'Numerics.default_grid(pts)': self.err(st, 'grid')
            return
        if isinstance(v, ast.Lambda):
            if [a.arg for a in v.args.args] != ['t'] or self.sampler: self.err(st, 'local function of time')
            if tg.id in self.funcs: self.err(st, 'local function re-defined')
            free = {n.id for n in ast.walk(v.body) if isinstance(n, ast.Name)} - {'t', 'numpy'}
            if not free <= set(self.params): self.err(st, 'local function of time uses names that are not parameters')
            if any(isinstance(n, (ast.IfExp, ast.Compare, ast.BoolOp)) for n in ast.walk(v.body)): self.err(st, 'conditional inside a function of time')
            self.funcs[tg.id] = ast.unparse(v); return
        if tg.id == 'phi':
            if self.sampler: self.err(st, 'integration after sampling')
            if self.call(v, 'PhiManip', 'phi_1D'):
                if self.start is not None or self.epochs: self.err(st, 'second start density')
                if [_norm(a) for a in v.args] != ['xx']: self.err(st, 'phi_1D arguments')
                kw = {k.arg: k.value for k in v.keywords}
                if set(kw) - {'gamma'}: self.err(st, 'phi_1D keywords')
                self.start = 'some (%s)' % self.arg(st, kw['gamma']) if 'gamma' in kw else 'none'
                return
            if self.call(v, 'Integration', 'one_pop'):
                if self.start is None: self.err(st, 'integration before the start density')
                a = list(v.args); kw = {k.arg: k.value for k in v.keywords}
                if len(a) not in (3, 4) or [_norm(x) for x in a[:2]] != ['phi', 'xx']: self.err(st, 'one_pop arguments')
                if len(a) == 4 and 'nu' in kw: self.err(st, 'one_pop: nu given twice')
                nu = a[3] if len(a) == 4 else kw.pop('nu', None)
                if nu is None: self.err(st, 'one_pop without a size')
                if set(kw) - {'gamma'}: self.err(st, 'one_pop keywords')
                self.epochs.append('{ T := %s, nu := %s, gamma := %s }' % (
                    self.arg(st, a[2]), self.arg(st, nu), 'some (%s)' % self.arg(st, kw['gamma']) if 'gamma' in kw else 'none'))
                return
            self.err(st, 'phi assigned from something else than phi_1D / one_pop')
        if tg.id == 'fs':
            if self.start is None or self.sampler: self.err(st, 'sampling')
            self.sample(st, v); return
        self.err(st, 'assignment outside the straight-line language')

    def lean(self):
        for st in self.fn.body: self.stmt(st)
        if not self.returned or self.start is None or self.sampler is None:
            raise T.TranslateError('%s.%s: no start density / sampling / return' % (self.mod, self.name))
        return ('  { name := "%s", file := "%s", params := [%s], startGamma := %s,\n    epochs := [%s],\n    sampler := "%s", inbreeding := %s,\n    timeFuncs := [%s] }'
                % (self.name, self.mod, ', '.join('"%s"' % p for p in self.params), self.start, ',\n               '.join(self.epochs), self.sampler,
                   'some (%s)' % self.F if self.F else 'none', ', '.join('("%s", %s)' % (k, _q(v)) for k, v in self.funcs.items())))

def _q(s):
    return '"' + s.replace('\\', '\\\\').replace('"', '\\"') + '"'

def generate():
    out = ['/- GENERATED by tools/gen_Demog1D.py from dadi/Demographics1D.py and dadi/DFE/DemogSelModels.py — do not edit.  Regenerated on every check. -/',
           'import DadiVerif.Model.Prelude', 'set_option linter.unusedVariables false', 'namespace DadiVerif\nnamespace Gen\nnamespace Demog1D',
           '''/-- how an argument of a call is given: `params[i]`, a local function of time, or a literal -/
inductive Arg where
  | param (i : Nat)
  | func (name : String)
  | lit (q : Rat)
deriving DecidableEq, Repr
/-- one top-level, unconditional `phi = Integration.one_pop(phi, xx, T, nu[, gamma=…])` -/
structure Epoch where
  T : Arg
  nu : Arg
  gamma : Option Arg
deriving DecidableEq, Repr
/-- a model function: `phi_1D(xx[, gamma=…])`, the epochs in source order, the sampling call -/
structure Model where
  name : String
  file : String
  params : List String
  startGamma : Option Arg
  epochs : List Epoch
  sampler : String
  inbreeding : Option Arg
  timeFuncs : List (String × String)
deriving DecidableEq, Repr''']
    models = []
    for mod, rel in FILES:
        path = os.path.join(T.REPO, rel)
        if not os.path.exists(path): raise T.TranslateError('missing ' + rel)
        src, tree, fns = T.py_functions(path)
        named = _param_named(tree)
        for st in tree.body:
            if isinstance(st, ast.FunctionDef) and st.name in named:
                if mod == 'Demographics1D' or _is_one_population(st):
                    models.append(_M(mod, st).lean())
    if not models: raise T.TranslateError('no one-population model found')
    out.append('def models : List Model := [\n' + ',\n'.join(models) + '\n]')
    out.append('end Demog1D\nend Gen\nend DadiVerif\n')
    return '\n'.join(out)
