#!/bin/sh
# usage: run_all.sh [tier] [parallel]  — run every claimed check on the unchanged tree (refreshes evidence/*.json)
T="${1:-quick}"; P="${2:-4}"
cd "$(dirname "$0")/.."
/venv/bin/python tools/translate.py >/dev/null 2>&1
python3 -c "import json;print('\n'.join(c['property_id'] for c in json.load(open('MANIFEST.json'))['checks']))" | \
  xargs -P "$P" -I{} sh -c "./check {} --tier $T 2>&1 | grep -v conda | grep -E 'VIOLATION|KNOWN|OK|FAIL|infrastructure'"
