"""T tie for C09: regenerate lean/DadiVerif/Generated/Fold.lean from the current source of

  * Spectrum.fold / Spectrum.unfold (dadi/Spectrum_mod.py): the straight-line *array program* is translated
    statement by statement into pointwise Lean definitions over an abstract index type `ι` with
    `mirror : ι → ι` (= Numerics.reverse_array), `total : ι → Nat` (= _total_per_entry), `T` (= total_samples),
    `x : ι → Rat` (= self.data), `m : ι → Bool` (= self.mask);
  * Spectrum.__new__ default of mask_corners, Spectrum.mask_corners, Numerics.reverse_array, _total_per_entry,
    sample_sizes (structural: the exact statement must be present);
  * the two exec-templates of the arithmetic operators, their method lists, and _check_other_folding;
  * Numerics.apply_anc_state_misid (shape A*fs + B*reverse_array(fs), A and B translated);
  * the `model = model.fold()` guards of Inference.py.

Only the constructs listed below are accepted; anything else raises TranslateError (never a guess).
"""
import ast, os, re, json
import translate as T
from translate import TranslateError

NAME = 'Fold'

PARAMS = '{ι : Type} (mirror : ι → ι) (total : ι → Nat) (T : Nat) (x : ι → Rat) (m : ι → Bool) (i : ι)'
ARGS = 'mirror total T x m'

def _one_line(s):
    return re.sub(r'\s+', ' ', s).replace('-/', '- /').strip()

def _strip_doc(body):
    return [s for s in body if not (isinstance(s, ast.Expr) and isinstance(s.value, ast.Constant) and isinstance(s.value.value, str))]

def _num(node, src):
    """exact literal (possibly negated)"""
    if isinstance(node, ast.Constant) and isinstance(node.value, (int, float)) and not isinstance(node.value, bool):
        s = ast.get_source_segment(src, node) or repr(node.value)
        return T.lit(s)
    if isinstance(node, ast.UnaryOp) and isinstance(node.op, ast.USub):
        inner = _num(node.operand, src)
        return None if inner is None else '(- %s)' % inner
    return None

class ArrayProgram:
    """pointwise translation of a straight-line numpy program.
    env: python name -> (kind, leanDefName) with kind in {'R','B'}; special names handled in `leaf`."""
    def __init__(self, prefix, src, path):
        self.prefix = prefix; self.src = src; self.path = path
        self.env = {}
        self.version = {}
        self.defs = []       # lean text
        self.have_T = False; self.have_total = False
        # --- state of the spectrum the method was GIVEN (`self`), for the "operands survive" clause:
        #     selfv[k] = None (still the argument) or the Lean definition of its current content after in-place updates;
        #     alias[name] = 'data' | 'mask' for local names bound to `self.data` / `self.mask` themselves (numpy views of
        #     the caller's buffers: an in-place operation through such a name is an update of `self`);
        #     views = local names bound to a non-fresh expression over those buffers (reverse_array(self.mask), …)
        self.selfv = {'data': None, 'mask': None}
        self.alias = {}
        self.views = set()
        self.mutations = []  # source text of every statement that updates `self`

    # ---- the caller's spectrum
    def self_term(self, which, idx):
        d = self.selfv[which]
        if d is None:
            return '(%s %s)' % ({'data': 'x', 'mask': 'm'}[which], idx)
        return '(%s %s %s)' % (d, ARGS, idx)

    def self_target(self, node):
        """'data' / 'mask' if `node` denotes the caller's own buffer (self.data, self.mask, a local alias of one of them,
        <alias>.data), None if it is a local array; TranslateError for anything that may share memory with `self` in a way
        this translator does not follow"""
        nm = T.callee_name(node) if isinstance(node, (ast.Name, ast.Attribute)) else None
        if nm == 'self.data': return 'data'
        if nm == 'self.mask': return 'mask'
        if nm == 'self' or (nm or '').startswith('self.'):
            raise TranslateError('%s: in-place update of %s' % (self.prefix, nm))
        if isinstance(node, ast.Name):
            if node.id in self.alias: return self.alias[node.id]
            if node.id in self.views:
                raise TranslateError('%s: in-place update of `%s`, a view of the input spectrum' % (self.prefix, node.id))
            return None
        if isinstance(node, ast.Attribute) and node.attr == 'data' and isinstance(node.value, ast.Name):
            return self.self_target(node.value)
        raise TranslateError('%s: in-place target %s' % (self.prefix, _one_line(ast.unparse(node))))

    def fresh(self, node):
        """does evaluating `node` allocate a new array (True), or can it hand out memory of `self` (False)?"""
        nm = T.callee_name(node) if isinstance(node, (ast.Name, ast.Attribute)) else None
        if nm in ('self', 'self.data', 'self.mask'):
            return False
        if isinstance(node, ast.Name):
            return node.id not in self.alias and node.id not in self.views
        if isinstance(node, ast.Call):
            cn = T.callee_name(node.func)
            if cn in ('reverse_array', 'numpy.ma.masked_array') and len(node.args) == 1:
                return self.fresh(node.args[0])      # a view of / a wrapper around its argument
            return True                              # numpy.where, logical_*: new arrays
        return True                                  # arithmetic, comparisons, literals

    def update_self(self, which, term, stmt):
        if self.views:
            raise TranslateError('%s: the input spectrum is updated while views of it are alive (%s)' % (self.prefix, sorted(self.views)))
        v = self.version.get('self_' + which, 0) + 1
        self.version['self_' + which] = v
        d = '%s_self_%s_%d' % (self.prefix, which, v)
        self.defs.append('/-- %s: `%s`  — updates the spectrum the method was called on -/'
                         % (T.srcline(stmt, self.path), _one_line(ast.get_source_segment(self.src, stmt))))
        self.defs.append('def %s %s : %s := %s' % (d, PARAMS, {'data': 'Rat', 'mask': 'Bool'}[which], term))
        self.selfv[which] = d
        self.mutations.append(_one_line(ast.get_source_segment(self.src, stmt)))

    # ---- expressions
    def leaf(self, node, idx):
        nm = T.callee_name(node) if isinstance(node, (ast.Name, ast.Attribute)) else None
        if nm in ('self', 'self.data'):
            return 'R', self.self_term('data', idx)
        if nm == 'self.mask':
            return 'B', self.self_term('mask', idx)
        if isinstance(node, ast.Name) and node.id in self.alias:
            k = self.alias[node.id]
            return {'data': 'R', 'mask': 'B'}[k], self.self_term(k, idx)
        if nm == 'total_per_entry':
            if not self.have_total: raise TranslateError('%s: total_per_entry used before its definition' % self.prefix)
            return 'N', '(total %s)' % idx
        if isinstance(node, ast.Name) and node.id in self.env:
            kind, d = self.env[node.id]
            return kind, '(%s %s %s)' % (d, ARGS, idx)
        return None

    def expr(self, node, idx):
        """-> (kind, lean term at index idx); kind 'R' Rat array, 'B' Bool array, 'S' Rat scalar"""
        lf = self.leaf(node, idx)
        if lf is not None:
            return lf
        n = _num(node, self.src)
        if n is not None:
            return 'S', n
        if isinstance(node, ast.Call):
            cn = T.callee_name(node.func)
            if node.keywords:
                raise TranslateError('%s: keyword call %s' % (self.prefix, cn))
            a = node.args
            if cn == 'reverse_array' and len(a) == 1:
                return self.expr(a[0], '(mirror %s)' % idx)
            if cn == 'numpy.where' and len(a) == 3:
                kc, c = self.expr(a[0], idx); ka, va = self.expr(a[1], idx); kb, vb = self.expr(a[2], idx)
                if kc != 'B' or ka not in 'RS' or kb not in 'RS':
                    raise TranslateError('%s: numpy.where kinds' % self.prefix)
                return 'R', '(if %s then %s else %s)' % (c, va, vb)
            if cn in ('numpy.logical_or', 'numpy.logical_xor', 'numpy.logical_and') and len(a) == 2:
                ka, va = self.expr(a[0], idx); kb, vb = self.expr(a[1], idx)
                if ka != 'B' or kb != 'B':
                    raise TranslateError('%s: %s on non-boolean' % (self.prefix, cn))
                op = {'numpy.logical_or': '||', 'numpy.logical_xor': '^^', 'numpy.logical_and': '&&'}[cn]
                return 'B', '(%s %s %s)' % (va, op, vb)
            if cn == 'numpy.logical_not' and len(a) == 1:
                ka, va = self.expr(a[0], idx)
                if ka != 'B': raise TranslateError('%s: logical_not on non-boolean' % self.prefix)
                return 'B', '(! %s)' % va
            if cn == 'numpy.ma.masked_array' and len(a) == 1:
                k, v = self.expr(a[0], idx)
                if k != 'R': raise TranslateError('%s: masked_array of non-data' % self.prefix)
                return 'R', v        # fresh masked array without mask: the data
            raise TranslateError('%s: call %s' % (self.prefix, cn))
        if isinstance(node, ast.BinOp):
            ops = {ast.Add: '+', ast.Sub: '-', ast.Mult: '*', ast.Div: '/'}
            for k, v in ops.items():
                if isinstance(node.op, k):
                    kl, l = self.expr(node.left, idx); kr, r = self.expr(node.right, idx)
                    if kl not in 'RS' or kr not in 'RS':
                        raise TranslateError('%s: arithmetic on non-numeric arrays' % self.prefix)
                    return ('S' if kl == kr == 'S' else 'R'), '(%s %s %s)' % (l, v, r)
            raise TranslateError('%s: operator %s' % (self.prefix, type(node.op).__name__))
        if isinstance(node, ast.UnaryOp) and isinstance(node.op, ast.USub):
            k, v = self.expr(node.operand, idx)
            if k not in 'RS': raise TranslateError('%s: negation' % self.prefix)
            return k, '(- %s)' % v
        if isinstance(node, ast.Compare) and len(node.ops) == 1:
            return 'B', self.compare(node, idx)
        raise TranslateError('%s: expression %s' % (self.prefix, _one_line(ast.unparse(node))))

    def compare(self, node, idx):
        """the two threshold idioms on total_per_entry"""
        left = ast.unparse(node.left).replace(' ', ''); right = ast.unparse(node.comparators[0]).replace(' ', '')
        op = node.ops[0]
        if left != 'total_per_entry' or not (self.have_T and self.have_total):
            raise TranslateError('%s: comparison %s' % (self.prefix, _one_line(ast.unparse(node))))
        # int(total_samples/2): truncation of a non-negative quotient = Nat division
        if right == 'int(total_samples/2)':
            rhs = '(T / 2)'; lhs = '(total %s)' % idx
            m = {ast.Gt: '>', ast.GtE: '≥', ast.Lt: '<', ast.LtE: '≤'}
            for k, v in m.items():
                if isinstance(op, k):
                    return '(decide (%s %s %s))' % (lhs, v, rhs)
            if isinstance(op, ast.Eq): return '(%s == %s)' % (lhs, rhs)
            raise TranslateError('%s: comparison operator' % self.prefix)
        # total_samples/2. : float true division, compared with an integer array = comparison in Rat
        if right in ('total_samples/2.', 'total_samples/2.0', 'total_samples/2'):
            lhs = '((total %s : Nat) : Rat)' % idx; rhs = '((T : Rat) / 2)'
            if isinstance(op, ast.Eq): return '(%s == %s)' % (lhs, rhs)
            m = {ast.Gt: '>', ast.GtE: '≥', ast.Lt: '<', ast.LtE: '≤'}
            for k, v in m.items():
                if isinstance(op, k):
                    return '(decide (%s %s %s))' % (lhs, v, rhs)
        raise TranslateError('%s: comparison %s' % (self.prefix, _one_line(ast.unparse(node))))

    # ---- statements
    def define(self, pyname, kind, term, stmt):
        v = self.version.get(pyname, 0) + 1
        self.version[pyname] = v
        d = '%s_%s_%d' % (self.prefix, pyname, v)
        ty = {'R': 'Rat', 'B': 'Bool'}[kind]
        self.defs.append('/-- %s: `%s` -/' % (T.srcline(stmt, self.path), _one_line(ast.get_source_segment(self.src, stmt))))
        self.defs.append('def %s %s : %s := %s' % (d, PARAMS, ty, term))
        self.env[pyname] = (kind, d)

    def stmt(self, s):
        text = ast.unparse(s).replace(' ', '')
        if text == 'total_samples=numpy.sum(self.sample_sizes)':
            self.have_T = True; return
        if text == 'total_per_entry=self._total_per_entry()':
            self.have_total = True; return
        if isinstance(s, ast.Assign) and len(s.targets) == 1:
            t = s.targets[0]
            if isinstance(t, ast.Name):
                v = s.value
                vn = T.callee_name(v) if isinstance(v, (ast.Name, ast.Attribute)) else None
                # binding a local name to the caller's own buffer: no new array, the name IS self.data / self.mask
                if vn in ('self.data', 'self.mask') or (isinstance(v, ast.Name) and v.id in self.alias):
                    which = {'self.data': 'data', 'self.mask': 'mask'}.get(vn) or self.alias[v.id]
                    self.env.pop(t.id, None); self.views.discard(t.id)
                    self.alias[t.id] = which
                    self.defs.append('/- %s: `%s`  — `%s` is the input spectrum\'s own %s from here on (no new array) -/'
                                     % (T.srcline(s, self.path), _one_line(ast.get_source_segment(self.src, s)), t.id, which))
                    return
                if vn == 'self':
                    raise TranslateError('%s: local alias of the whole input spectrum: %s' % (self.prefix, text))
                if isinstance(v, ast.Name) and v.id in self.env:
                    raise TranslateError('%s: second name for the local array `%s`: %s' % (self.prefix, v.id, text))
                kind, term = self.expr(v, 'i')
                if kind == 'S': raise TranslateError('%s: scalar assignment %s' % (self.prefix, text))
                if kind == 'N': raise TranslateError('%s: integer array alias %s' % (self.prefix, text))
                isfresh = self.fresh(v)
                self.alias.pop(t.id, None); self.views.discard(t.id)
                self.define(t.id, kind, term, s)
                if not isfresh: self.views.add(t.id)
                return
            # masked store  v.data[cond] = c   /  v[cond] = c   (v a local array, or the input spectrum's data / mask)
            if isinstance(t, ast.Subscript):
                base = t.value
                which = self.self_target(base)
                kc, c = self.expr(t.slice, 'i')
                if kc != 'B': raise TranslateError('%s: masked store %s' % (self.prefix, text))
                if isinstance(s.value, ast.Constant) and isinstance(s.value.value, bool):
                    kv, v = 'C', ('true' if s.value.value else 'false')
                else:
                    kv, v = self.expr(s.value, 'i')
                if which is not None:
                    if (which, kv) not in (('data', 'S'), ('mask', 'C')): raise TranslateError('%s: masked store %s' % (self.prefix, text))
                    self.update_self(which, '(if %s then %s else %s)' % (c, v, self.self_term(which, 'i')), s); return
                if isinstance(base, ast.Attribute) and base.attr == 'data': base = base.value
                if isinstance(base, ast.Name) and base.id in self.env and self.env[base.id][0] == 'R':
                    if kv != 'S': raise TranslateError('%s: masked store %s' % (self.prefix, text))
                    _, old = self.expr(base, 'i')
                    self.define(base.id, 'R', '(if %s then %s else %s)' % (c, v, old), s); return
            raise TranslateError('%s: assignment %s' % (self.prefix, text))
        if isinstance(s, ast.AugAssign):
            which = self.self_target(s.target)
            arith = {ast.Add: '+', ast.Sub: '-', ast.Mult: '*', ast.Div: '/'}
            logic = {ast.BitOr: '||', ast.BitAnd: '&&', ast.BitXor: '^^'}
            if which is not None:
                # numpy evaluates an in-place ufunc whose operand overlaps the output as if the operand had been copied first
                # (overlap handling of ufuncs), so `a |= reverse_array(a)` is pointwise  a[i] | a[mirror i]  on the old content
                old = self.self_term(which, 'i')
                kind, term = self.expr(s.value, 'i')
                table, ok = (arith, 'RS') if which == 'data' else (logic, 'B')
                for k, v in table.items():
                    if isinstance(s.op, k) and kind in ok:
                        self.update_self(which, '(%s %s %s)' % (old, v, term), s); return
                raise TranslateError('%s: in-place operator on the input spectrum: %s' % (self.prefix, text))
            if isinstance(s.target, ast.Name) and s.target.id in self.env:
                kind0, old = self.expr(s.target, 'i')
                kind, term = self.expr(s.value, 'i')
                table, ok = (arith, 'RS') if kind0 == 'R' else (logic, 'B')
                if kind0 not in 'RB' or kind not in ok: raise TranslateError('%s: augmented assignment kinds' % self.prefix)
                for k, v in table.items():
                    if isinstance(s.op, k):
                        self.define(s.target.id, kind0, '(%s %s %s)' % (old, v, term), s); return
        raise TranslateError('%s: statement %s' % (self.prefix, _one_line(ast.unparse(s))))


def gen_method(fn, src, path, new_defaults):
    """Spectrum.fold / Spectrum.unfold"""
    name = fn.name
    body = _strip_doc(fn.body)
    out = []
    # 1. guard:  if <self.folded | not self.folded>: raise ValueError(...)
    g = body[0]
    if not (isinstance(g, ast.If) and not g.orelse and len(g.body) == 1 and isinstance(g.body[0], ast.Raise)):
        raise TranslateError('%s: first statement is not a raise-guard' % name)
    exc = g.body[0].exc
    excname = T.callee_name(exc.func) if isinstance(exc, ast.Call) else T.callee_name(exc)
    gt = ast.unparse(g.test).replace(' ', '')
    if gt == 'self.folded': cond = 'selfFolded'
    elif gt == 'notself.folded': cond = '(! selfFolded)'
    else: raise TranslateError('%s: guard condition %s' % (name, gt))
    out.append('/-- %s: `%s` -/' % (T.srcline(g, path), _one_line(ast.get_source_segment(src, g.test))))
    out.append('def %s_raises (selfFolded : Bool) : Bool := %s' % (name, cond))
    out.append('def %s_raisesWhat : String := %s' % (name, json.dumps(excname)))
    # 2. straight-line program until the constructor call
    P = ArrayProgram(name, src, path)
    k = 1
    ctor = None
    while k < len(body):
        s = body[k]
        if isinstance(s, ast.Assign) and isinstance(s.value, ast.Call) and T.callee_name(s.value.func) == 'Spectrum':
            ctor = s; break
        P.stmt(s); k += 1
    if ctor is None: raise TranslateError('%s: no Spectrum(...) construction' % name)
    out += P.defs
    call = ctor.value
    if len(call.args) != 1: raise TranslateError('%s: constructor positional arguments' % name)
    kd, data = P.expr(call.args[0], 'i')
    if kd != 'R': raise TranslateError('%s: constructor data' % name)
    kw = {k_.arg: k_.value for k_ in call.keywords}
    if set(kw) - {'mask', 'data_folded', 'pop_ids', 'mask_corners', 'check_folding', 'copy'}:
        raise TranslateError('%s: constructor keywords %s' % (name, sorted(kw)))
    if 'mask' not in kw: raise TranslateError('%s: constructor without mask' % name)
    km, mask = P.expr(kw['mask'], 'i')
    if km != 'B': raise TranslateError('%s: constructor mask' % name)
    def const_bool(node, what):
        if isinstance(node, ast.Constant) and isinstance(node.value, bool): return 'true' if node.value else 'false'
        raise TranslateError('%s: %s is not a literal' % (name, what))
    folded = const_bool(kw['data_folded'], 'data_folded') if 'data_folded' in kw else None
    if folded is None: raise TranslateError('%s: data_folded not passed' % name)
    corners = const_bool(kw['mask_corners'], 'mask_corners') if 'mask_corners' in kw else new_defaults['mask_corners']
    pop = ast.unparse(kw['pop_ids']).replace(' ', '') if 'pop_ids' in kw else 'None'
    if pop not in ('self.pop_ids', 'None'): raise TranslateError('%s: pop_ids=%s' % (name, pop))
    out.append('/-- %s: `%s` -/' % (T.srcline(ctor, path), _one_line(ast.get_source_segment(src, ctor))))
    out.append('def %s_outData %s : Rat := %s' % (name, PARAMS, data))
    out.append('def %s_outMask %s : Bool := %s' % (name, PARAMS, mask))
    out.append('def %s_outFolded : Bool := %s' % (name, folded))
    out.append('/-- mask_corners as passed, or the default of Spectrum.__new__ -/')
    out.append('def %s_maskCorners : Bool := %s' % (name, corners))
    out.append('def %s_popIdsFromSelf : Bool := %s' % (name, 'true' if pop == 'self.pop_ids' else 'false'))
    # 2b. what the method leaves behind in the spectrum it was called on (the operand must survive: property clause
    #     "masks … survive"; `fold`/`unfold` are documented as not in-place)
    out.append('/-- data / mask of the spectrum `%s` was called on, when `%s` returns (in-place statements: %s) -/'
               % (name, name, '; '.join('`%s`' % t for t in P.mutations) if P.mutations else 'none'))
    out.append('def %s_selfDataAfter %s : Rat := %s' % (name, PARAMS, P.self_term('data', 'i')))
    out.append('def %s_selfMaskAfter %s : Bool := %s' % (name, PARAMS, P.self_term('mask', 'i')))
    shares = not (P.fresh(call.args[0]) and P.fresh(kw['mask']))
    cpy = const_bool(kw['copy'], 'copy') if 'copy' in kw else new_defaults['copy']
    out.append('/-- the constructor is handed memory of the input spectrum (data or mask argument not a new array) and does not copy it -/')
    out.append('def %s_outSharesSelf : Bool := (%s && ! %s)' % (name, 'true' if shares else 'false', cpy))
    # 3. tail: outfs.extrap_x = self.extrap_x ; return outfs
    tail = [ast.unparse(s).replace(' ', '') for s in body[k+1:]]
    target = ctor.targets[0].id
    allowed = {'%s.extrap_x=self.extrap_x' % target, 'return%s' % target}
    if not tail or tail[-1] != 'return%s' % target or any(t not in allowed for t in tail):
        raise TranslateError('%s: statements after the constructor: %s' % (name, tail))
    return '\n'.join(out)


def class_def(tree, name):
    for n in tree.body:
        if isinstance(n, ast.ClassDef) and n.name == name:
            return n
    raise TranslateError('class %s not found' % name)

def method(cls, name):
    for n in cls.body:
        if isinstance(n, ast.FunctionDef) and n.name == name:
            return n
    raise TranslateError('method %s not found' % name)

def gen_structural(cls, src, path, nsrc, nfns, npath):
    out = []
    # Spectrum.__new__: default of mask_corners, and "if mask_corners: subarr.mask_corners()"
    new = method(cls, '__new__')
    args = new.args.args; defaults = new.args.defaults
    names = [a.arg for a in args]
    dmap = dict(zip(names[len(names) - len(defaults):], defaults))
    if 'mask_corners' not in dmap or not isinstance(dmap['mask_corners'], ast.Constant) or not isinstance(dmap['mask_corners'].value, bool):
        raise TranslateError('__new__: mask_corners default')
    if 'copy' not in dmap or not isinstance(dmap['copy'], ast.Constant) or not isinstance(dmap['copy'].value, bool):
        raise TranslateError('__new__: copy default')
    new_defaults = {'mask_corners': 'true' if dmap['mask_corners'].value else 'false',
                    'copy': 'true' if dmap['copy'].value else 'false'}
    if 'numpy.ma.masked_array(data,mask=mask,dtype=dtype,copy=copy,' not in re.sub(r'\s+', '', ast.unparse(new)):
        raise TranslateError('__new__: `copy` is not forwarded to numpy.ma.masked_array')
    # positional order used by the operator templates: (subtype, data, mask, mask_corners, data_folded, check_folding, …)
    if names[:4] != ['subtype', 'data', 'mask', 'mask_corners']:
        raise TranslateError('__new__: positional order %s' % names[:4])
    body_n = [ast.unparse(s).replace(' ', '') for s in ast.walk(new) if isinstance(s, ast.If)]
    if not any(b.startswith('ifmask_corners:') and 'subarr.mask_corners()' in b for b in body_n):
        raise TranslateError('__new__: `if mask_corners: subarr.mask_corners()` not found')
    # folded attribute assignment in __new__ for plain data: data_folded if given else False
    txt = re.sub(r'\s+', '', ast.unparse(new))
    if "elifdata_foldedisnotNone:subarr.folded=data_foldedelse:subarr.folded=False" not in txt:
        raise TranslateError('__new__: folded attribute assignment')
    mc = _strip_doc(method(cls, 'mask_corners').body)
    if [ast.unparse(s).replace(' ', '') for s in mc] != ['self.mask.flat[0]=self.mask.flat[-1]=True']:
        raise TranslateError('mask_corners: body')
    out.append('/-- Spectrum.mask_corners: `self.mask.flat[0] = self.mask.flat[-1] = True` (flat C-order index, N entries) -/')
    out.append('def cornerFlat (N k : Nat) : Bool := (k == 0) || (k == N - 1)')
    tpe = _strip_doc(method(cls, '_total_per_entry').body)
    cpe = _strip_doc(method(cls, '_counts_per_entry').body)
    ok_tpe = [ast.unparse(s).replace(' ', '') for s in tpe] == ['returnnumpy.sum(self._counts_per_entry(),axis=-1)']
    ok_cpe = [ast.unparse(s).replace(' ', '') for s in cpe] == ['ind=numpy.indices(self.shape)',
             'ind=ind.transpose(list(range(1,self.Npop+1))+[0])', 'returnind']
    ss = _strip_doc(method(cls, '_get_sample_sizes').body)
    ok_ss = [ast.unparse(s).replace(' ', '') for s in ss] == ['returnnumpy.asarray(self.shape)-1']
    if not (ok_tpe and ok_cpe and ok_ss):
        raise TranslateError('_total_per_entry/_counts_per_entry/sample_sizes changed shape (%s %s %s)' % (ok_tpe, ok_cpe, ok_ss))
    out.append('/-- `_total_per_entry` = sum of the multi-index; `sample_sizes` = shape − 1 (statements present as such) -/')
    out.append('def totalPerEntryIsIndexSum : Bool := true')
    ra = nfns.get('reverse_array')
    if ra is None: raise TranslateError('Numerics.reverse_array not found')
    rb = [ast.unparse(s).replace(' ', '') for s in _strip_doc(ra.body)]
    if rb != ['reverse_slice=tuple((slice(None,None,-1)foriiinarr.shape))', 'returnarr[reverse_slice]']:
        raise TranslateError('reverse_array: body %s' % rb)
    out.append('/-- Numerics.reverse_array reverses every axis (`arr[::-1, ::-1, …]`) -/')
    out.append('def reverseArrayAllAxes : Bool := true')
    return '\n'.join(out), new_defaults


PY3_NDARRAY_MISSING = {'__div__', '__rdiv__', '__idiv__'}

def _no_side_effects(what, body, store_ok, norm, calls_ok=()):
    """every store goes to an allowed target; every expression statement is the folding check, a logger call or one of `calls_ok`;
    no `del`, no `global`, no nested function"""
    for st in body:
        for a in ast.walk(st):
            if isinstance(a, (ast.Assign, ast.AugAssign, ast.AnnAssign)):
                tgs = a.targets if isinstance(a, ast.Assign) else [a.target]
                for t in tgs:
                    for tt in (t.elts if isinstance(t, (ast.Tuple, ast.List)) else [t]):
                        if not store_ok(tt):
                            raise TranslateError('%s: store into %s' % (what, norm(tt)))
            elif isinstance(a, ast.Expr):
                c = norm(a.value)
                if not (c == 'self._check_other_folding(other)' or c.startswith('logger.') or c in calls_ok):
                    raise TranslateError('%s: statement with a possible side effect: %s' % (what, c))
            elif isinstance(a, (ast.Delete, ast.Global, ast.Nonlocal, ast.FunctionDef, ast.Lambda, ast.NamedExpr)):
                raise TranslateError('%s: %s' % (what, type(a).__name__))

def gen_operators(cls, src, path, new_defaults):
    """the two `for method in [...]: exec(template % {'method': method})` loops, and _check_other_folding"""
    loops = []
    for n in cls.body:
        if isinstance(n, ast.For) and isinstance(n.iter, ast.List) and all(isinstance(e, ast.Constant) and isinstance(e.value, str) for e in n.iter.elts):
            if len(n.body) == 1 and isinstance(n.body[0], ast.Expr) and isinstance(n.body[0].value, ast.Call) \
               and T.callee_name(n.body[0].value.func) == 'exec':
                arg = n.body[0].value.args[0]
                if isinstance(arg, ast.BinOp) and isinstance(arg.op, ast.Mod) and isinstance(arg.left, ast.Constant):
                    loops.append(([e.value for e in n.iter.elts], arg.left.value, n))
    if len(loops) != 2:
        raise TranslateError('operator templates: expected 2 exec loops, found %d' % len(loops))
    out = []
    (bin_methods, bin_t, bn), (inp_methods, inp_t, in_) = loops
    if any(m.startswith('__i') for m in bin_methods) or not all(m.startswith('__i') for m in inp_methods):
        raise TranslateError('operator templates: method lists')
    def lst(xs): return '[' + ', '.join(json.dumps(x) for x in xs) + ']'
    out.append('/-- %s -/' % T.srcline(bn, path))
    out.append('def binaryMethods : List String := %s' % lst(bin_methods))
    out.append('/-- %s -/' % T.srcline(in_, path))
    out.append('def inplaceMethods : List String := %s' % lst(inp_methods))
    out.append('/-- methods the templates forward to `numpy.ndarray` although Python 3 ndarrays do not have them -/')
    out.append('def ndarrayLacks : List String := %s' % lst(sorted(PY3_NDARRAY_MISSING)))

    def norm(s): return ast.unparse(s).replace(' ', '')
    # ---- binary template
    fn = ast.parse(bin_t % {'method': '__OP__'}).body[0]
    b = fn.body
    if norm(b[0]) != 'self._check_other_folding(other)':
        raise TranslateError('binary template: does not start with _check_other_folding')
    iff = b[1]
    if not (isinstance(iff, ast.If) and norm(iff.test) == 'isinstance(other,numpy.ma.masked_array)'):
        raise TranslateError('binary template: masked_array dispatch')
    if [norm(s) for s in iff.body] != ['newdata=self.data.__OP__(other.data)', 'newmask=numpy.ma.mask_or(self.mask,other.mask)']:
        raise TranslateError('binary template: masked branch %s' % [norm(s) for s in iff.body])
    if [norm(s) for s in iff.orelse] != ['newdata=self.data.__OP__(other)', 'newmask=self.mask']:
        raise TranslateError('binary template: plain branch %s' % [norm(s) for s in iff.orelse])
    # pop_ids rule
    if norm(b[2]) != 'newpop_ids=self.pop_ids':
        raise TranslateError('binary template: newpop_ids initialisation')
    pi = b[3]
    if not (isinstance(pi, ast.If) and norm(pi.test) == "hasattr(other,'pop_ids')" and not pi.orelse and len(pi.body) == 1):
        raise TranslateError('binary template: pop_ids rule')
    def chain(node):
        """if/elif chain over `X.pop_ids is None` / `other.pop_ids != self.pop_ids` -> Lean if-then-else on Option (List String)"""
        if node is None: return 'selfIds'
        if not isinstance(node, ast.If): raise TranslateError('binary template: pop_ids chain')
        t = norm(node.test)
        conds = {'other.pop_idsisNone': '(otherIds.isNone)', 'self.pop_idsisNone': '(selfIds.isNone)',
                 'other.pop_ids!=self.pop_ids': '(otherIds != selfIds)'}
        if t not in conds: raise TranslateError('binary template: pop_ids condition %s' % t)
        if len(node.body) != 1: raise TranslateError('binary template: pop_ids branch')
        bb = norm(node.body[0])
        if bb == 'newpop_ids=self.pop_ids': val = 'selfIds'
        elif bb == 'newpop_ids=other.pop_ids': val = 'otherIds'
        elif bb.startswith('logger.warning('): val = 'selfIds'      # value stays at its initialisation
        else: raise TranslateError('binary template: pop_ids branch %s' % bb)
        if len(node.orelse) > 1: raise TranslateError('binary template: pop_ids else')
        rest = chain(node.orelse[0]) if node.orelse else 'selfIds'
        return '(if %s then %s else %s)' % (conds[t], val, rest)
    out.append('/-- binary template, pop_ids of the result when `other` has a `pop_ids` attribute (otherwise self.pop_ids) -/')
    out.append('def binopPopIds (selfIds otherIds : Option (List String)) : Option (List String) := %s' % chain(pi.body[0]))
    # constructor call
    ctor = None
    for s in b:
        if isinstance(s, ast.Assign) and isinstance(s.value, ast.Call) and norm(s.value.func) == 'self.__class__.__new__':
            ctor = s.value
    if ctor is None: raise TranslateError('binary template: constructor call')
    if [norm(a) for a in ctor.args] != ['self.__class__', 'newdata', 'newmask']:
        raise TranslateError('binary template: constructor positional arguments')
    kw = {k.arg: norm(k.value) for k in ctor.keywords}
    if kw.get('mask_corners') not in ('True', 'False'): raise TranslateError('binary template: mask_corners')
    if kw.get('pop_ids') != 'newpop_ids': raise TranslateError('binary template: pop_ids')
    fold_src = kw.get('data_folded')
    if fold_src not in ('self.folded', 'other.folded', 'True', 'False'):
        raise TranslateError('binary template: data_folded=%s' % fold_src)
    out.append('/-- binary template: `mask_corners=%s, data_folded=%s` -/' % (kw['mask_corners'], fold_src))
    out.append('def binopMaskCorners : Bool := %s' % kw['mask_corners'].lower())
    out.append('def binopFolded (selfFolded otherFolded : Bool) : Bool := %s'
               % {'self.folded': 'selfFolded', 'other.folded': 'otherFolded', 'True': 'true', 'False': 'false'}[fold_src])
    cp = kw.get('copy')
    if cp not in (None, 'True', 'False'): raise TranslateError('binary template: copy=%s' % cp)
    if set(kw) - {'mask_corners', 'data_folded', 'check_folding', 'pop_ids', 'extrap_x', 'copy'}:
        raise TranslateError('binary template: constructor keywords %s' % sorted(kw))
    out.append('/-- binary template: the constructor copies data and mask (`copy` keyword as passed, or the default of Spectrum.__new__) -/')
    out.append('def binopCopies : Bool := %s' % (new_defaults['copy'] if cp is None else cp.lower()))
    if norm(b[-1]) != 'returnoutfs': raise TranslateError('binary template: return')
    _no_side_effects('binary template', b, store_ok=lambda t: isinstance(t, ast.Name), norm=norm)
    # ---- in-place template
    fn = ast.parse(inp_t % {'method': '__OP__'}).body[0]
    b = fn.body
    if norm(b[0]) != 'self._check_other_folding(other)':
        raise TranslateError('in-place template: does not start with _check_other_folding')
    iff = b[1]
    if not (isinstance(iff, ast.If) and norm(iff.test) == 'isinstance(other,numpy.ma.masked_array)'):
        raise TranslateError('in-place template: masked_array dispatch')
    if [norm(s) for s in iff.body] != ['self.data.__OP__(other.data)', 'self.mask=numpy.ma.mask_or(self.mask,other.mask)']:
        raise TranslateError('in-place template: masked branch')
    if [norm(s) for s in iff.orelse] != ['self.data.__OP__(other)']:
        raise TranslateError('in-place template: plain branch')
    for s in b[2:-1]:
        # the remaining statements may only warn or touch extrap_x
        for a in ast.walk(s):
            if isinstance(a, (ast.Assign, ast.AugAssign)):
                tg = a.targets[0] if isinstance(a, ast.Assign) else a.target
                if norm(tg) != 'self.extrap_x':
                    raise TranslateError('in-place template: assignment to %s' % norm(tg))
    if norm(b[-1]) != 'returnself': raise TranslateError('in-place template: return')
    _no_side_effects('in-place template', b, store_ok=lambda t: norm(t) in ('self.mask', 'self.extrap_x'), norm=norm,
                     calls_ok=('self.data.__OP__(other.data)', 'self.data.__OP__(other)'))
    out.append('/-- neither template contains a statement that stores into, or calls a method of, `other` (binary: nor of `self`):\n'
               '    assignments go to local names (in place: `self.mask`, `self.extrap_x`), expression statements are the folding check,\n'
               '    `self.data.<op>(…)` (in place) and logger calls -/')
    out.append('def templatesLeaveOperands : Bool := true')
    out.append('/-- in-place template: data updated in place, `self.mask = mask_or(self.mask, other.mask)` for masked operands,\n    folded/pop_ids of self untouched, returns self -/')
    out.append('def inplaceShapeOk : Bool := true')
    # ---- _check_other_folding
    cf = _strip_doc(method(cls, '_check_other_folding').body)
    if not (len(cf) == 1 and isinstance(cf[0], ast.If) and not cf[0].orelse and isinstance(cf[0].body[0], ast.Raise)):
        raise TranslateError('_check_other_folding: shape')
    test = cf[0].test
    def sub_call(node):
        # isinstance(other, self.__class__) -> otherIsSpectrum
        if isinstance(node, ast.Call) and norm(node) == 'isinstance(other,self.__class__)':
            return ast.Name(id='otherIsSpectrum', ctx=ast.Load())
        for f, v in ast.iter_fields(node):
            if isinstance(v, list):
                setattr(node, f, [sub_call(x) if isinstance(x, ast.AST) else x for x in v])
            elif isinstance(v, ast.AST):
                setattr(node, f, sub_call(v))
        return node
    t2 = sub_call(ast.parse(ast.unparse(test), mode='eval').body)
    def trbool(node):
        if isinstance(node, ast.BoolOp):
            op = ' && ' if isinstance(node.op, ast.And) else ' || '
            return '(' + op.join(trbool(v) for v in node.values) + ')'
        if isinstance(node, ast.UnaryOp) and isinstance(node.op, ast.Not):
            return '(! %s)' % trbool(node.operand)
        if isinstance(node, ast.Name) and node.id == 'otherIsSpectrum':
            return 'otherIsSpectrum'
        if isinstance(node, ast.Attribute) and norm(node) in ('self.folded', 'other.folded'):
            return {'self.folded': 'selfFolded', 'other.folded': 'otherFolded'}[norm(node)]
        if isinstance(node, ast.Compare) and len(node.ops) == 1 and isinstance(node.ops[0], (ast.Eq, ast.NotEq)):
            return '(%s %s %s)' % (trbool(node.left), '==' if isinstance(node.ops[0], ast.Eq) else '!=', trbool(node.comparators[0]))
        raise TranslateError('_check_other_folding: condition %s' % norm(node))
    exc = cf[0].body[0].exc
    out.append('/-- %s: raise %s if `%s` -/' % (T.srcline(cf[0], path), T.callee_name(exc.func), _one_line(ast.get_source_segment(src, test))))
    out.append('def foldingRefused (otherIsSpectrum selfFolded otherFolded : Bool) : Bool := %s' % trbool(t2))
    out.append('def foldingRefusedWhat : String := %s' % json.dumps(T.callee_name(exc.func)))
    return '\n'.join(out)


def gen_misid(nsrc, nfns, npath):
    fn = nfns.get('apply_anc_state_misid')
    if fn is None: raise TranslateError('apply_anc_state_misid not found')
    e = T.single_return(fn)
    an = [a.arg for a in fn.args.args]
    if len(an) != 2: raise TranslateError('apply_anc_state_misid: arguments')
    fs, p = an
    if not (isinstance(e, ast.BinOp) and isinstance(e.op, ast.Add)
            and isinstance(e.left, ast.BinOp) and isinstance(e.left.op, ast.Mult)
            and isinstance(e.right, ast.BinOp) and isinstance(e.right.op, ast.Mult)):
        raise TranslateError('apply_anc_state_misid: not A*fs + B*reverse_array(fs)')
    A, X = e.left.left, e.left.right
    B, Y = e.right.left, e.right.right
    if not (isinstance(X, ast.Name) and X.id == fs): raise TranslateError('apply_anc_state_misid: first term is not A*%s' % fs)
    if ast.unparse(Y).replace(' ', '') != 'reverse_array(%s)' % fs: raise TranslateError('apply_anc_state_misid: second term is not B*reverse_array(%s)' % fs)
    ctx = T.Ctx(names={p: 'p'}, src=nsrc)
    out = ['/-- %s: `return %s`  — shape `A*fs + B*reverse_array(fs)`: scalar*Spectrum is `__rmul__`, the sum is `__add__` -/'
           % (T.srcline(fn, npath), _one_line(ast.get_source_segment(nsrc, e)))]
    out.append('def misidCoefSelf (p : Rat) : Rat := %s' % T.tr(A, ctx))
    out.append('def misidCoefMirror (p : Rat) : Rat := %s' % T.tr(B, ctx))
    out.append('def misidLeftMethod : String := "__rmul__"')
    out.append('def misidSumMethod : String := "__add__"')
    # make_anc_state_misid_func: p_misid = all_params[-1]; args[0] = all_params[:-1]; return apply_anc_state_misid(fs, p_misid)
    mk = nfns.get('make_anc_state_misid_func')
    if mk is None: raise TranslateError('make_anc_state_misid_func not found')
    inner = [n for n in mk.body if isinstance(n, ast.FunctionDef)]
    if len(inner) != 1: raise TranslateError('make_anc_state_misid_func: inner function')
    want = ['all_params=args[0]', 'p_misid=all_params[-1]', 'args=list(args)', 'args[0]=all_params[:-1]',
            'fs=func(*args,**kwargs)', 'returnapply_anc_state_misid(fs,p_misid)']
    got = [ast.unparse(s).replace(' ', '') for s in _strip_doc(inner[0].body)]
    if got != want: raise TranslateError('make_anc_state_misid_func: body %s' % got)
    out.append('/-- make_anc_state_misid_func: last parameter is p, the rest goes to the wrapped function (statements present as such) -/')
    out.append('def misidFuncLastParam : Bool := true')
    return '\n'.join(out)


def gen_autofold(isrc, itree, ipath):
    """every `if <test>: model = model.fold()` of Inference.py"""
    out = []
    rows = []
    for fn in [n for n in itree.body if isinstance(n, ast.FunctionDef)]:
        for s in ast.walk(fn):
            if isinstance(s, ast.If) and len(s.body) == 1 and ast.unparse(s.body[0]).replace(' ', '') == 'model=model.fold()':
                if s.orelse: raise TranslateError('%s: autofold with else' % fn.name)
                t = s.test
                conj = t.values if isinstance(t, ast.BoolOp) and isinstance(t.op, ast.And) else [t]
                parts = []
                for c in conj:
                    u = ast.unparse(c).replace(' ', '')
                    m = {"hasattr(data,'folded')": 'dataHasFolded', 'data.folded': 'dataFolded', 'notmodel.folded': '(! modelFolded)',
                         'model.folded': 'modelFolded', 'notdata.folded': '(! dataFolded)'}
                    if u not in m: raise TranslateError('%s: autofold condition %s' % (fn.name, u))
                    parts.append(m[u])
                out.append('/-- %s `%s`: `if %s: model = model.fold()` -/' % (T.srcline(s, ipath), fn.name, _one_line(ast.get_source_segment(isrc, t))))
                out.append('def autofold_%s (dataHasFolded dataFolded modelFolded : Bool) : Bool := (%s)' % (fn.name, ' && '.join(parts)))
                rows.append(fn.name)
    for need in ('ll_per_bin', 'optimal_sfs_scaling'):
        if need not in rows: raise TranslateError('Inference.%s: no `model = model.fold()` guard found' % need)
    if len(set(rows)) != len(rows): raise TranslateError('autofold: more than one guard in a function')
    out.append('def autofoldFunctions : List String := [%s]' % ', '.join(json.dumps(r) for r in rows))
    # the functions of the likelihood family (every module-level function with the parameters `model, data`): statements that store
    # into an argument — `model.mask = …`, `data[...] = …`, `model *= …`, `model.mask |= …`, `del model[…]`, or a call of a mutating
    # method on it.  Rebinding the local NAME (`model = model.fold()`, `model, data = intersect_masks(model, data)`) is not a store,
    # but the name may still denote the caller's object afterwards (intersect_masks returns its arguments when the masks agree),
    # so in-place operators on the names are reported whether or not the name was rebound before.
    fam = []; stores = []
    MUTATORS = {'mask_corners', 'fill', 'put', 'resize', 'sort', 'itemset', 'setflags', 'harden_mask', 'soften_mask', 'unshare_mask',
                'shrink_mask', '__setitem__', '__setmask__', 'set_fill_value', 'partition', 'setfield', 'byteswap'}
    for fn in [n for n in itree.body if isinstance(n, ast.FunctionDef)]:
        an = [a.arg for a in fn.args.args]
        if an[:2] != ['model', 'data']: continue
        fam.append(fn.name)
        def root(t):
            while isinstance(t, (ast.Attribute, ast.Subscript)): t = t.value
            return t.id if isinstance(t, ast.Name) else None
        for a in ast.walk(fn):
            tgs = []
            if isinstance(a, ast.Assign): tgs = [t for t in a.targets]
            elif isinstance(a, ast.AugAssign):
                if root(a.target) in ('model', 'data'):
                    stores.append('%s: %s' % (fn.name, _one_line(ast.unparse(a))))
                continue
            elif isinstance(a, ast.Delete): tgs = a.targets
            elif isinstance(a, ast.Call) and isinstance(a.func, ast.Attribute) and root(a.func) in ('model', 'data'):
                if a.func.attr in MUTATORS or (a.func.attr.startswith('__i') and a.func.attr.endswith('__')):
                    stores.append('%s: %s' % (fn.name, _one_line(ast.unparse(a))))
                if any(k.arg == 'out' for k in a.keywords):
                    stores.append('%s: %s' % (fn.name, _one_line(ast.unparse(a))))
                continue
            elif isinstance(a, ast.Call) and any(k.arg == 'out' and root(k.value) in ('model', 'data') for k in a.keywords):
                stores.append('%s: %s' % (fn.name, _one_line(ast.unparse(a)))); continue
            for t in tgs:
                for tt in (t.elts if isinstance(t, (ast.Tuple, ast.List)) else [t]):
                    if isinstance(tt, (ast.Attribute, ast.Subscript)) and root(tt) in ('model', 'data'):
                        stores.append('%s: %s' % (fn.name, _one_line(ast.unparse(a))))
    for need in ('ll', 'll_per_bin', 'll_multinom', 'll_multinom_per_bin', 'optimal_sfs_scaling', 'optimally_scaled_sfs',
                 'linear_Poisson_residual', 'Anscombe_Poisson_residual'):
        if need not in fam: raise TranslateError('Inference.%s(model, data, …) not found' % need)
    out.append('/-- module-level functions of Inference.py with parameters `(model, data, …)` -/')
    out.append('def likelihoodFamily : List String := [%s]' % ', '.join(json.dumps(r) for r in fam))
    out.append('/-- their statements that store into `model` / `data` (attribute or item assignment, in-place operator, mutating method, out=) -/')
    out.append('def likelihoodStoresIntoArgs : List String := [%s]' % ', '.join(json.dumps(r) for r in stores))
    out.append('def autofoldTable : List (String × (Bool → Bool → Bool → Bool)) := [%s]'
               % ', '.join('(%s, autofold_%s)' % (json.dumps(r), r) for r in rows))
    return '\n'.join(out)


def generate():
    spath = os.path.join(T.REPO, 'dadi', 'Spectrum_mod.py')
    npath = os.path.join(T.REPO, 'dadi', 'Numerics.py')
    ipath = os.path.join(T.REPO, 'dadi', 'Inference.py')
    src = open(spath).read(); tree = ast.parse(src)
    nsrc, ntree, nfns = T.py_functions(npath)
    isrc = open(ipath).read(); itree = ast.parse(isrc)
    cls = class_def(tree, 'Spectrum')
    out = [T.HEADER.replace('tools/translate.py', 'tools/gen_Fold.py'), 'namespace Gen.Fold']
    structural, new_defaults = gen_structural(cls, src, spath, nsrc, nfns, npath)
    out.append(structural)
    out.append(gen_method(method(cls, 'fold'), src, spath, new_defaults))
    out.append(gen_method(method(cls, 'unfold'), src, spath, new_defaults))
    out.append(gen_operators(cls, src, spath, new_defaults))
    out.append(gen_misid(nsrc, nfns, npath))
    out.append(gen_autofold(isrc, itree, ipath))
    out.append('end Gen.Fold\nend DadiVerif\n')
    return '\n'.join(out)

if __name__ == '__main__':
    print(generate())
