"""T tie for C09: regenerate lean/DadiVerif/Generated/Fold.lean from the current source of

  * Spectrum.fold / Spectrum.unfold (dadi/Spectrum_mod.py): the straight-line *array program* is translated
    statement by statement into pointwise Lean definitions over an abstract index type `ι` with
    `mirror : ι → ι` (= Numerics.reverse_array), `total : ι → Nat` (= _total_per_entry), `T` (= total_samples),
    `x : ι → Rat` (= self.data), `m : ι → Bool` (= self.mask);
  * Spectrum.__new__ default of mask_corners, Spectrum.mask_corners, Numerics.reverse_array, _total_per_entry,
    sample_sizes (structural: the exact statement must be present);
  * the two exec-templates of the arithmetic operators, their method lists, and _check_other_folding;
  * Numerics.apply_anc_state_misid (shape A*fs + B*reverse_array(fs), A and B translated);
  * the `model = model.fold()` guards of Inference.py.

Only the constructs listed below are accepted; anything else raises TranslateError (never a guess).
"""
import ast, os, re, json
import translate as T
from translate import TranslateError

NAME = 'Fold'

PARAMS = '{ι : Type} (mirror : ι → ι) (total : ι → Nat) (T : Nat) (x : ι → Rat) (m : ι → Bool) (i : ι)'
ARGS = 'mirror total T x m'

def _one_line(s):
    return re.sub(r'\s+', ' ', s).replace('-/', '- /').strip()

def _strip_doc(body):
    return [s for s in body if not (isinstance(s, ast.Expr) and isinstance(s.value, ast.Constant) and isinstance(s.value.value, str))]

def _num(node, src):
    """exact literal (possibly negated)"""
    if isinstance(node, ast.Constant) and isinstance(node.value, (int, float)) and not isinstance(node.value, bool):
        s = ast.get_source_segment(src, node) or repr(node.value)
        return T.lit(s)
    if isinstance(node, ast.UnaryOp) and isinstance(node.op, ast.USub):
        inner = _num(node.operand, src)
        return None if inner is None else '(- %s)' % inner
    return None

class ArrayProgram:
    """pointwise translation of a straight-line numpy program.
    env: python name -> (kind, leanDefName) with kind in {'R','B'}; special names handled in `leaf`."""
    def __init__(self, prefix, src, path):
        self.prefix = prefix; self.src = src; self.path = path
        self.env = {}
        self.version = {}
        self.defs = []       # lean text
        self.have_T = False; self.have_total = False
        # --- state of the spectrum the method was GIVEN (`self`), for the "operands survive" clause:
        #     selfv[k] = None (still the argument) or the Lean definition of its current content after in-place updates;
        #     alias[name] = 'data' | 'mask' for local names bound to `self.data` / `self.mask` themselves (numpy views of
        #     the caller's buffers: an in-place operation through such a name is an update of `self`);
        #     views = local names bound to a non-fresh expression over those buffers (reverse_array(self.mask), …)
        self.selfv = {'data': None, 'mask': None}
        self.alias = {}
        self.views = set()
        self.mutations = []  # source text of every statement that updates `self`
        self.names = []      # every Lean definition of this program, in order (for the generated unfold list)

    # ---- the caller's spectrum
    def self_term(self, which, idx):
        d = self.selfv[which]
        if d is None:
            return '(%s %s)' % ({'data': 'x', 'mask': 'm'}[which], idx)
        return '(%s %s %s)' % (d, ARGS, idx)

    def self_target(self, node):
        """'data' / 'mask' if `node` denotes the caller's own buffer (self.data, self.mask, a local alias of one of them,
        <alias>.data), None if it is a local array; TranslateError for anything that may share memory with `self` in a way
        this translator does not follow"""
        nm = T.callee_name(node) if isinstance(node, (ast.Name, ast.Attribute)) else None
        if nm == 'self.data': return 'data'
        if nm == 'self.mask': return 'mask'
        if nm == 'self' or (nm or '').startswith('self.'):
            raise TranslateError('%s: in-place update of %s' % (self.prefix, nm))
        if isinstance(node, ast.Name):
            if node.id in self.alias: return self.alias[node.id]
            if node.id in self.views:
                raise TranslateError('%s: in-place update of `%s`, a view of the input spectrum' % (self.prefix, node.id))
            return None
        if isinstance(node, ast.Attribute) and node.attr == 'data' and isinstance(node.value, ast.Name):
            return self.self_target(node.value)
        raise TranslateError('%s: in-place target %s' % (self.prefix, _one_line(ast.unparse(node))))

    def fresh(self, node):
        """does evaluating `node` allocate a new array (True), or can it hand out memory of `self` (False)?"""
        nm = T.callee_name(node) if isinstance(node, (ast.Name, ast.Attribute)) else None
        if nm in ('self', 'self.data', 'self.mask'):
            return False
        if isinstance(node, ast.Name):
            return node.id not in self.alias and node.id not in self.views
        if isinstance(node, ast.Call):
            cn = T.callee_name(node.func)
            if cn in ('reverse_array', 'numpy.ma.masked_array') and len(node.args) == 1:
                return self.fresh(node.args[0])      # a view of / a wrapper around its argument
            return True                              # numpy.where, logical_*: new arrays
        return True                                  # arithmetic, comparisons, literals

    def update_self(self, which, term, stmt):
        if self.views:
            raise TranslateError('%s: the input spectrum is updated while views of it are alive (%s)' % (self.prefix, sorted(self.views)))
        v = self.version.get('self_' + which, 0) + 1
        self.version['self_' + which] = v
        d = '%s_self_%s_%d' % (self.prefix, which, v)
        self.defs.append('/-- %s: `%s`  — updates the spectrum the method was called on -/'
                         % (T.srcline(stmt, self.path), _one_line(ast.get_source_segment(self.src, stmt))))
        self.defs.append('def %s %s : %s := %s' % (d, PARAMS, {'data': 'Rat', 'mask': 'Bool'}[which], term))
        self.names.append(d)
        self.selfv[which] = d
        self.mutations.append(_one_line(ast.get_source_segment(self.src, stmt)))

    # ---- expressions
    def leaf(self, node, idx):
        nm = T.callee_name(node) if isinstance(node, (ast.Name, ast.Attribute)) else None
        if nm in ('self', 'self.data'):
            return 'R', self.self_term('data', idx)
        if nm == 'self.mask':
            return 'B', self.self_term('mask', idx)
        if isinstance(node, ast.Name) and node.id in self.alias:
            k = self.alias[node.id]
            return {'data': 'R', 'mask': 'B'}[k], self.self_term(k, idx)
        if nm == 'total_per_entry':
            if not self.have_total: raise TranslateError('%s: total_per_entry used before its definition' % self.prefix)
            return 'N', '(total %s)' % idx
        if isinstance(node, ast.Name) and node.id in self.env:
            kind, d = self.env[node.id]
            return kind, '(%s %s %s)' % (d, ARGS, idx)
        return None

    def expr(self, node, idx):
        """-> (kind, lean term at index idx); kind 'R' Rat array, 'B' Bool array, 'S' Rat scalar"""
        lf = self.leaf(node, idx)
        if lf is not None:
            return lf
        n = _num(node, self.src)
        if n is not None:
            return 'S', n
        if isinstance(node, ast.Call):
            cn = T.callee_name(node.func)
            if node.keywords:
                raise TranslateError('%s: keyword call %s' % (self.prefix, cn))
            a = node.args
            if cn == 'reverse_array' and len(a) == 1:
                return self.expr(a[0], '(mirror %s)' % idx)
            if cn == 'numpy.where' and len(a) == 3:
                kc, c = self.expr(a[0], idx); ka, va = self.expr(a[1], idx); kb, vb = self.expr(a[2], idx)
                if kc != 'B' or ka not in 'RS' or kb not in 'RS':
                    raise TranslateError('%s: numpy.where kinds' % self.prefix)
                return 'R', '(if %s then %s else %s)' % (c, va, vb)
            if cn in ('numpy.logical_or', 'numpy.logical_xor', 'numpy.logical_and') and len(a) == 2:
                ka, va = self.expr(a[0], idx); kb, vb = self.expr(a[1], idx)
                if ka != 'B' or kb != 'B':
                    raise TranslateError('%s: %s on non-boolean' % (self.prefix, cn))
                op = {'numpy.logical_or': '||', 'numpy.logical_xor': '^^', 'numpy.logical_and': '&&'}[cn]
                return 'B', '(%s %s %s)' % (va, op, vb)
            if cn == 'numpy.logical_not' and len(a) == 1:
                ka, va = self.expr(a[0], idx)
                if ka != 'B': raise TranslateError('%s: logical_not on non-boolean' % self.prefix)
                return 'B', '(! %s)' % va
            if cn == 'numpy.ma.masked_array' and len(a) == 1:
                k, v = self.expr(a[0], idx)
                if k != 'R': raise TranslateError('%s: masked_array of non-data' % self.prefix)
                return 'R', v        # fresh masked array without mask: the data
            raise TranslateError('%s: call %s' % (self.prefix, cn))
        if isinstance(node, ast.BinOp):
            ops = {ast.Add: '+', ast.Sub: '-', ast.Mult: '*', ast.Div: '/'}
            for k, v in ops.items():
                if isinstance(node.op, k):
                    kl, l = self.expr(node.left, idx); kr, r = self.expr(node.right, idx)
                    if kl not in 'RS' or kr not in 'RS':
                        raise TranslateError('%s: arithmetic on non-numeric arrays' % self.prefix)
                    return ('S' if kl == kr == 'S' else 'R'), '(%s %s %s)' % (l, v, r)
            raise TranslateError('%s: operator %s' % (self.prefix, type(node.op).__name__))
        if isinstance(node, ast.UnaryOp) and isinstance(node.op, ast.USub):
            k, v = self.expr(node.operand, idx)
            if k not in 'RS': raise TranslateError('%s: negation' % self.prefix)
            return k, '(- %s)' % v
        if isinstance(node, ast.Compare) and len(node.ops) == 1:
            return 'B', self.compare(node, idx)
        raise TranslateError('%s: expression %s' % (self.prefix, _one_line(ast.unparse(node))))

    def compare(self, node, idx):
        """the two threshold idioms on total_per_entry"""
        left = ast.unparse(node.left).replace(' ', ''); right = ast.unparse(node.comparators[0]).replace(' ', '')
        op = node.ops[0]
        if left != 'total_per_entry' or not (self.have_T and self.have_total):
            raise TranslateError('%s: comparison %s' % (self.prefix, _one_line(ast.unparse(node))))
        # int(total_samples/2): truncation of a non-negative quotient = Nat division
        if right == 'int(total_samples/2)':
            rhs = '(T / 2)'; lhs = '(total %s)' % idx
            m = {ast.Gt: '>', ast.GtE: '≥', ast.Lt: '<', ast.LtE: '≤'}
            for k, v in m.items():
                if isinstance(op, k):
                    return '(decide (%s %s %s))' % (lhs, v, rhs)
            if isinstance(op, ast.Eq): return '(%s == %s)' % (lhs, rhs)
            raise TranslateError('%s: comparison operator' % self.prefix)
        # total_samples/2. : float true division, compared with an integer array = comparison in Rat
        if right in ('total_samples/2.', 'total_samples/2.0', 'total_samples/2'):
            lhs = '((total %s : Nat) : Rat)' % idx; rhs = '((T : Rat) / 2)'
            if isinstance(op, ast.Eq): return '(%s == %s)' % (lhs, rhs)
            m = {ast.Gt: '>', ast.GtE: '≥', ast.Lt: '<', ast.LtE: '≤'}
            for k, v in m.items():
                if isinstance(op, k):
                    return '(decide (%s %s %s))' % (lhs, v, rhs)
        raise TranslateError('%s: comparison %s' % (self.prefix, _one_line(ast.unparse(node))))

    # ---- statements
    def define(self, pyname, kind, term, stmt):
        v = self.version.get(pyname, 0) + 1
        self.version[pyname] = v
        d = '%s_%s_%d' % (self.prefix, pyname, v)
        ty = {'R': 'Rat', 'B': 'Bool'}[kind]
        self.defs.append('/-- %s: `%s` -/' % (T.srcline(stmt, self.path), _one_line(ast.get_source_segment(self.src, stmt))))
        self.defs.append('def %s %s : %s := %s' % (d, PARAMS, ty, term))
        self.names.append(d)
        self.env[pyname] = (kind, d)

    def stmt(self, s):
        text = ast.unparse(s).replace(' ', '')
        if text == 'total_samples=numpy.sum(self.sample_sizes)':
            self.have_T = True; return
        if text == 'total_per_entry=self._total_per_entry()':
            self.have_total = True; return
        if isinstance(s, ast.Assign) and len(s.targets) == 1:
            t = s.targets[0]
            if isinstance(t, ast.Name):
                v = s.value
                vn = T.callee_name(v) if isinstance(v, (ast.Name, ast.Attribute)) else None
                # binding a local name to the caller's own buffer: no new array, the name IS self.data / self.mask
                if vn in ('self.data', 'self.mask') or (isinstance(v, ast.Name) and v.id in self.alias):
                    which = {'self.data': 'data', 'self.mask': 'mask'}.get(vn) or self.alias[v.id]
                    self.env.pop(t.id, None); self.views.discard(t.id)
                    self.alias[t.id] = which
                    self.defs.append('/- %s: `%s`  — `%s` is the input spectrum\'s own %s from here on (no new array) -/'
                                     % (T.srcline(s, self.path), _one_line(ast.get_source_segment(self.src, s)), t.id, which))
                    return
                if vn == 'self':
                    raise TranslateError('%s: local alias of the whole input spectrum: %s' % (self.prefix, text))
                if isinstance(v, ast.Name) and v.id in self.env:
                    raise TranslateError('%s: second name for the local array `%s`: %s' % (self.prefix, v.id, text))
                kind, term = self.expr(v, 'i')
                if kind == 'S': raise TranslateError('%s: scalar assignment %s' % (self.prefix, text))
                if kind == 'N': raise TranslateError('%s: integer array alias %s' % (self.prefix, text))
                isfresh = self.fresh(v)
                self.alias.pop(t.id, None); self.views.discard(t.id)
                self.define(t.id, kind, term, s)
                if not isfresh: self.views.add(t.id)
                return
            # masked store  v.data[cond] = c   /  v[cond] = c   (v a local array, or the input spectrum's data / mask)
            if isinstance(t, ast.Subscript):
                base = t.value
                which = self.self_target(base)
                kc, c = self.expr(t.slice, 'i')
                if kc != 'B': raise TranslateError('%s: masked store %s' % (self.prefix, text))
                if isinstance(s.value, ast.Constant) and isinstance(s.value.value, bool):
                    kv, v = 'C', ('true' if s.value.value else 'false')
                else:
                    kv, v = self.expr(s.value, 'i')
                if which is not None:
                    if (which, kv) not in (('data', 'S'), ('mask', 'C')): raise TranslateError('%s: masked store %s' % (self.prefix, text))
                    self.update_self(which, '(if %s then %s else %s)' % (c, v, self.self_term(which, 'i')), s); return
                if isinstance(base, ast.Attribute) and base.attr == 'data': base = base.value
                if isinstance(base, ast.Name) and base.id in self.env and self.env[base.id][0] == 'R':
                    if kv != 'S': raise TranslateError('%s: masked store %s' % (self.prefix, text))
                    _, old = self.expr(base, 'i')
                    self.define(base.id, 'R', '(if %s then %s else %s)' % (c, v, old), s); return
            raise TranslateError('%s: assignment %s' % (self.prefix, text))
        if isinstance(s, ast.AugAssign):
            which = self.self_target(s.target)
            arith = {ast.Add: '+', ast.Sub: '-', ast.Mult: '*', ast.Div: '/'}
            logic = {ast.BitOr: '||', ast.BitAnd: '&&', ast.BitXor: '^^'}
            if which is not None:
                # numpy evaluates an in-place ufunc whose operand overlaps the output as if the operand had been copied first
                # (overlap handling of ufuncs), so `a |= reverse_array(a)` is pointwise  a[i] | a[mirror i]  on the old content
                old = self.self_term(which, 'i')
                kind, term = self.expr(s.value, 'i')
                table, ok = (arith, 'RS') if which == 'data' else (logic, 'B')
                for k, v in table.items():
                    if isinstance(s.op, k) and kind in ok:
                        self.update_self(which, '(%s %s %s)' % (old, v, term), s); return
                raise TranslateError('%s: in-place operator on the input spectrum: %s' % (self.prefix, text))
            if isinstance(s.target, ast.Name) and s.target.id in self.env:
                kind0, old = self.expr(s.target, 'i')
                kind, term = self.expr(s.value, 'i')
                table, ok = (arith, 'RS') if kind0 == 'R' else (logic, 'B')
                if kind0 not in 'RB' or kind not in ok: raise TranslateError('%s: augmented assignment kinds' % self.prefix)
                for k, v in table.items():
                    if isinstance(s.op, k):
                        self.define(s.target.id, kind0, '(%s %s %s)' % (old, v, term), s); return
        raise TranslateError('%s: statement %s' % (self.prefix, _one_line(ast.unparse(s))))


PROGRAM_DEFS = {}      # method name -> Lean definitions of its translated program (intermediates first, end results last)

def gen_method(fn, src, path, new_defaults):
    """Spectrum.fold / Spectrum.unfold"""
    name = fn.name
    body = _strip_doc(fn.body)
    out = []
    # 1. guard:  if <self.folded | not self.folded>: raise ValueError(...)
    g = body[0]
    if not (isinstance(g, ast.If) and not g.orelse and len(g.body) == 1 and isinstance(g.body[0], ast.Raise)):
        raise TranslateError('%s: first statement is not a raise-guard' % name)
    exc = g.body[0].exc
    excname = T.callee_name(exc.func) if isinstance(exc, ast.Call) else T.callee_name(exc)
    gt = ast.unparse(g.test).replace(' ', '')
    if gt == 'self.folded': cond = 'selfFolded'
    elif gt == 'notself.folded': cond = '(! selfFolded)'
    else: raise TranslateError('%s: guard condition %s' % (name, gt))
    out.append('/-- %s: `%s` -/' % (T.srcline(g, path), _one_line(ast.get_source_segment(src, g.test))))
    out.append('def %s_raises (selfFolded : Bool) : Bool := %s' % (name, cond))
    out.append('def %s_raisesWhat : String := %s' % (name, json.dumps(excname)))
    # 2. straight-line program until the constructor call
    P = ArrayProgram(name, src, path)
    k = 1
    ctor = None
    while k < len(body):
        s = body[k]
        if isinstance(s, ast.Assign) and isinstance(s.value, ast.Call) and T.callee_name(s.value.func) == 'Spectrum':
            ctor = s; break
        P.stmt(s); k += 1
    if ctor is None: raise TranslateError('%s: no Spectrum(...) construction' % name)
    out += P.defs
    call = ctor.value
    if len(call.args) != 1: raise TranslateError('%s: constructor positional arguments' % name)
    kd, data = P.expr(call.args[0], 'i')
    if kd != 'R': raise TranslateError('%s: constructor data' % name)
    kw = {k_.arg: k_.value for k_ in call.keywords}
    if set(kw) - {'mask', 'data_folded', 'pop_ids', 'mask_corners', 'check_folding', 'copy'}:
        raise TranslateError('%s: constructor keywords %s' % (name, sorted(kw)))
    if 'mask' not in kw: raise TranslateError('%s: constructor without mask' % name)
    km, mask = P.expr(kw['mask'], 'i')
    if km != 'B': raise TranslateError('%s: constructor mask' % name)
    def const_bool(node, what):
        if isinstance(node, ast.Constant) and isinstance(node.value, bool): return 'true' if node.value else 'false'
        raise TranslateError('%s: %s is not a literal' % (name, what))
    folded = const_bool(kw['data_folded'], 'data_folded') if 'data_folded' in kw else None
    if folded is None: raise TranslateError('%s: data_folded not passed' % name)
    corners = const_bool(kw['mask_corners'], 'mask_corners') if 'mask_corners' in kw else new_defaults['mask_corners']
    pop = ast.unparse(kw['pop_ids']).replace(' ', '') if 'pop_ids' in kw else 'None'
    if pop not in ('self.pop_ids', 'None'): raise TranslateError('%s: pop_ids=%s' % (name, pop))
    out.append('/-- %s: `%s` -/' % (T.srcline(ctor, path), _one_line(ast.get_source_segment(src, ctor))))
    out.append('def %s_outData %s : Rat := %s' % (name, PARAMS, data))
    out.append('def %s_outMask %s : Bool := %s' % (name, PARAMS, mask))
    out.append('def %s_outFolded : Bool := %s' % (name, folded))
    out.append('/-- mask_corners as passed, or the default of Spectrum.__new__ -/')
    out.append('def %s_maskCorners : Bool := %s' % (name, corners))
    out.append('def %s_popIdsFromSelf : Bool := %s' % (name, 'true' if pop == 'self.pop_ids' else 'false'))
    # 2b. what the method leaves behind in the spectrum it was called on (the operand must survive: property clause
    #     "masks … survive"; `fold`/`unfold` are documented as not in-place)
    out.append('/-- data / mask of the spectrum `%s` was called on, when `%s` returns (in-place statements: %s) -/'
               % (name, name, '; '.join('`%s`' % t for t in P.mutations) if P.mutations else 'none'))
    out.append('def %s_selfDataAfter %s : Rat := %s' % (name, PARAMS, P.self_term('data', 'i')))
    out.append('def %s_selfMaskAfter %s : Bool := %s' % (name, PARAMS, P.self_term('mask', 'i')))
    shares = not (P.fresh(call.args[0]) and P.fresh(kw['mask']))
    cpy = const_bool(kw['copy'], 'copy') if 'copy' in kw else new_defaults['copy']
    out.append('/-- the constructor is handed memory of the input spectrum (data or mask argument not a new array) and does not copy it -/')
    out.append('def %s_outSharesSelf : Bool := (%s && ! %s)' % (name, 'true' if shares else 'false', cpy))
    # 3. tail: outfs.extrap_x = self.extrap_x ; return outfs
    tail = [ast.unparse(s).replace(' ', '') for s in body[k+1:]]
    target = ctor.targets[0].id
    allowed = {'%s.extrap_x=self.extrap_x' % target, 'return%s' % target}
    if not tail or tail[-1] != 'return%s' % target or any(t not in allowed for t in tail):
        raise TranslateError('%s: statements after the constructor: %s' % (name, tail))
    PROGRAM_DEFS[name] = list(P.names) + ['%s_%s' % (name, e) for e in ('outData', 'outMask', 'selfDataAfter', 'selfMaskAfter')]
    return '\n'.join(out)


def class_def(tree, name):
    for n in tree.body:
        if isinstance(n, ast.ClassDef) and n.name == name:
            return n
    raise TranslateError('class %s not found' % name)

def method(cls, name):
    for n in cls.body:
        if isinstance(n, ast.FunctionDef) and n.name == name:
            return n
    raise TranslateError('method %s not found' % name)

def gen_structural(cls, src, path, nsrc, nfns, npath):
    out = []
    # Spectrum.__new__: default of mask_corners, and "if mask_corners: subarr.mask_corners()"
    new = method(cls, '__new__')
    args = new.args.args; defaults = new.args.defaults
    names = [a.arg for a in args]
    dmap = dict(zip(names[len(names) - len(defaults):], defaults))
    if 'mask_corners' not in dmap or not isinstance(dmap['mask_corners'], ast.Constant) or not isinstance(dmap['mask_corners'].value, bool):
        raise TranslateError('__new__: mask_corners default')
    if 'copy' not in dmap or not isinstance(dmap['copy'], ast.Constant) or not isinstance(dmap['copy'].value, bool):
        raise TranslateError('__new__: copy default')
    new_defaults = {'mask_corners': 'true' if dmap['mask_corners'].value else 'false',
                    'copy': 'true' if dmap['copy'].value else 'false'}
    if 'numpy.ma.masked_array(data,mask=mask,dtype=dtype,copy=copy,' not in re.sub(r'\s+', '', ast.unparse(new)):
        raise TranslateError('__new__: `copy` is not forwarded to numpy.ma.masked_array')
    # positional order used by the operator templates: (subtype, data, mask, mask_corners, data_folded, check_folding, …)
    if names[:4] != ['subtype', 'data', 'mask', 'mask_corners']:
        raise TranslateError('__new__: positional order %s' % names[:4])
    body_n = [ast.unparse(s).replace(' ', '') for s in ast.walk(new) if isinstance(s, ast.If)]
    if not any(b.startswith('ifmask_corners:') and 'subarr.mask_corners()' in b for b in body_n):
        raise TranslateError('__new__: `if mask_corners: subarr.mask_corners()` not found')
    # folded attribute assignment in __new__ for plain data: data_folded if given else False
    txt = re.sub(r'\s+', '', ast.unparse(new))
    if "elifdata_foldedisnotNone:subarr.folded=data_foldedelse:subarr.folded=False" not in txt:
        raise TranslateError('__new__: folded attribute assignment')
    mc = _strip_doc(method(cls, 'mask_corners').body)
    if [ast.unparse(s).replace(' ', '') for s in mc] != ['self.mask.flat[0]=self.mask.flat[-1]=True']:
        raise TranslateError('mask_corners: body')
    out.append('/-- Spectrum.mask_corners: `self.mask.flat[0] = self.mask.flat[-1] = True` (flat C-order index, N entries) -/')
    out.append('def cornerFlat (N k : Nat) : Bool := (k == 0) || (k == N - 1)')
    tpe = _strip_doc(method(cls, '_total_per_entry').body)
    cpe = _strip_doc(method(cls, '_counts_per_entry').body)
    ok_tpe = [ast.unparse(s).replace(' ', '') for s in tpe] == ['returnnumpy.sum(self._counts_per_entry(),axis=-1)']
    ok_cpe = [ast.unparse(s).replace(' ', '') for s in cpe] == ['ind=numpy.indices(self.shape)',
             'ind=ind.transpose(list(range(1,self.Npop+1))+[0])', 'returnind']
    ss = _strip_doc(method(cls, '_get_sample_sizes').body)
    ok_ss = [ast.unparse(s).replace(' ', '') for s in ss] == ['returnnumpy.asarray(self.shape)-1']
    if not (ok_tpe and ok_cpe and ok_ss):
        raise TranslateError('_total_per_entry/_counts_per_entry/sample_sizes changed shape (%s %s %s)' % (ok_tpe, ok_cpe, ok_ss))
    out.append('/-- `_total_per_entry` = sum of the multi-index; `sample_sizes` = shape − 1 (statements present as such) -/')
    out.append('def totalPerEntryIsIndexSum : Bool := true')
    ra = nfns.get('reverse_array')
    if ra is None: raise TranslateError('Numerics.reverse_array not found')
    rb = [ast.unparse(s).replace(' ', '') for s in _strip_doc(ra.body)]
    if rb != ['reverse_slice=tuple((slice(None,None,-1)foriiinarr.shape))', 'returnarr[reverse_slice]']:
        raise TranslateError('reverse_array: body %s' % rb)
    out.append('/-- Numerics.reverse_array reverses every axis (`arr[::-1, ::-1, …]`) -/')
    out.append('def reverseArrayAllAxes : Bool := true')
    return '\n'.join(out), new_defaults


PY3_NDARRAY_MISSING = {'__div__', '__rdiv__', '__idiv__'}

def _no_side_effects(what, body, store_ok, norm, calls_ok=()):
    """every store goes to an allowed target; every expression statement is the folding check, a logger call or one of `calls_ok`;
    no `del`, no `global`, no nested function"""
    for st in body:
        for a in ast.walk(st):
            if isinstance(a, (ast.Assign, ast.AugAssign, ast.AnnAssign)):
                tgs = a.targets if isinstance(a, ast.Assign) else [a.target]
                for t in tgs:
                    for tt in (t.elts if isinstance(t, (ast.Tuple, ast.List)) else [t]):
                        if not store_ok(tt):
                            raise TranslateError('%s: store into %s' % (what, norm(tt)))
            elif isinstance(a, ast.Expr):
                c = norm(a.value)
                if not (c == 'self._check_other_folding(other)' or c.startswith('logger.') or c in calls_ok):
                    raise TranslateError('%s: statement with a possible side effect: %s' % (what, c))
            elif isinstance(a, (ast.Delete, ast.Global, ast.Nonlocal, ast.FunctionDef, ast.Lambda, ast.NamedExpr)):
                raise TranslateError('%s: %s' % (what, type(a).__name__))

RESERVED_LOCALS = {'newdata', 'newmask', 'newpop_ids', 'extrap_x', 'outfs', 'self', 'other'}

def _template_program(what, body, norm, inplace):
    """the statements of a template that compute data and mask and check the folding status, in source order, as terms of
    `Fold.TStmt` (Model/FoldIR.lean).  -> (lean terms, source comments, indices of the top-level statements consumed, the
    `self.data.<op>(…)` expression statements accepted).  The two branches of `if isinstance(other, numpy.ma.masked_array)`
    are flattened into guarded statements (the test cannot change while the template runs: `other` is never rebound)."""
    binds = set(); prog = []; notes = []; used = set(); calls = []
    def arg(node):
        t = norm(node)
        if t == 'other': return '.other'
        if t == 'other.data': return '.otherData'
        if isinstance(node, ast.Name) and node.id in binds: return '(.var %s)' % json.dumps(node.id)
        raise TranslateError('%s: argument `%s` is not other / other.data / a local name bound to one of them' % (what, t))
    def maskexpr(node):
        t = norm(node)
        if t == 'self.mask': return '.selfMask'
        if t in ('numpy.ma.mask_or(self.mask,other.mask)', 'numpy.ma.mask_or(other.mask,self.mask)'): return '.maskOr'
        raise TranslateError('%s: mask expression `%s`' % (what, t))
    def dataop(node):
        """`self.data.__OP__(<arg>)` -> arg term, else None"""
        if isinstance(node, ast.Call) and norm(node.func) == 'self.data.__OP__':
            if len(node.args) != 1 or node.keywords: raise TranslateError('%s: call %s' % (what, norm(node)))
            return arg(node.args[0])
        return None
    def simple(st):
        """one non-compound statement -> act term, or None if it is not part of the data/mask/guard program"""
        if isinstance(st, ast.Expr) and isinstance(st.value, ast.Call):
            f = norm(st.value.func)
            if f == 'self._check_other_folding':
                if len(st.value.args) != 1 or st.value.keywords: raise TranslateError('%s: %s' % (what, norm(st)))
                a = arg(st.value.args[0]); calls.append(norm(st.value))
                return '.check %s' % a
            a = dataop(st.value)
            if a is not None:
                if not inplace: raise TranslateError('%s: result of %s is discarded' % (what, norm(st)))
                calls.append(norm(st.value))
                return '.selfData %s' % a
            return None
        if isinstance(st, ast.Assign) and len(st.targets) == 1:
            t = st.targets[0]; tn = norm(t)
            if tn == 'newdata':
                a = dataop(st.value)
                if a is None or inplace: raise TranslateError('%s: %s' % (what, norm(st)))
                return '.newData %s' % a
            if tn == 'newmask':
                if inplace: raise TranslateError('%s: %s' % (what, norm(st)))
                return '.newMask %s' % maskexpr(st.value)
            if tn == 'self.mask':
                if not inplace: raise TranslateError('%s: store into self.mask' % what)
                return '.selfMask %s' % maskexpr(st.value)
            if isinstance(t, ast.Name) and t.id not in RESERVED_LOCALS:
                vt = norm(st.value)
                if vt in ('other', 'other.data') or (isinstance(st.value, ast.Name) and st.value.id in binds):
                    a = arg(st.value); binds.add(t.id)
                    return '.bind %s %s' % (json.dumps(t.id), a)
            if dataop(st.value) is not None:
                raise TranslateError('%s: %s' % (what, norm(st)))
        return None
    def emit(cond, st, act):
        prog.append('{ cond := .%s, act := %s }' % (cond, act))
        notes.append('%s`%s`' % ({'always': '', 'ifMasked': '[other is a masked_array] ', 'ifNotMasked': '[other is not a masked_array] '}[cond],
                                 _one_line(ast.unparse(st)).replace('__OP__', '<method>')))
    for k, st in enumerate(body):
        if isinstance(st, ast.If) and norm(st.test) == 'isinstance(other,numpy.ma.masked_array)':
            for cond, branch in (('ifMasked', st.body), ('ifNotMasked', st.orelse)):
                for sub in branch:
                    act = simple(sub)
                    if act is None: raise TranslateError('%s: statement in the masked_array dispatch: %s' % (what, norm(sub)))
                    emit(cond, sub, act)
            used.add(k)
        elif isinstance(st, ast.If) and 'isinstance(other' in norm(st.test):
            raise TranslateError('%s: dispatch test %s' % (what, norm(st.test)))
        else:
            act = simple(st)
            if act is not None:
                emit('always', st, act); used.add(k)
    for k, st in enumerate(body):
        if k in used: continue
        for a in ast.walk(st):
            if isinstance(a, ast.Call) and norm(a.func) in ('self._check_other_folding', 'self.data.__OP__'):
                raise TranslateError('%s: %s inside %s' % (what, norm(a), type(st).__name__))
            if isinstance(a, (ast.Assign, ast.AugAssign)):
                for t in (a.targets if isinstance(a, ast.Assign) else [a.target]):
                    if norm(t) in ('newdata', 'newmask', 'self.mask', 'self.data') or norm(t).startswith(('self.mask', 'self.data')):
                        raise TranslateError('%s: store into %s inside %s' % (what, norm(t), type(st).__name__))
    return prog, notes, used, calls

def gen_operators(cls, src, path, new_defaults):
    """the two `for method in [...]: exec(template % {'method': method})` loops, and _check_other_folding"""
    loops = []
    for n in cls.body:
        if isinstance(n, ast.For) and isinstance(n.iter, ast.List) and all(isinstance(e, ast.Constant) and isinstance(e.value, str) for e in n.iter.elts):
            if len(n.body) == 1 and isinstance(n.body[0], ast.Expr) and isinstance(n.body[0].value, ast.Call) \
               and T.callee_name(n.body[0].value.func) == 'exec':
                arg = n.body[0].value.args[0]
                if isinstance(arg, ast.BinOp) and isinstance(arg.op, ast.Mod) and isinstance(arg.left, ast.Constant):
                    loops.append(([e.value for e in n.iter.elts], arg.left.value, n))
    if len(loops) != 2:
        raise TranslateError('operator templates: expected 2 exec loops, found %d' % len(loops))
    out = []
    (bin_methods, bin_t, bn), (inp_methods, inp_t, in_) = loops
    if any(m.startswith('__i') for m in bin_methods) or not all(m.startswith('__i') for m in inp_methods):
        raise TranslateError('operator templates: method lists')
    def lst(xs): return '[' + ', '.join(json.dumps(x) for x in xs) + ']'
    out.append('/-- %s -/' % T.srcline(bn, path))
    out.append('def binaryMethods : List String := %s' % lst(bin_methods))
    out.append('/-- %s -/' % T.srcline(in_, path))
    out.append('def inplaceMethods : List String := %s' % lst(inp_methods))
    out.append('/-- methods the templates forward to `numpy.ndarray` although Python 3 ndarrays do not have them -/')
    out.append('def ndarrayLacks : List String := %s' % lst(sorted(PY3_NDARRAY_MISSING)))

    def norm(s): return ast.unparse(s).replace(' ', '')
    def program_def(name, what, prog, notes, node):
        doc = '/-- %s, %s: the statements that check the folding status and compute data and mask, in source order\n' % (T.srcline(node, path), what)
        doc += ''.join('      %d. %s\n' % (k + 1, t.replace('-/', '- /')) for k, t in enumerate(notes)) + '-/'
        return [doc, 'def %s : List DadiVerif.Fold.TStmt := [%s]' % (name, ',\n    '.join(prog))]
    # ---- binary template
    fn = ast.parse(bin_t % {'method': '__OP__'}).body[0]
    if [a.arg for a in fn.args.args] != ['self', 'other'] or fn.args.defaults or fn.args.vararg or fn.args.kwarg:
        raise TranslateError('binary template: signature')
    b = fn.body
    prog, notes, used, bcalls = _template_program('binary template', b, norm, inplace=False)
    rest = [(k, s) for k, s in enumerate(b) if k not in used]
    # pop_ids rule
    if len(rest) < 4 or norm(rest[0][1]) != 'newpop_ids=self.pop_ids':
        raise TranslateError('binary template: newpop_ids initialisation')
    pi = rest[1][1]
    if not (isinstance(pi, ast.If) and norm(pi.test) == "hasattr(other,'pop_ids')" and not pi.orelse and len(pi.body) == 1):
        raise TranslateError('binary template: pop_ids rule')
    def chain(node):
        """if/elif chain over `X.pop_ids is None` / `other.pop_ids != self.pop_ids` -> Lean if-then-else on Option (List String)"""
        if node is None: return 'selfIds'
        if not isinstance(node, ast.If): raise TranslateError('binary template: pop_ids chain')
        t = norm(node.test)
        conds = {'other.pop_idsisNone': '(otherIds.isNone)', 'self.pop_idsisNone': '(selfIds.isNone)',
                 'other.pop_ids!=self.pop_ids': '(otherIds != selfIds)'}
        if t not in conds: raise TranslateError('binary template: pop_ids condition %s' % t)
        if len(node.body) != 1: raise TranslateError('binary template: pop_ids branch')
        bb = norm(node.body[0])
        if bb == 'newpop_ids=self.pop_ids': val = 'selfIds'
        elif bb == 'newpop_ids=other.pop_ids': val = 'otherIds'
        elif bb.startswith('logger.warning('): val = 'selfIds'      # value stays at its initialisation
        else: raise TranslateError('binary template: pop_ids branch %s' % bb)
        if len(node.orelse) > 1: raise TranslateError('binary template: pop_ids else')
        rest_ = chain(node.orelse[0]) if node.orelse else 'selfIds'
        return '(if %s then %s else %s)' % (conds[t], val, rest_)
    out.append('/-- binary template, pop_ids of the result when `other` has a `pop_ids` attribute (otherwise self.pop_ids) -/')
    out.append('def binopPopIds (selfIds otherIds : Option (List String)) : Option (List String) := %s' % chain(pi.body[0]))
    # constructor call
    ctor = None; ctor_k = None
    for k, s in rest:
        if isinstance(s, ast.Assign) and isinstance(s.value, ast.Call) and norm(s.value.func) == 'self.__class__.__new__':
            if ctor is not None: raise TranslateError('binary template: two constructor calls')
            ctor = s.value; ctor_k = k; ctor_target = norm(s.targets[0])
    if ctor is None: raise TranslateError('binary template: constructor call')
    if any(k > ctor_k for k in used): raise TranslateError('binary template: data/mask statements after the constructor call')
    if [norm(a) for a in ctor.args] != ['self.__class__', 'newdata', 'newmask']:
        raise TranslateError('binary template: constructor positional arguments')
    kw = {k.arg: norm(k.value) for k in ctor.keywords}
    if kw.get('mask_corners') not in ('True', 'False'): raise TranslateError('binary template: mask_corners')
    if kw.get('pop_ids') != 'newpop_ids': raise TranslateError('binary template: pop_ids')
    fold_src = kw.get('data_folded')
    if fold_src not in ('self.folded', 'other.folded', 'True', 'False'):
        raise TranslateError('binary template: data_folded=%s' % fold_src)
    out.append('/-- binary template: `mask_corners=%s, data_folded=%s` -/' % (kw['mask_corners'], fold_src))
    out.append('def binopMaskCorners : Bool := %s' % kw['mask_corners'].lower())
    out.append('def binopFolded (selfFolded otherFolded : Bool) : Bool := %s'
               % {'self.folded': 'selfFolded', 'other.folded': 'otherFolded', 'True': 'true', 'False': 'false'}[fold_src])
    cp = kw.get('copy')
    if cp not in (None, 'True', 'False'): raise TranslateError('binary template: copy=%s' % cp)
    if set(kw) - {'mask_corners', 'data_folded', 'check_folding', 'pop_ids', 'extrap_x', 'copy'}:
        raise TranslateError('binary template: constructor keywords %s' % sorted(kw))
    out.append('/-- binary template: the constructor copies data and mask (`copy` keyword as passed, or the default of Spectrum.__new__) -/')
    out.append('def binopCopies : Bool := %s' % (new_defaults['copy'] if cp is None else cp.lower()))
    if ctor_target != 'outfs' or norm(b[-1]) != 'returnoutfs': raise TranslateError('binary template: return')
    _no_side_effects('binary template', b, store_ok=lambda t: isinstance(t, ast.Name), norm=norm, calls_ok=tuple(bcalls))
    out += program_def('binaryProgram', 'binary template', prog, notes, bn)
    # ---- in-place template
    fn = ast.parse(inp_t % {'method': '__OP__'}).body[0]
    if [a.arg for a in fn.args.args] != ['self', 'other'] or fn.args.defaults or fn.args.vararg or fn.args.kwarg:
        raise TranslateError('in-place template: signature')
    b = fn.body
    iprog, inotes, iused, icalls = _template_program('in-place template', b, norm, inplace=True)
    for k, s in enumerate(b[:-1]):
        if k in iused: continue
        # the remaining statements may only warn or touch extrap_x
        for a in ast.walk(s):
            if isinstance(a, (ast.Assign, ast.AugAssign)):
                tg = a.targets[0] if isinstance(a, ast.Assign) else a.target
                if norm(tg) != 'self.extrap_x':
                    raise TranslateError('in-place template: assignment to %s' % norm(tg))
            if isinstance(a, (ast.Return, ast.Raise)):
                raise TranslateError('in-place template: %s before the end' % type(a).__name__)
    if (len(b) - 1) in iused or norm(b[-1]) != 'returnself': raise TranslateError('in-place template: return')
    _no_side_effects('in-place template', b, store_ok=lambda t: norm(t) in ('self.mask', 'self.extrap_x') or (isinstance(t, ast.Name) and t.id not in ('self', 'other')),
                     norm=norm, calls_ok=tuple(icalls))
    out.append('/-- neither template contains a statement that stores into, or calls a method of, `other` (binary: nor of `self`):\n'
               '    assignments go to local names (in place: `self.mask`, `self.extrap_x`), expression statements are the folding check,\n'
               '    `self.data.<op>(…)` (in place) and logger calls -/')
    out.append('def templatesLeaveOperands : Bool := true')
    out.append('/-- in-place template: besides the statements of `inplaceProgram` it only warns and resets `extrap_x`;\n    folded/pop_ids of self untouched, returns self -/')
    out.append('def inplaceShapeOk : Bool := true')
    out += program_def('inplaceProgram', 'in-place template', iprog, inotes, in_)
    # ---- _check_other_folding
    cf = _strip_doc(method(cls, '_check_other_folding').body)
    if not (len(cf) == 1 and isinstance(cf[0], ast.If) and not cf[0].orelse and isinstance(cf[0].body[0], ast.Raise)):
        raise TranslateError('_check_other_folding: shape')
    test = cf[0].test
    def sub_call(node):
        # isinstance(other, self.__class__) -> otherIsSpectrum
        if isinstance(node, ast.Call) and norm(node) == 'isinstance(other,self.__class__)':
            return ast.Name(id='otherIsSpectrum', ctx=ast.Load())
        for f, v in ast.iter_fields(node):
            if isinstance(v, list):
                setattr(node, f, [sub_call(x) if isinstance(x, ast.AST) else x for x in v])
            elif isinstance(v, ast.AST):
                setattr(node, f, sub_call(v))
        return node
    t2 = sub_call(ast.parse(ast.unparse(test), mode='eval').body)
    def trbool(node):
        if isinstance(node, ast.BoolOp):
            op = ' && ' if isinstance(node.op, ast.And) else ' || '
            return '(' + op.join(trbool(v) for v in node.values) + ')'
        if isinstance(node, ast.UnaryOp) and isinstance(node.op, ast.Not):
            return '(! %s)' % trbool(node.operand)
        if isinstance(node, ast.Name) and node.id == 'otherIsSpectrum':
            return 'otherIsSpectrum'
        if isinstance(node, ast.Attribute) and norm(node) in ('self.folded', 'other.folded'):
            return {'self.folded': 'selfFolded', 'other.folded': 'otherFolded'}[norm(node)]
        if isinstance(node, ast.Call) and norm(node.func) == 'bool' and len(node.args) == 1 and not node.keywords:
            return trbool(node.args[0])      # truth value of a flag that is True / False in the model
        if isinstance(node, ast.Compare) and len(node.ops) == 1 and isinstance(node.ops[0], (ast.Eq, ast.NotEq)):
            return '(%s %s %s)' % (trbool(node.left), '==' if isinstance(node.ops[0], ast.Eq) else '!=', trbool(node.comparators[0]))
        raise TranslateError('_check_other_folding: condition %s' % norm(node))
    exc = cf[0].body[0].exc
    out.append('/-- %s: raise %s if `%s` -/' % (T.srcline(cf[0], path), T.callee_name(exc.func), _one_line(ast.get_source_segment(src, test))))
    out.append('def foldingRefused (otherIsSpectrum selfFolded otherFolded : Bool) : Bool := %s' % trbool(t2))
    out.append('def foldingRefusedWhat : String := %s' % json.dumps(T.callee_name(exc.func)))
    return '\n'.join(out)


HOOK_ATTRS = {'folded': 'folded', 'pop_ids': 'popIds'}      # attributes of the property; `extrap_x` is parsed with the same rules and dropped

def gen_hooks(cls, src, path):
    """`__array_finalize__`, `__array_wrap__`, `_update_from`, `log`: where each takes `folded` / `pop_ids` of the array it
    finalises from (one `Fold.AttrRule` per hook and attribute).  The order in which numpy calls these hooks for views, slices,
    ufuncs and copies is numpy's, not dadi's: it is written down in Model/Fold.lean (`hooksOf`) and compared with the observed
    call sequence by the harness (K)."""
    def norm(s): return re.sub(r'\s+', '', ast.unparse(s))
    out = []
    def literal_rule(what, attr, v):
        if isinstance(v, ast.Constant) and (v.value is None or v.value == 'unspecified'): return '.constNone'
        if isinstance(v, ast.Constant) and isinstance(v.value, bool) and attr == 'folded': return '(.constBool %s)' % ('true' if v.value else 'false')
        return None
    def rules(what, stmts, tgt, obj, operand):
        """stmts: the statements after the base-class call.  tgt: name of the array being finalised; obj: name of the array it
        comes from (rules getattrDefault / ifHasattr) or None; operand: name whose attributes are copied unconditionally or None"""
        found = {}
        def put(attr, rule, st):
            if attr in found: raise TranslateError('%s: attribute %s assigned twice' % (what, attr))
            found[attr] = (rule, st)
        for st in stmts:
            if isinstance(st, ast.Assign) and len(st.targets) == 1 and isinstance(st.targets[0], ast.Attribute) \
               and norm(st.targets[0].value) == tgt:
                attr = st.targets[0].attr; v = st.value
                if obj is not None and isinstance(v, ast.Call) and norm(v.func) == 'getattr' and len(v.args) == 3 and not v.keywords \
                   and norm(v.args[0]) == obj and isinstance(v.args[1], ast.Constant) and v.args[1].value == attr:
                    d = v.args[2]
                    if not (isinstance(d, ast.Constant) and (d.value is None or d.value == 'unspecified')):
                        raise TranslateError('%s: default of getattr(%s, %r, …) is %s' % (what, obj, attr, norm(d)))
                    put(attr, '.getattrDefault', st); continue
                if operand is not None and norm(v) == '%s.%s' % (operand, attr):
                    put(attr, '.fromSelf', st); continue
                lr = literal_rule(what, attr, v)
                if lr is not None:
                    put(attr, lr, st); continue
                raise TranslateError('%s: %s' % (what, norm(st)))
            if obj is not None and isinstance(st, ast.If) and not st.orelse and len(st.body) == 1:
                t = st.test
                if isinstance(t, ast.Call) and norm(t.func) == 'hasattr' and len(t.args) == 2 and norm(t.args[0]) == obj \
                   and isinstance(t.args[1], ast.Constant):
                    attr = t.args[1].value
                    if norm(st.body[0]) == '%s.%s=%s.%s' % (tgt, attr, obj, attr):
                        put(attr, '.ifHasattr', st); continue
            raise TranslateError('%s: statement %s' % (what, _one_line(ast.unparse(st))))
        return found
    def emit(prefix, what, fn, found):
        for attr, lean in HOOK_ATTRS.items():
            if attr in found:
                rule, st = found[attr]
                out.append('/-- %s `%s`: `%s` -/' % (T.srcline(st, path), what, _one_line(ast.get_source_segment(src, st))))
            else:
                rule = '.untouched'
                out.append('/-- %s `%s` does not assign `%s` -/' % (T.srcline(fn, path), what, attr))
            out.append('def %s_%s : DadiVerif.Fold.AttrRule := %s' % (prefix, lean, rule))
    # __array_finalize__(self, obj): if obj is None: return ; base call ; assignments
    fn = method(cls, '__array_finalize__'); b = _strip_doc(fn.body)
    if [a.arg for a in fn.args.args] != ['self', 'obj']: raise TranslateError('__array_finalize__: signature')
    if len(b) < 2 or norm(b[0]) != 'ifobjisNone:return' or norm(b[1]) != 'numpy.ma.masked_array.__array_finalize__(self,obj)':
        raise TranslateError('__array_finalize__: does not start with `if obj is None: return` and the base-class call')
    emit('finalize', '__array_finalize__', fn, rules('__array_finalize__', b[2:], 'self', 'obj', None))
    # _update_from(self, obj): base call ; assignments
    fn = method(cls, '_update_from'); b = _strip_doc(fn.body)
    if [a.arg for a in fn.args.args] != ['self', 'obj']: raise TranslateError('_update_from: signature')
    if len(b) < 1 or norm(b[0]) != 'numpy.ma.masked_array._update_from(self,obj)':
        raise TranslateError('_update_from: does not start with the base-class call')
    emit('updateFrom', '_update_from', fn, rules('_update_from', b[1:], 'self', 'obj', None))
    # __array_wrap__(self, obj, context=None, return_scalar=False): result = …base… ; result.a = self.a ; return result
    fn = method(cls, '__array_wrap__'); b = _strip_doc(fn.body)
    if [a.arg for a in fn.args.args][:2] != ['self', 'obj']: raise TranslateError('__array_wrap__: signature')
    k = None
    for j, st in enumerate(b):
        if norm(st).startswith('result=numpy.ma.masked_array.__array_wrap__(self,obj'): k = j
    if k is None or any(norm(st) != 'result=obj.view(type(self))' for st in b[:k]) or norm(b[-1]) != 'returnresult':
        raise TranslateError('__array_wrap__: shape')
    emit('wrap', '__array_wrap__', fn, rules('__array_wrap__', b[k + 1:-1], 'result', None, 'self'))
    # log(self): logfs = numpy.ma.log(self) ; logfs.a = self.a ; return logfs
    fn = method(cls, 'log'); b = _strip_doc(fn.body)
    if [a.arg for a in fn.args.args] != ['self']: raise TranslateError('log: signature')
    if len(b) < 2 or norm(b[0]) != 'logfs=numpy.ma.log(self)' or norm(b[-1]) != 'returnlogfs':
        raise TranslateError('log: shape')
    emit('log', 'log', fn, rules('log', b[1:-1], 'logfs', None, 'self'))
    out.append('/-- `__array_finalize__` and `_update_from` call the numpy.ma base-class method before their own assignments; `__array_wrap__`\n'
               '    and `log` assign after numpy.ma has built the result (statements present as such) -/')
    out.append('def hooksAssignAfterBase : Bool := true')
    return '\n'.join(out)


class _Rename(ast.NodeTransformer):
    def __init__(self, old, new): self.old = old; self.new = new
    def visit_Name(self, node):
        if node.id == self.old: node.id = self.new
        return node

def gen_ctor(cls, src, path):
    """Spectrum.__new__: what the `if data_folded:` block does to the array under construction (`subarr.data`, `subarr.mask`) between
    `numpy.ma.masked_array(data, mask=mask, …)` and `if mask_corners: subarr.mask_corners()`.  The block is translated with the same
    array-program translator as fold/unfold (the array under construction plays the part of `self`): the consistency checks
    `if check_folding and not numpy.all(…): logger.warning(…)` have no effect on the array; every store into `subarr.data` /
    `subarr.mask` becomes part of `ctor_selfDataAfter` / `ctor_selfMaskAfter`."""
    new = method(cls, '__new__')
    def norm(n): return re.sub(r'\s+', '', ast.unparse(n))
    top = _strip_doc(new.body)
    blocks = [(k, st) for k, st in enumerate(top) if isinstance(st, ast.If) and norm(st.test) == 'data_folded']
    if len(blocks) != 1 or blocks[0][1].orelse:
        raise TranslateError('__new__: expected exactly one top-level `if data_folded:` block without else (found %d)' % len(blocks))
    kb, blk = blocks[0]
    # the array is built before the block and its corners are masked after it; no other statement of __new__ touches data or mask
    build = [k for k, st in enumerate(top) if norm(st).startswith('subarr=numpy.ma.masked_array(data,mask=mask,')]
    view = [k for k, st in enumerate(top) if norm(st) == 'subarr=subarr.view(subtype)']
    corners = [k for k, st in enumerate(top) if norm(st) == 'ifmask_corners:subarr.mask_corners()']
    if not (len(build) == 1 and len(view) == 1 and len(corners) == 1 and build[0] < view[0] < kb < corners[0]):
        raise TranslateError('__new__: order masked_array(…) / view / `if data_folded:` / `if mask_corners:` not found')
    for k, st in enumerate(top):
        if k in (kb, build[0], view[0], corners[0]): continue
        for a in ast.walk(st):
            tgs = a.targets if isinstance(a, ast.Assign) else [a.target] if isinstance(a, (ast.AugAssign, ast.AnnAssign)) else []
            for t in tgs:
                for tt in (t.elts if isinstance(t, (ast.Tuple, ast.List)) else [t]):
                    tn = norm(tt)
                    if tn == 'subarr' or tn.startswith(('subarr.mask', 'subarr.data', 'subarr[', 'subarr._mask', 'subarr._data')):
                        raise TranslateError('__new__: store into %s outside the `if data_folded:` block' % tn)
            if isinstance(a, ast.Call) and norm(a.func).startswith('subarr.') and norm(a.func) not in ('subarr.view',):
                raise TranslateError('__new__: call %s outside the `if data_folded:` block' % norm(a.func))
    P = ArrayProgram('ctor', src, path)
    warn_only = []
    for st in blk.body:
        if isinstance(st, ast.If):
            # a consistency check: may only warn
            if st.orelse or not all(isinstance(b, ast.Expr) and isinstance(b.value, ast.Call) and norm(b.value.func).startswith('logger.')
                                    for b in st.body):
                raise TranslateError('__new__: conditional statement in the `if data_folded:` block that does more than warn: %s'
                                     % _one_line(ast.unparse(st))[:120])
            for a in ast.walk(st.test):
                if isinstance(a, (ast.NamedExpr, ast.Lambda)) or (isinstance(a, ast.Call) and norm(a.func) not in ('numpy.all', 'numpy.any')):
                    raise TranslateError('__new__: test of a consistency check calls %s' % norm(a))
            warn_only.append(_one_line(ast.unparse(st.test)))
            continue
        if isinstance(st, ast.Expr) and isinstance(st.value, ast.Call) and norm(st.value.func).startswith('logger.'):
            continue
        P.stmt(_Rename('subarr', 'self').visit(st))
    out = list(P.defs)
    out.append('/-- %s `Spectrum.__new__`, block `if data_folded:` — data / mask of the array under construction when the block is left\n'
               '    (stores: %s; consistency checks that only warn: %d) -/'
               % (T.srcline(blk, path), '; '.join('`%s`' % t for t in P.mutations) if P.mutations else 'none', len(warn_only)))
    out.append('def ctor_selfDataAfter %s : Rat := %s' % (PARAMS, P.self_term('data', 'i')))
    out.append('def ctor_selfMaskAfter %s : Bool := %s' % (PARAMS, P.self_term('mask', 'i')))
    out.append('/-- number of stores into the array under construction in that block -/')
    out.append('def ctor_foldedBlockStores : Nat := %d' % len(P.mutations))
    PROGRAM_DEFS['ctor'] = list(P.names) + ['ctor_selfDataAfter', 'ctor_selfMaskAfter']
    return '\n'.join(out)


def gen_unfold_macros():
    """tactics that unfold every definition of a translated program — the proofs name only the END results (`fold_outData`, …) and
    call these, so renaming / adding / removing an intermediate of `fold` / `unfold` does not touch any proof script"""
    out = []
    for name in ('fold', 'unfold', 'ctor'):
        defs = PROGRAM_DEFS.get(name)
        if not defs: raise TranslateError('%s: no program definitions recorded' % name)
        out.append('/-- definitions of the translated `%s` program, in order -/' % name)
        out.append('def %s_programDefs : List String := [%s]' % (name, ', '.join(json.dumps(d) for d in defs)))
        out.append('/-- `%s_program_unfold`: rewrite with the defining equation of every definition in `%s_programDefs` -/' % (name, name))
        out.append('macro "%s_program_unfold" : tactic => `(tactic| simp only [%s])' % (name, ', '.join(defs)))
    return '\n'.join(out)


def gen_misid(nsrc, nfns, npath):
    fn = nfns.get('apply_anc_state_misid')
    if fn is None: raise TranslateError('apply_anc_state_misid not found')
    an = [a.arg for a in fn.args.args]
    if len(an) != 2 or fn.args.defaults or fn.args.vararg or fn.args.kwarg: raise TranslateError('apply_anc_state_misid: arguments')
    fs, p = an
    body = _strip_doc(fn.body)
    if not body or not isinstance(body[-1], ast.Return) or body[-1].value is None:
        raise TranslateError('apply_anc_state_misid: does not end with `return <expression>`')
    def norm(s): return re.sub(r'\s+', '', ast.unparse(s))
    ctx = T.Ctx(names={p: 'p'}, src=nsrc)
    env = {}          # local name -> ('A', MExpr term) | ('S', scalar Lean term in p)
    def scalar(node):
        """Lean term (in `p`) if `node` only involves the probability and literals, else None"""
        for a in ast.walk(node):
            if isinstance(a, ast.Name) and a.id != p and not (a.id in env and env[a.id][0] == 'S'): return None
            if isinstance(a, (ast.Call, ast.Attribute, ast.Subscript)): return None
        names = dict(ctx.names); names.update({k: v[1] for k, v in env.items() if v[0] == 'S'})
        return T.tr(node, T.Ctx(names=names, src=nsrc))
    def mexpr(node):
        sc = scalar(node)
        if sc is not None: return '(.scal fun p => %s)' % sc
        if isinstance(node, ast.Name):
            if node.id == fs: return '.fs'
            if node.id in env and env[node.id][0] == 'A': return env[node.id][1]
            raise TranslateError('apply_anc_state_misid: name %s' % node.id)
        if isinstance(node, ast.Call) and not node.keywords and len(node.args) == 1:
            cn = T.callee_name(node.func)
            if cn in ('reverse_array', 'Numerics.reverse_array'): return '(.rev %s)' % mexpr(node.args[0])
            if cn in ('numpy.ma.getdata', 'ma.getdata', 'numpy.ma.core.getdata'): return '(.getdata %s)' % mexpr(node.args[0])
            raise TranslateError('apply_anc_state_misid: call %s' % cn)
        if isinstance(node, ast.Attribute) and node.attr == 'data':
            return '(.getdata %s)' % mexpr(node.value)
        if isinstance(node, ast.BinOp):
            for k, v in {ast.Add: 'add', ast.Sub: 'sub', ast.Mult: 'mul'}.items():
                if isinstance(node.op, k):
                    return '(.%s %s %s)' % (v, mexpr(node.left), mexpr(node.right))
            raise TranslateError('apply_anc_state_misid: operator %s' % type(node.op).__name__)
        raise TranslateError('apply_anc_state_misid: expression %s' % _one_line(ast.unparse(node)))
    for st in body[:-1]:
        if not (isinstance(st, ast.Assign) and len(st.targets) == 1 and isinstance(st.targets[0], ast.Name)):
            raise TranslateError('apply_anc_state_misid: statement %s' % _one_line(ast.unparse(st)))
        nm = st.targets[0].id
        if nm in (fs, p): raise TranslateError('apply_anc_state_misid: argument %s is rebound' % nm)
        sc = scalar(st.value)
        env[nm] = ('S', '(%s)' % sc) if sc is not None else ('A', mexpr(st.value))
    e = body[-1].value
    out = ['/-- %s: `%s` — the returned expression of `apply_anc_state_misid(%s, %s)`, local names substituted -/'
           % (T.srcline(fn, npath), '; '.join(_one_line(ast.get_source_segment(nsrc, st)) for st in body), fs, p)]
    out.append('def misidExpr : DadiVerif.Fold.MExpr := %s' % mexpr(e))
    # the documented shape  A*fs + B*reverse_array(fs)  (kept under its old names when the source has it)
    if (isinstance(e, ast.BinOp) and isinstance(e.op, ast.Add)
            and isinstance(e.left, ast.BinOp) and isinstance(e.left.op, ast.Mult)
            and isinstance(e.right, ast.BinOp) and isinstance(e.right.op, ast.Mult)
            and isinstance(e.left.right, ast.Name) and e.left.right.id == fs
            and norm(e.right.right) == 'reverse_array(%s)' % fs
            and scalar(e.left.left) is not None and scalar(e.right.left) is not None):
        out.append('/-- shape `A*fs + B*reverse_array(fs)`: scalar*Spectrum is `__rmul__`, the sum is `__add__` -/')
        out.append('def misidCoefSelf (p : Rat) : Rat := %s' % scalar(e.left.left))
        out.append('def misidCoefMirror (p : Rat) : Rat := %s' % scalar(e.right.left))
        out.append('def misidLeftMethod : String := "__rmul__"')
        out.append('def misidSumMethod : String := "__add__"')
    else:
        out.append('/- the returned expression is not of the shape `A*fs + B*reverse_array(fs)`: `misidCoefSelf` / `misidCoefMirror` are not defined -/')
    # make_anc_state_misid_func: p_misid = all_params[-1]; args[0] = all_params[:-1]; return apply_anc_state_misid(fs, p_misid)
    mk = nfns.get('make_anc_state_misid_func')
    if mk is None: raise TranslateError('make_anc_state_misid_func not found')
    inner = [n for n in mk.body if isinstance(n, ast.FunctionDef)]
    if len(inner) != 1: raise TranslateError('make_anc_state_misid_func: inner function')
    want = ['all_params=args[0]', 'p_misid=all_params[-1]', 'args=list(args)', 'args[0]=all_params[:-1]',
            'fs=func(*args,**kwargs)', 'returnapply_anc_state_misid(fs,p_misid)']
    got = [ast.unparse(s).replace(' ', '') for s in _strip_doc(inner[0].body)]
    if got != want: raise TranslateError('make_anc_state_misid_func: body %s' % got)
    out.append('/-- make_anc_state_misid_func: last parameter is p, the rest goes to the wrapped function (statements present as such) -/')
    out.append('def misidFuncLastParam : Bool := true')
    return '\n'.join(out)


def gen_autofold(isrc, itree, ipath):
    """every `if <test>: model = model.fold()` of Inference.py"""
    out = []
    rows = []
    for fn in [n for n in itree.body if isinstance(n, ast.FunctionDef)]:
        for s in ast.walk(fn):
            if isinstance(s, ast.If) and len(s.body) == 1 and ast.unparse(s.body[0]).replace(' ', '') == 'model=model.fold()':
                if s.orelse: raise TranslateError('%s: autofold with else' % fn.name)
                t = s.test
                conj = t.values if isinstance(t, ast.BoolOp) and isinstance(t.op, ast.And) else [t]
                parts = []
                for c in conj:
                    u = ast.unparse(c).replace(' ', '')
                    m = {"hasattr(data,'folded')": 'dataHasFolded', 'data.folded': 'dataFolded', 'notmodel.folded': '(! modelFolded)',
                         'model.folded': 'modelFolded', 'notdata.folded': '(! dataFolded)'}
                    if u not in m: raise TranslateError('%s: autofold condition %s' % (fn.name, u))
                    parts.append(m[u])
                out.append('/-- %s `%s`: `if %s: model = model.fold()` -/' % (T.srcline(s, ipath), fn.name, _one_line(ast.get_source_segment(isrc, t))))
                out.append('def autofold_%s (dataHasFolded dataFolded modelFolded : Bool) : Bool := (%s)' % (fn.name, ' && '.join(parts)))
                rows.append(fn.name)
    for need in ('ll_per_bin', 'optimal_sfs_scaling'):
        if need not in rows: raise TranslateError('Inference.%s: no `model = model.fold()` guard found' % need)
    if len(set(rows)) != len(rows): raise TranslateError('autofold: more than one guard in a function')
    out.append('def autofoldFunctions : List String := [%s]' % ', '.join(json.dumps(r) for r in rows))
    # the functions of the likelihood family (every module-level function with the parameters `model, data`): statements that store
    # into an argument — `model.mask = …`, `data[...] = …`, `model *= …`, `model.mask |= …`, `del model[…]`, or a call of a mutating
    # method on it.  Rebinding the local NAME (`model = model.fold()`, `model, data = intersect_masks(model, data)`) is not a store,
    # but the name may still denote the caller's object afterwards (intersect_masks returns its arguments when the masks agree),
    # so in-place operators on the names are reported whether or not the name was rebound before.
    fam = []; stores = []
    MUTATORS = {'mask_corners', 'fill', 'put', 'resize', 'sort', 'itemset', 'setflags', 'harden_mask', 'soften_mask', 'unshare_mask',
                'shrink_mask', '__setitem__', '__setmask__', 'set_fill_value', 'partition', 'setfield', 'byteswap'}
    for fn in [n for n in itree.body if isinstance(n, ast.FunctionDef)]:
        an = [a.arg for a in fn.args.args]
        if an[:2] != ['model', 'data']: continue
        fam.append(fn.name)
        def root(t):
            while isinstance(t, (ast.Attribute, ast.Subscript)): t = t.value
            return t.id if isinstance(t, ast.Name) else None
        for a in ast.walk(fn):
            tgs = []
            if isinstance(a, ast.Assign): tgs = [t for t in a.targets]
            elif isinstance(a, ast.AugAssign):
                if root(a.target) in ('model', 'data'):
                    stores.append('%s: %s' % (fn.name, _one_line(ast.unparse(a))))
                continue
            elif isinstance(a, ast.Delete): tgs = a.targets
            elif isinstance(a, ast.Call) and isinstance(a.func, ast.Attribute) and root(a.func) in ('model', 'data'):
                if a.func.attr in MUTATORS or (a.func.attr.startswith('__i') and a.func.attr.endswith('__')):
                    stores.append('%s: %s' % (fn.name, _one_line(ast.unparse(a))))
                if any(k.arg == 'out' for k in a.keywords):
                    stores.append('%s: %s' % (fn.name, _one_line(ast.unparse(a))))
                continue
            elif isinstance(a, ast.Call) and any(k.arg == 'out' and root(k.value) in ('model', 'data') for k in a.keywords):
                stores.append('%s: %s' % (fn.name, _one_line(ast.unparse(a)))); continue
            for t in tgs:
                for tt in (t.elts if isinstance(t, (ast.Tuple, ast.List)) else [t]):
                    if isinstance(tt, (ast.Attribute, ast.Subscript)) and root(tt) in ('model', 'data'):
                        stores.append('%s: %s' % (fn.name, _one_line(ast.unparse(a))))
    for need in ('ll', 'll_per_bin', 'll_multinom', 'll_multinom_per_bin', 'optimal_sfs_scaling', 'optimally_scaled_sfs',
                 'linear_Poisson_residual', 'Anscombe_Poisson_residual'):
        if need not in fam: raise TranslateError('Inference.%s(model, data, …) not found' % need)
    out.append('/-- module-level functions of Inference.py with parameters `(model, data, …)` -/')
    out.append('def likelihoodFamily : List String := [%s]' % ', '.join(json.dumps(r) for r in fam))
    out.append('/-- their statements that store into `model` / `data` (attribute or item assignment, in-place operator, mutating method, out=) -/')
    out.append('def likelihoodStoresIntoArgs : List String := [%s]' % ', '.join(json.dumps(r) for r in stores))
    out.append('def autofoldTable : List (String × (Bool → Bool → Bool → Bool)) := [%s]'
               % ', '.join('(%s, autofold_%s)' % (json.dumps(r), r) for r in rows))
    return '\n'.join(out)


def generate():
    spath = os.path.join(T.REPO, 'dadi', 'Spectrum_mod.py')
    npath = os.path.join(T.REPO, 'dadi', 'Numerics.py')
    ipath = os.path.join(T.REPO, 'dadi', 'Inference.py')
    src = open(spath).read(); tree = ast.parse(src)
    nsrc, ntree, nfns = T.py_functions(npath)
    isrc = open(ipath).read(); itree = ast.parse(isrc)
    cls = class_def(tree, 'Spectrum')
    out = [T.HEADER.replace('tools/translate.py', 'tools/gen_Fold.py').replace('import DadiVerif.Model.Prelude', 'import DadiVerif.Model.Prelude\nimport DadiVerif.Model.FoldIR'),
           'namespace Gen.Fold']
    structural, new_defaults = gen_structural(cls, src, spath, nsrc, nfns, npath)
    out.append(structural)
    out.append(gen_method(method(cls, 'fold'), src, spath, new_defaults))
    out.append(gen_method(method(cls, 'unfold'), src, spath, new_defaults))
    out.append(gen_ctor(cls, src, spath))
    out.append(gen_unfold_macros())
    out.append(gen_operators(cls, src, spath, new_defaults))
    out.append(gen_hooks(cls, src, spath))
    out.append(gen_misid(nsrc, nfns, npath))
    out.append(gen_autofold(isrc, itree, ipath))
    out.append('end Gen.Fold\nend DadiVerif\n')
    return '\n'.join(out)

if __name__ == '__main__':
    print(generate())
