"""Generated/EqSwitch.lean (C03): the *regime switches* of the one-population equilibrium constructors of
dadi/PhiManip.py (`phi_1D_genic`, `phi_1D`) as functions of the ARGUMENTS of the call.

For each function the statements are walked in order with a reaching-definitions environment
   scalar name -> Lean expression in the arguments (gamma, nu, beta, theta0, h)
(`gamma = gamma*nu*4.*beta/(beta+1.)**2` rebinds `gamma`; `g = …` binds a new name; an assignment under an `if` becomes a
conditional expression).  Emitted:

  <f>_switches (args) : List Bool      every `if` whose test is a closed scalar expression, with each tested name replaced by
                                       the expression that reaches it (tests on arrays — `xx[0] == 0` — or on objects are
                                       listed in <f>_switch_skipped and not modelled)
  <f>_switch_src : List String         their source text, same order
  <f>_formula_args (args) : List Rat   for every array formula (assignment whose value is not a closed scalar expression:
                                       `phi[1:-1] = …`, `integrand = lambda …`, `limit = …exp(…)`), the reaching expression of
                                       each scalar name occurring in it
  <f>_formula_src : List String        "name @ target" for each entry
  <f>_prefactor (args) : Rat           the factor of the final `return phi * …`

The C03 theorem `C03_equilibrium_switches_scale` proves that all of these are unchanged by
(gamma, nu, theta0) -> (gamma/k, k*nu, theta0/k): every branch decision and every formula argument is a function of the
reference-size-invariant quantities only."""
import ast, os, re
import translate as T

NAME = 'EqSwitch'

ARGS = {'phi_1D_genic': ['gamma', 'nu', 'beta', 'theta0'], 'phi_1D': ['gamma', 'nu', 'beta', 'theta0', 'h']}
LNAME = {'phi_1D_genic': 'genic', 'phi_1D': 'dom'}

def _norm(node):
    return re.sub(r'\s+', ' ', ast.unparse(node)).strip()

def _names(node):
    return [n.id for n in ast.walk(node) if isinstance(n, ast.Name)]

class _Walk:
    def __init__(self, fn, src):
        self.fn = fn; self.src = src
        self.env = {a: a for a in ARGS[fn.name]}
        self.switches = []      # (source text, lean Bool)
        self.skipped = []       # source text of tests outside the scalar language
        self.formulas = []      # (name, target text, lean Rat)

    def ctx(self):
        return T.Ctx(names=self.env, src=self.src)

    def scalar(self, node):
        """Lean expression of a closed scalar expression over the current environment, or None"""
        try:
            return T.tr(node, self.ctx())
        except T.TranslateError:
            return None

    def note_formula(self, target_txt, value):
        seen = set()
        for nm in _names(value):
            if nm in self.env and nm not in seen:
                seen.add(nm)
                self.formulas.append((nm, target_txt, self.env[nm]))

    def stmts(self, body, cond=None):
        for s in body:
            self.stmt(s, cond)

    def stmt(self, s, cond):
        if isinstance(s, ast.Expr):
            return
        if isinstance(s, ast.If):
            try:
                b = T.trb(s.test, self.ctx())
                self.switches.append((_norm(s.test), b))
            except T.TranslateError:
                b = None
                self.skipped.append(_norm(s.test))
            self.stmts(s.body, b if cond is None or b is None else '(%s && %s)' % (cond, b))
            nb = None if b is None else '(! %s)' % b
            self.stmts(s.orelse, nb if cond is None or nb is None else '(%s && %s)' % (cond, nb))
            return
        if isinstance(s, (ast.For, ast.While)):
            # loop bodies only fill arrays; scalars (re)bound inside would not be closed expressions
            for t in ast.walk(s):
                if isinstance(t, ast.Assign):
                    for tg in t.targets:
                        for nm in _names(tg):
                            if isinstance(tg, (ast.Name, ast.Tuple)): self.env.pop(nm, None)
                    self.note_formula(_norm(t.targets[0]), t.value)
            return
        if isinstance(s, (ast.Return, ast.Raise)):
            return
        if isinstance(s, (ast.Assign, ast.AugAssign)):
            targets = s.targets if isinstance(s, ast.Assign) else [s.target]
            value = s.value
            tg = targets[0]
            if isinstance(s, ast.Assign) and len(targets) == 1 and isinstance(tg, ast.Name):
                v = self.scalar(value)
                if v is not None:
                    if cond is None:
                        self.env[tg.id] = v
                    elif tg.id in self.env:
                        # an unmodelled enclosing test (cond None here means top level) cannot occur: cond is a Bool term
                        self.env[tg.id] = '(if %s then %s else %s)' % (cond, v, self.env[tg.id])
                    else:
                        self.env.pop(tg.id, None)
                    return
                # not a closed scalar: an array formula (or a helper such as `exp = numpy.exp`)
                self.env.pop(tg.id, None)
                self.note_formula(tg.id, value)
                return
            if isinstance(tg, ast.Attribute):
                return              # bookkeeping records (Demes.cache = …), not part of the density
            # subscripted / tuple targets: array formulas
            for t in targets:
                if isinstance(t, ast.Tuple):
                    for nm in _names(t): self.env.pop(nm, None)
            self.note_formula(_norm(tg), value)
            return
        raise T.TranslateError('%s: statement %s not handled' % (self.fn.name, type(s).__name__))

def _return_factor(fn, env, src):
    """last `return phi * <expr>` -> Lean of <expr>"""
    rets = [n for n in ast.walk(fn) if isinstance(n, ast.Return) and n.value is not None]
    last = sorted(rets, key=lambda n: n.lineno)[-1].value
    def strip(e):
        if isinstance(e, ast.BinOp) and isinstance(e.op, (ast.Mult, ast.Div)):
            l = strip(e.left)
            if l is None: return e.right if isinstance(e.op, ast.Mult) else False
            if l is False: return False
            return ast.BinOp(left=l, op=e.op, right=e.right)
        if isinstance(e, ast.Name) and e.id == 'phi': return None
        return False
    r = strip(last)
    if r is None or r is False:
        raise T.TranslateError('%s: return is not phi * <expr>' % fn.name)
    return ast.unparse(r), T.tr(ast.fix_missing_locations(r), T.Ctx(names=env))

def _lstr(s):
    return '"' + s.replace('\\', '\\\\').replace('"', '\\"') + '"'

def generate():
    path = os.path.join(T.REPO, 'dadi', 'PhiManip.py')
    src, tree, fns = T.py_functions(path)
    out = [T.HEADER, 'namespace Gen\nnamespace EqSwitch']
    for fname in ('phi_1D_genic', 'phi_1D'):
        fn = fns.get(fname)
        if fn is None: raise T.TranslateError(fname)
        params = [a.arg for a in fn.args.args]
        for a in ARGS[fname]:
            if a not in params: raise T.TranslateError('%s: no parameter %s' % (fname, a))
        w = _Walk(fn, src)
        w.stmts(fn.body)
        ln = LNAME[fname]
        sig = ' '.join(ARGS[fname])
        if not w.switches: raise T.TranslateError('%s: no scalar regime switch found' % fname)
        if not w.formulas: raise T.TranslateError('%s: no formula found' % fname)
        out.append('/-- %s: scalar tests, in source order -/' % fname)
        out.append('def %s_switch_src : List String := [%s]' % (ln, ', '.join(_lstr(t) for t, _ in w.switches)))
        out.append('def %s_switches (%s : Rat) : List Bool := [\n  %s]' % (ln, sig, ',\n  '.join(b for _, b in w.switches)))
        out.append('/-- %s: tests outside the scalar language (arrays, objects): not modelled -/' % fname)
        out.append('def %s_switch_skipped : List String := [%s]' % (ln, ', '.join(_lstr(t) for t in w.skipped)))
        out.append('/-- %s: scalar names inside array formulas ("name @ target"), and what reaches them -/' % fname)
        out.append('def %s_formula_src : List String := [%s]' % (ln, ', '.join(_lstr('%s @ %s' % (n, t)) for n, t, _ in w.formulas)))
        out.append('def %s_formula_args (%s : Rat) : List Rat := [\n  %s]' % (ln, sig, ',\n  '.join(e for _, _, e in w.formulas)))
        txt, lean = _return_factor(fn, w.env, src)
        out.append('/-- %s: return phi * %s -/' % (fname, txt))
        out.append('def %s_prefactor (%s : Rat) : Rat := %s' % (ln, sig, lean))
    out.append('end EqSwitch\nend Gen\nend DadiVerif\n')
    return '\n'.join(out)
