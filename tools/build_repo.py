#!/venv/bin/python
"""Rebuild dadi from /repo's *current working tree* into a scratch directory.

  build(dest=None) -> path P such that `sys.path.insert(0, P)` makes `import dadi`
  load the scratch copy (pure-Python files copied from /repo/dadi as they are now,
  the three C extensions recompiled from the current .c sources with gcc).

Cython is not installed in this sandbox, so a changed .pyx cannot be regenerated.
Every Cython-generated .c embeds the pyx text as comments; we compare the *code* lines
of the pyx (comments/blank lines stripped) against what the .c embeds and raise
BuildInfraError (exit 2 upstream) if the pyx was edited after the .c was generated.

The scratch directory lives under $TMPDIR (outside /repo and /verif); callers remove it
(`cleanup(path)`); `python tools/build_repo.py --smoke` builds, imports, and removes.
"""
import os, sys, shutil, subprocess, sysconfig, tempfile, hashlib, re, json

REPO = os.environ.get('DADI_REPO', '/repo')

class BuildInfraError(Exception):
    pass

def _pyx_stale(pyx_path, c_path):
    """True if some non-trivial code line of the .pyx does not occur in the generated .c
    (Cython embeds every source line it compiles as a comment: ' * <line>')."""
    if not os.path.exists(pyx_path) or not os.path.exists(c_path):
        return True
    ctext = open(c_path, errors='replace').read()
    embedded = set()
    for line in ctext.split('\n'):
        m = re.match(r'^ \* (.*?)(\s+# <<<<<<<<<<<<<<)?$', line)
        if m:
            embedded.add(m.group(1).strip())
        m = re.match(r'^ \* (.*)$', line)
        if m:
            embedded.add(m.group(1).strip())
    missing = []
    for line in open(pyx_path):
        s = line.strip()
        if not s or s.startswith('#'):
            continue
        # only executable lines inside def bodies are embedded; test on call lines
        if re.match(r'^(c_\w+\(|return |cdef |def |tridiag|for |if )', s) and s not in embedded:
            # continuation lines of multi-line statements are embedded too, but extern
            # declarations are not; restrict to lines that Cython does embed
            if s.startswith('cdef extern') or s.startswith('void ') or s.startswith('double '):
                continue
            missing.append(s)
    return missing

EXTS = [
    ('dadi/tridiag_cython', ['dadi/tridiag_cython.c', 'dadi/tridiag.c'], 'dadi/tridiag_cython.pyx'),
    ('dadi/integration_c', ['dadi/integration_c.c', 'dadi/integration1D.c', 'dadi/integration2D.c',
                            'dadi/integration3D.c', 'dadi/integration4D.c', 'dadi/integration5D.c',
                            'dadi/integration_shared.c', 'dadi/tridiag.c'], 'dadi/integration_c.pyx'),
    ('dadi/DFE/PDFs_cython', ['dadi/DFE/PDFs_cython.c'], 'dadi/DFE/PDFs_cython.pyx'),
]

def build(dest=None, opt='-O3', verbose=False):
    import numpy
    base = os.environ.get('TMPDIR', '/tmp')
    if dest is None:
        dest = tempfile.mkdtemp(prefix='dadi_verif_build_', dir=base)
    if os.path.realpath(dest).startswith(('/repo/', '/verif/')):
        raise BuildInfraError('scratch must be outside /repo and /verif')
    src = os.path.join(REPO, 'dadi')
    dst = os.path.join(dest, 'dadi')
    if os.path.exists(dst):
        shutil.rmtree(dst)
    shutil.copytree(src, dst, ignore=shutil.ignore_patterns('*.so', '__pycache__', '*.pyc', 'cuda'))
    # cuda dir is needed for imports guarded by cuda_enabled only; copy lazily if exists
    if os.path.isdir(os.path.join(src, 'cuda')):
        shutil.copytree(os.path.join(src, 'cuda'), os.path.join(dst, 'cuda'),
                        ignore=shutil.ignore_patterns('__pycache__'))
    for name, srcs, pyx in EXTS:
        stale = _pyx_stale(os.path.join(dest, pyx), os.path.join(dest, srcs[0]))
        if stale is True:
            raise BuildInfraError('missing %s or its generated C' % pyx)
        if stale:
            raise BuildInfraError('%s was edited after %s was generated (no Cython here to '
                                  'regenerate): %r' % (pyx, srcs[0], stale[:3]))
    inc = sysconfig.get_paths()['include']
    npinc = numpy.get_include()
    suffix = sysconfig.get_config_var('EXT_SUFFIX')
    procs = []
    for name, srcs, pyx in EXTS:
        out = os.path.join(dest, name + suffix)
        cmd = ['gcc', '-shared', '-fPIC', '-fno-strict-overflow', '-DNDEBUG', opt, '-w',
               '-DNPY_NO_DEPRECATED_API=NPY_1_7_API_VERSION',
               '-I', inc, '-I', npinc, '-I', os.path.join(dest, 'dadi')] + \
              [os.path.join(dest, s) for s in srcs] + ['-o', out, '-lm']
        procs.append((name, subprocess.Popen(cmd, stdout=subprocess.PIPE, stderr=subprocess.STDOUT)))
    for name, p in procs:
        out, _ = p.communicate()
        if p.returncode != 0:
            raise CompileError(name, out.decode(errors='replace'))
    return dest

class CompileError(Exception):
    """The current C sources do not compile: that is a property of the tree, reported upstream."""
    def __init__(self, name, log):
        super().__init__('%s failed to compile:\n%s' % (name, log[-3000:]))
        self.name = name; self.log = log

def cleanup(path):
    if path and os.path.isdir(path) and os.path.basename(path).startswith('dadi_verif_build_'):
        shutil.rmtree(path, ignore_errors=True)

def activate(path):
    """Make `import dadi` load the scratch copy in this process."""
    for m in [k for k in sys.modules if k == 'dadi' or k.startswith('dadi.')]:
        del sys.modules[m]
    sys.path.insert(0, path)
    import dadi
    assert os.path.realpath(dadi.__file__).startswith(os.path.realpath(path)), dadi.__file__
    import dadi.integration_c as ic
    assert os.path.realpath(ic.__file__).startswith(os.path.realpath(path)), ic.__file__
    return dadi

if __name__ == '__main__':
    if '--smoke' in sys.argv:
        p = build()
        try:
            d = activate(p)
            import numpy as np
            xx = d.Numerics.default_grid(12)
            phi = d.PhiManip.phi_1D(xx)
            phi = d.Integration.one_pop(phi, xx, 0.01)
            print('ok', p, float(phi.sum()))
        finally:
            cleanup(p)
    else:
        print(build())
