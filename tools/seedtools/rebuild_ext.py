#!/venv/bin/python
"""usage: rebuild_ext.py <worktree>  — recompile the three C extensions of a dadi checkout in place with gcc
(no Cython here: .pyx files cannot be regenerated; edit the .c kernels / Python only)."""
import os, sys, subprocess, sysconfig, numpy
W = sys.argv[1]
EXTS = [('dadi/tridiag_cython', ['dadi/tridiag_cython.c', 'dadi/tridiag.c']),
        ('dadi/integration_c', ['dadi/integration_c.c', 'dadi/integration1D.c', 'dadi/integration2D.c', 'dadi/integration3D.c',
                                'dadi/integration4D.c', 'dadi/integration5D.c', 'dadi/integration_shared.c', 'dadi/tridiag.c']),
        ('dadi/DFE/PDFs_cython', ['dadi/DFE/PDFs_cython.c'])]
suffix = sysconfig.get_config_var('EXT_SUFFIX')
for name, srcs in EXTS:
    cmd = ['gcc', '-shared', '-fPIC', '-fno-strict-overflow', '-DNDEBUG', '-O3', '-w', '-DNPY_NO_DEPRECATED_API=NPY_1_7_API_VERSION',
           '-I', sysconfig.get_paths()['include'], '-I', numpy.get_include(), '-I', os.path.join(W, 'dadi')] + \
          [os.path.join(W, s) for s in srcs] + ['-o', os.path.join(W, name + suffix), '-lm']
    subprocess.check_call(cmd)
print('rebuilt')
