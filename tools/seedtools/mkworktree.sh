#!/bin/sh
# usage: mkworktree.sh <dir>   — scratch git worktree of /repo with the git-ignored generated files copied in
set -e
D="$1"
git -C /repo worktree add --detach "$D" HEAD >/dev/null 2>&1
cd /repo
git status --short --ignored | grep '^!! dadi/' | sed 's/^!! //' | while read f; do
  mkdir -p "$D/$(dirname $f)"; cp -r "/repo/$f" "$D/$f"; done
echo "worktree at $D"
