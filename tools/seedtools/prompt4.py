import json,sys,os,glob,subprocess
pid=sys.argv[1]; n=sys.argv[2] if len(sys.argv)>2 else '2'
base=subprocess.run([sys.executable,os.path.join(os.path.dirname(__file__),'prompt.py'),pid,n],stdout=subprocess.PIPE).stdout.decode()
used=[]
for m in sorted(glob.glob('/verif/seeded/%s-*/meta.json'%pid)):
    j=json.load(open(m)); used.append('  - '+j.get('summary','')[:160].replace('\n',' '))
extra=''
if used:
    extra='\n\nEarlier rounds already produced the following changes for this property; yours must be in DIFFERENT functions or mechanisms (do not repeat these):\n'+'\n'.join(used)+'\nPrefer places nobody has touched yet: other clauses of the statement, other dimensions/variants, option combinations, helper functions the anchored code calls, interactions between two sites.'
print(base.rstrip()+extra)
