import json,sys
pid=sys.argv[1]; n=sys.argv[2] if len(sys.argv)>2 else '2'
for l in open('/verif/properties.jsonl'):
    p=json.loads(l)
    if p['id']==pid: break
wt='/tmp/seed_%s'%pid
print(f"""You are testing how robust a library's guarantees are. The library is dadi (population-genetics inference: diffusion PDE solver for allele frequency spectra + likelihood fitting), Python + C. You have your own scratch git worktree of it at {wt} (already created; generated C files and compiled extensions are copied in). Work ONLY inside {wt} and /tmp/seedtools; do not read or touch /repo, /verif or any other directory outside {wt} (a sibling process uses them).

Here is a semantic property that the library is supposed to satisfy:

  id: {p['id']} — {p['title']}
  statement: {p['statement']}
  quantified over: {p['quantifier']['text']}
  code anchored in: {', '.join(p['anchors']['files'])}

TASK: produce {n} DIFFERENT realistic code changes (bugs) to the library, each of which BREAKS this property while the library still imports/compiles and the existing test-suite still passes. Aim for the kind of mistake a maintainer could plausibly make in a refactor, optimisation or bug-fix (wrong index/stride in one variant, swapped argument in one of several near-identical call sites, missing factor in one branch, off-by-one in a boundary, stale cache key, in-place mutation, a guard evaluated on the wrong variable, two sites that each look fine alone…). Each change must need something SPECIFIC to manifest — an unusual but legitimate input, a particular combination of options, a multi-step sequence of calls, a particular dimension/axis, odd vs even sizes — not something ordinary use or the existing tests would expose at once. Keep each change small (a few lines). The {n} changes must be in different functions/mechanisms.

For EACH change k = 1..{n} deliver a directory {wt}/SEED/k/ containing:
  * patch.diff — `git diff` of the change against the worktree's HEAD (only library source under dadi/; apply cleanly with `git apply`).
  * demo.py — a small standalone program (run as `PYTHONPATH={wt} /venv/bin/python demo.py`) that exercises the public API and checks the property on a concrete input: it must exit 0 (print PASS) on the unmodified library and exit 1 (print FAIL and what differs) with the change applied. It must not depend on anything outside the library + numpy/scipy.
  * meta.json — {{"property": "{pid}", "summary": "...what was changed...", "needs": "...what is needed for it to manifest...", "files": [...], "tests_passed": true, "commands": ["...what you ran..."]}}

HOW TO WORK:
  * Python is /venv/bin/python. Import the worktree's copy with PYTHONPATH={wt} (check `dadi.__file__`).
  * If you change a .c file, recompile with `/venv/bin/python /tmp/seedtools/rebuild_ext.py {wt}` (there is no Cython: do not edit .pyx files).
  * The existing test-suite: `cd {wt} && PYTHONPATH={wt} /venv/bin/python -m pytest -q -p no:cacheprovider --timeout=900 tests` (about 4 minutes; all 93 tests pass on the unmodified tree). It MUST still pass with each change applied (run it for each change; tests in tests/ must not be edited).
  * Work on one change at a time: apply, rebuild if needed, run demo (must FAIL), run test-suite (must pass), save `git diff > SEED/k/patch.diff`, then `git checkout -- dadi` (and rebuild if C was changed), run demo again (must PASS).
  * Never use `git stash` (the stash is shared by all worktrees of the repository and sibling processes use it): keep changes as patch files (`git diff > x.diff`, `git checkout -- dadi`, `git apply x.diff`).
  * Finish with the worktree source reverted to HEAD (only the SEED directory added).
Report briefly what the {n} changes are.""")
