#!/usr/bin/env python3
"""seed_round.py <prefix e.g. /tmp/seed> Cxx [Cyy ...]
For every <prefix>_Cxx/SEED/<k>/ (patch.diff, demo.py, meta.json) produced by a seeding sub-agent: confirm it independently
(tools/confirm_seed.py: demo passes clean, fails changed, 93 tests pass) and store it as seeded/Cxx-<next free n>; then run the
property's check against every newly stored seed (tools/run_seeds_par.py) and print DETECTED/MISSED."""
import os, sys, subprocess, glob, re, json
from concurrent.futures import ThreadPoolExecutor
V = os.path.dirname(os.path.dirname(os.path.abspath(__file__)))
pfx = sys.argv[1]; props = sys.argv[2:]
jobs = []
for p in props:
    used = [int(re.search(r'-(\d+)$', d).group(1)) for d in glob.glob(os.path.join(V, 'seeded', p + '-*'))]
    n = max(used + [0])
    # ids handed out to earlier (unkept) seeds are not reused within a round
    for d in sorted(glob.glob('%s_%s/SEED/*/' % (pfx, p))):
        if not os.path.exists(os.path.join(d, 'patch.diff')): continue
        n += 1
        jobs.append((d.rstrip('/'), '%s-%d' % (p, n)))
def conf(j):
    d, sid = j
    r = subprocess.run(['python3', os.path.join(V, 'tools', 'confirm_seed.py'), d, sid], stdout=subprocess.PIPE, stderr=subprocess.STDOUT)
    out = r.stdout.decode(errors='replace').strip().split('\n')
    print(sid, 'confirm rc=%d' % r.returncode, '|', out[-1][:200], flush=True)
    return sid if r.returncode == 0 else None
with ThreadPoolExecutor(max_workers=6) as ex:
    kept = [s for s in ex.map(conf, jobs) if s]
if kept:
    subprocess.run(['python3', os.path.join(V, 'tools', 'run_seeds_par.py'), '-j', '6'] + kept)
