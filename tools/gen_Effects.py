"""Generated/Effects.lean — two tables computed from the current source by conservative syntactic analysis:

 * `caches`: every module-level dict used as a memo table (pattern `NAME = {}` at module level and a function that
   stores `NAME[key] = value`): the parameters the function reads vs the parameters its key mentions
   (key sufficiency: the cached value can depend only on what the key records).
 * `effects`: for every function in the audited set, whether some statement can modify an argument in place
   (subscript/attribute store or augmented assignment through a name that still aliases a parameter, call of a
   known in-place kernel on such a name, mutating method call) and whether an alias of an argument is returned.
   `x = x.copy()` / any fresh expression at the top level of the function breaks the alias.
The analysis over-approximates (it never misses a syntactic mutation of the listed kinds; it may flag harmless code).
"""
import ast, os, re, json
import translate as T

NAME = 'Effects'

MODULES = ['Numerics.py', 'Spectrum_mod.py', 'LowPass/LowPass.py', 'Integration.py', 'PhiManip.py', 'Inference.py',
           'Misc.py', 'Godambe.py']
ALIASING_METHODS = {'ravel', 'reshape', 'transpose', 'view', 'swapaxes', 'squeeze', 'filled', 'diagonal', 'astype_nocopy', '__array__'}   # may return views
# functions of numpy that return their (first) argument itself, or a view of it, for at least some argument types
_ALIASING_NUMPY = {'asarray', 'asanyarray', 'ascontiguousarray', 'asfortranarray', 'asfarray', 'asarray_chkfinite', 'atleast_1d', 'atleast_2d',
                   'atleast_3d', 'ravel', 'reshape', 'transpose', 'squeeze', 'swapaxes', 'moveaxis', 'rollaxis', 'expand_dims', 'broadcast_to',
                   'flip', 'flipud', 'fliplr', 'diagonal', 'real', 'imag', 'require',
                   'ma.asarray', 'ma.asanyarray', 'ma.getdata', 'ma.getmask', 'ma.getmaskarray', 'ma.filled', 'ma.ravel', 'ma.reshape',
                   'ma.transpose', 'ma.squeeze', 'ma.swapaxes'}
# constructors that copy unless told otherwise (`copy=` keyword): `numpy.array(x, copy=False/None)` aliases; the masked-array
# constructors alias by DEFAULT (copy=False) and copy only with copy=True; `Spectrum(x, data_copy=False)` aliases
_COPY_BY_DEFAULT = {'array'}
_ALIAS_BY_DEFAULT = {'ma.masked_array', 'ma.array', 'ma.MaskedArray', 'ma.masked_invalid_nocopy'}
MUTATING_METHODS = {'sort', 'append', 'extend', 'insert', 'pop', 'remove', 'fill', 'put', 'itemset', 'resize', 'clear', 'update',
                    'reverse', 'setdefault', 'mask_corners', 'unmask_all', 'setflags', '__setitem__', '__iadd__', '__isub__', '__imul__',
                    'partition', 'byteswap_inplace', 'harden_mask', 'soften_mask', 'popitem', 'discard', 'add'}
INPLACE_KERNEL = re.compile(r'^(int_c\.implicit_\w+|_inject_mutations_\w+|tridiag\.tridiag_inplace)$')
# numpy functions that write into an argument: (name, index of the written argument or keyword)
_WRITING_NUMPY = {'copyto': 0, 'put': 0, 'place': 0, 'putmask': 0, 'fill_diagonal': 0, 'put_along_axis': 0, 'random.shuffle': 0}

# `Spectrum.S` masks the corners and restores the saved mask before returning (tabled as an exemption in Props/C20.lean and
# watched byte-for-byte at run time): callers of S are not charged with that temporary change
NON_PROPAGATING = {'self.S'}

def names_in(node):
    return {n.id for n in ast.walk(node) if isinstance(n, ast.Name)}

def base_name(node):
    """x, x[...], x.attr, x.attr[...] -> 'x' ; None otherwise"""
    while isinstance(node, (ast.Subscript, ast.Attribute)):
        node = node.value
    return node.id if isinstance(node, ast.Name) else None

def numpy_name(fn):
    """'numpy.ma.asarray' / 'np.ma.asarray' -> 'ma.asarray'; None if not a numpy function"""
    if not fn: return None
    for pre in ('numpy.', 'np.'):
        if fn.startswith(pre): return fn[len(pre):]
    return None

def _kw(call, name):
    for k in call.keywords:
        if k.arg == name: return k.value
    return None

def alias_roots(e, A):
    """set of parameters (roots) that the value of expression `e` may alias; A : name -> set of roots"""
    if isinstance(e, ast.Name):
        return set(A.get(e.id, ()))
    if isinstance(e, (ast.Subscript, ast.Attribute)):
        b = base_name(e)
        return set(A.get(b, ())) if b else set()
    if isinstance(e, ast.Starred):
        return alias_roots(e.value, A)
    if isinstance(e, ast.Call):
        fn = T.callee_name(e.func)
        if isinstance(e.func, ast.Attribute) and e.func.attr in ALIASING_METHODS and base_name(e.func.value) in A:
            return set(A[base_name(e.func.value)])
        nn = numpy_name(fn)
        first = e.args[0] if e.args else None
        if nn in _ALIASING_NUMPY and first is not None:
            return alias_roots(first, A)
        if nn in _COPY_BY_DEFAULT and first is not None:
            c = _kw(e, 'copy')
            if c is not None and not (isinstance(c, ast.Constant) and c.value is True):
                return alias_roots(first, A)
            return set()
        if nn in _ALIAS_BY_DEFAULT and first is not None:
            c = _kw(e, 'copy')
            if c is not None and isinstance(c, ast.Constant) and c.value is True:
                return set()
            return alias_roots(first, A)
        if fn in ('Spectrum', 'Spectrum_mod.Spectrum', 'dadi.Spectrum') and first is not None:
            c = _kw(e, 'data_copy')
            if c is not None and not (isinstance(c, ast.Constant) and c.value is True):
                return alias_roots(first, A)
            return set()
        if fn and INPLACE_KERNEL.match(fn) and first is not None:
            return alias_roots(first, A)          # the kernels return their first argument
        return set()
    if isinstance(e, ast.IfExp):
        return alias_roots(e.body, A) | alias_roots(e.orelse, A)
    if isinstance(e, ast.BoolOp):
        out = set()
        for v in e.values: out |= alias_roots(v, A)
        return out
    if isinstance(e, ast.Tuple):
        # (a tuple cannot itself be modified; it is tracked so that `return phi, xx` counts as returning an alias.  A list / dict
        #  literal is a fresh container: appending to it modifies no argument)
        out = set()
        for x in e.elts: out |= alias_roots(x, A)
        return out
    if isinstance(e, ast.NamedExpr):
        return alias_roots(e.value, A)
    return set()

def is_alias_expr(e, A):
    return bool(alias_roots(e, A if isinstance(A, dict) else {a: {a} for a in A}))

def param_names(fn):
    a = fn.args
    ps = [x.arg for x in getattr(a, 'posonlyargs', []) + a.args]
    allp = ps + [x.arg for x in a.kwonlyargs]
    if a.vararg: allp.append(a.vararg.arg)
    if a.kwarg: allp.append(a.kwarg.arg)
    return ps, allp

def analyse(fn, summaries=None, outer=None, qual=None, nested_out=None):
    """effect summary of one function.
    summaries : {callee name as written at the call site: (positional parameter names, set of parameters it may modify)}
                (interprocedural step: passing an alias of an argument to a parameter the callee modifies is a modification);
    outer     : alias map of the enclosing function (closure variables of a nested function alias what they alias outside);
    nested_out: list receiving (qualified name, params, events, returned aliases) of nested functions.
    Returns (params, mutation events, returned aliases, set of roots — own parameters or, for a nested function, parameters
    of an enclosing function reached through a closure variable — that may be modified)."""
    pos, params = param_names(fn)
    A = {k: set(v) for k, v in (outer or {}).items()}
    for p_ in params: A[p_] = {p_}
    # `**kwargs` is a dictionary created by the call: deleting / storing its entries modifies nothing of the caller's
    fresh_dict = fn.args.kwarg.arg if fn.args.kwarg else None
    # parameters whose default is a number / bool / string are scalars: `t += dt` on a plain name bound to one rebinds the name
    scalars = set()
    a_ = fn.args
    for nm, d in list(zip([x.arg for x in (getattr(a_, 'posonlyargs', []) + a_.args)][::-1], a_.defaults[::-1])) + [(x.arg, d) for x, d in zip(a_.kwonlyargs, a_.kw_defaults) if d is not None]:
        if isinstance(d, ast.Constant) and isinstance(d.value, (int, float, bool, str)) and d.value is not None:
            scalars.add(nm)
        if isinstance(d, ast.UnaryOp) and isinstance(d.operand, ast.Constant) and isinstance(d.operand.value, (int, float)):
            scalars.add(nm)
    muts = []; ret_alias = []; mutated = set()
    summ = dict(summaries or {})
    def R(e): return alias_roots(e, A)
    def event(lineno, text, roots):
        muts.append('%d: %s' % (lineno, text)); mutated.update(roots)
    def scan_calls(s):
        stack = [s]
        while stack:
            node = stack.pop()
            for ch in ast.iter_child_nodes(node):
                if isinstance(ch, (ast.FunctionDef, ast.AsyncFunctionDef, ast.ClassDef)): continue
                stack.append(ch)
            if not isinstance(node, ast.Call): continue
            fnm = T.callee_name(node.func)
            if fnm and INPLACE_KERNEL.match(fnm) and node.args and R(node.args[0]):
                event(node.lineno, '%s(%s, ...)' % (fnm, ast.unparse(node.args[0])), R(node.args[0]))
            if isinstance(node.func, ast.Attribute) and node.func.attr in MUTATING_METHODS and A.get(base_name(node.func.value)) \
               and not (isinstance(node.func.value, ast.Name) and node.func.value.id == fresh_dict):
                event(node.lineno, ast.unparse(node.func), A[base_name(node.func.value)])
            nn = numpy_name(fnm)
            if nn in _WRITING_NUMPY and len(node.args) > _WRITING_NUMPY[nn] and R(node.args[_WRITING_NUMPY[nn]]):
                event(node.lineno, '%s(%s, ...)' % (fnm, ast.unparse(node.args[_WRITING_NUMPY[nn]])), R(node.args[_WRITING_NUMPY[nn]]))
            o = _kw(node, 'out')
            if o is not None and R(o):
                event(node.lineno, '%s(..., out=%s)' % (fnm, ast.unparse(o)), R(o))
            if fnm in summ and fnm not in NON_PROPAGATING:
                cpos, cmut = summ[fnm]
                off = 0
                if fnm.startswith('self.') and cpos and cpos[0] == 'self':
                    off = 1
                    if 'self' in cmut and A.get('self'):
                        event(node.lineno, '%s() modifies self' % fnm, A['self'])
                for i, a in enumerate(node.args):
                    if isinstance(a, ast.Starred): break
                    j = i + off
                    if j < len(cpos) and cpos[j] in cmut and R(a):
                        event(node.lineno, '%s(… %s …) modifies its parameter %s' % (fnm, ast.unparse(a)[:30], cpos[j]), R(a))
                for k in node.keywords:
                    if k.arg in cmut and R(k.value):
                        event(node.lineno, '%s(… %s=%s …) modifies its parameter %s' % (fnm, k.arg, ast.unparse(k.value)[:30], k.arg), R(k.value))
    def is_fresh_entry(t):
        # kwargs[k] (one level): an entry of the call's own keyword dictionary
        return isinstance(t, ast.Subscript) and isinstance(t.value, ast.Name) and t.value.id == fresh_dict
    def own_exprs(s):
        # only the statement's own expressions: bodies of compound statements are visited separately
        if isinstance(s, (ast.For, ast.AsyncFor)): return [s.iter]
        if isinstance(s, (ast.If, ast.While)): return [s.test]
        if isinstance(s, (ast.With, ast.AsyncWith)): return [i.context_expr for i in s.items]
        if isinstance(s, ast.Try): return []
        return [s]
    def visit(stmts, top):
        for s in stmts:
            if isinstance(s, (ast.FunctionDef, ast.AsyncFunctionDef)):
                q = '%s.%s' % (qual or fn.name, s.name)
                npar, nm, nr, nmut = analyse(s, summ, outer=A, qual=q, nested_out=nested_out)
                if nested_out is not None: nested_out.append((q, npar, nm, nr))
                own = set(param_names(s)[1])
                for r in sorted(nmut - own):
                    # a nested function that writes through a closure variable modifies the enclosing function's argument
                    event(s.lineno, 'nested %s writes through the closure variable aliasing %s' % (s.name, r), {r})
                summ[s.name] = (param_names(s)[0], nmut & own)
                continue
            if isinstance(s, ast.ClassDef):
                continue
            # mutation events first (evaluated with the alias set before this statement's own rebinding)
            for e in own_exprs(s): scan_calls(e)
            if isinstance(s, ast.AugAssign):
                b = base_name(s.target)
                roots = set(A.get(b) or ())
                if isinstance(s.target, ast.Name): roots -= scalars
                if roots and not is_fresh_entry(s.target):
                    event(s.lineno, '%s %s=' % (ast.unparse(s.target), type(s.op).__name__), roots)
            elif isinstance(s, (ast.Assign, ast.AnnAssign)):
                targets = s.targets if isinstance(s, ast.Assign) else [s.target]
                val = s.value
                for t in targets:
                    is_tup = isinstance(t, (ast.Tuple, ast.List))
                    for tt in (t.elts if is_tup else [t]):
                        if isinstance(tt, (ast.Subscript, ast.Attribute)):
                            b = base_name(tt)
                            if A.get(b) and not is_fresh_entry(tt):
                                event(s.lineno, '%s =' % ast.unparse(tt), A[b])
                        elif isinstance(tt, ast.Name):
                            r = R(val) if (val is not None and not is_tup) else set()
                            if r:
                                A[tt.id] = set(r) if top else (set(A.get(tt.id, set())) | r)
                            elif top and not is_tup:
                                A.pop(tt.id, None)
            elif isinstance(s, ast.Delete):
                for tt in s.targets:
                    if isinstance(tt, ast.Subscript) and A.get(base_name(tt)) and not is_fresh_entry(tt):
                        event(s.lineno, 'del %s' % ast.unparse(tt), A[base_name(tt)])
            elif isinstance(s, ast.Return):
                if s.value is not None and R(s.value):
                    ret_alias.append('%d: return %s' % (s.lineno, ast.unparse(s.value)[:40]))
            elif isinstance(s, (ast.For, ast.AsyncFor)):
                # loop variable bound to elements: not an alias of the container for our purposes (scalars); bodies nested
                visit(s.body, False); visit(s.orelse, False)
            elif isinstance(s, (ast.If, ast.While)):
                visit(s.body, False); visit(s.orelse, False)
            elif isinstance(s, (ast.With, ast.AsyncWith)):
                visit(s.body, False)
            elif isinstance(s, ast.Try):
                visit(s.body, False)
                for h in s.handlers: visit(h.body, False)
                visit(s.orelse, False); visit(s.finalbody, False)
    visit(fn.body, True)
    return params, muts, ret_alias, mutated

def module_summaries(trees):
    """{call-site name: (positional parameters, parameters possibly modified)} for every function of the audited modules, to a
    fixpoint: bare name and `Module.name` / `dadi.Module.name` for module-level functions, `self.name` for methods of Spectrum"""
    summ = {}
    for _ in range(6):
        new = {}
        for rel, tree in trees:
            mod = os.path.splitext(os.path.basename(rel))[0]
            for n in tree.body:
                if isinstance(n, ast.FunctionDef):
                    _, _, _, mutated = analyse(n, summ)
                    own = set(param_names(n)[1])
                    val = (param_names(n)[0], mutated & own)
                    for key in (n.name, '%s.%s' % (mod, n.name), 'dadi.%s.%s' % (mod, n.name)):
                        if key == n.name and key in new: continue          # bare names: first module wins (same-module calls dominate)
                        new[key] = val
                elif isinstance(n, ast.ClassDef) and n.name == 'Spectrum':
                    for m in n.body:
                        if isinstance(m, ast.FunctionDef):
                            _, _, _, mutated = analyse(m, summ)
                            new['self.' + m.name] = (param_names(m)[0], mutated & set(param_names(m)[1]))
        if new == summ: break
        summ = new
    return summ

def cache_tables(path, rel, tree, src):
    """memo tables: module-level `NAME = {}` + a function storing `NAME[key] = value`.
    usedInputs = backward slice of the stored value (through local assignments and the tests of enclosing ifs) down to
    names that are inputs of the function (parameters, closure variables); keyInputs = the same for the key expression."""
    caches = []
    mod_dicts = set(); mod_names = set()
    for s in tree.body:
        if isinstance(s, ast.Assign):
            for t in s.targets:
                if isinstance(t, ast.Name):
                    mod_names.add(t.id)
                    if isinstance(s.value, ast.Dict) and not s.value.keys: mod_dicts.add(t.id)
        elif isinstance(s, (ast.FunctionDef, ast.ClassDef)):
            mod_names.add(s.name)
        elif isinstance(s, (ast.Import, ast.ImportFrom)):
            for a in s.names: mod_names.add((a.asname or a.name).split('.')[0])
    if not mod_dicts:
        return caches
    import builtins
    ignore = mod_names | set(dir(builtins))
    def innermost_functions(node, acc):
        for ch in ast.iter_child_nodes(node):
            if isinstance(ch, ast.FunctionDef):
                acc.append(ch)
            innermost_functions(ch, acc)
        return acc
    for fn in innermost_functions(tree, []):
        # statements that belong to fn itself (not to nested defs)
        own = []
        def collect(n):
            for ch in ast.iter_child_nodes(n):
                if isinstance(ch, (ast.FunctionDef, ast.ClassDef, ast.Lambda)): continue
                own.append(ch); collect(ch)
        collect(fn)
        stores = []
        for node in own:
            if isinstance(node, ast.Assign):
                for t in node.targets:
                    if isinstance(t, ast.Subscript) and isinstance(t.value, ast.Name) and t.value.id in mod_dicts:
                        stores.append((t.value.id, t.slice, node.value))
        if not stores:
            continue
        # local definitions with control dependences
        defs = {}
        def walk(stmts, tests):
            for s in stmts:
                if isinstance(s, ast.Assign):
                    for t in s.targets:
                        for tt in (t.elts if isinstance(t, ast.Tuple) else [t]):
                            if isinstance(tt, ast.Name): defs.setdefault(tt.id, []).append((s.value, list(tests)))
                elif isinstance(s, ast.AugAssign) and isinstance(s.target, ast.Name):
                    defs.setdefault(s.target.id, []).append((s.value, list(tests)))
                elif isinstance(s, ast.For):
                    for tt in (s.target.elts if isinstance(s.target, ast.Tuple) else [s.target]):
                        if isinstance(tt, ast.Name): defs.setdefault(tt.id, []).append((s.iter, list(tests)))
                    walk(s.body, tests); walk(s.orelse, tests)
                elif isinstance(s, (ast.If, ast.While)):
                    walk(s.body, tests + [s.test]); walk(s.orelse, tests + [s.test])
                elif isinstance(s, ast.Try):
                    walk(s.body, tests); walk(s.orelse, tests); walk(s.finalbody, tests)
                    for h in s.handlers: walk(h.body, tests)
                elif isinstance(s, ast.With):
                    walk(s.body, tests)
        walk(fn.body, [])
        fn_params = {a.arg for a in fn.args.args + fn.args.kwonlyargs}
        def inputs_of(e):
            out = set(); seen = set(); todo = [e]
            while todo:
                x = todo.pop()
                for nm in names_in(x):
                    if nm in seen: continue
                    seen.add(nm)
                    if nm in mod_dicts: continue
                    if nm in fn_params: out.add(nm)
                    if nm in defs:
                        for (v, tests) in defs[nm]:
                            todo.append(v); todo.extend(t for t in tests)
                    elif nm not in ignore:
                        out.add(nm)
            return out
        reads = any((isinstance(n, ast.Subscript) and isinstance(n.value, ast.Name) and n.value.id in mod_dicts and isinstance(n.ctx, ast.Load))
                    or (isinstance(n, ast.Compare) and any(isinstance(c, ast.Name) and c.id in mod_dicts for c in n.comparators))
                    for n in own)
        returns = any(isinstance(n, ast.Return) and n.value is not None for n in own)
        seen_c = set()
        def partial_only(e):
            """input names that occur in the (resolved) key only through a projection (x[i], len(x), x.attr, x.shape…):
            such a key records part of x, not x"""
            whole = set(); part = set(); seen = set(); todo = [e]
            while todo:
                x = todo.pop()
                parents = {}
                for n in ast.walk(x):
                    for ch in ast.iter_child_nodes(n): parents[id(ch)] = n
                for n in ast.walk(x):
                    if isinstance(n, ast.Name):
                        par = parents.get(id(n))
                        proj = (isinstance(par, ast.Subscript) and par.value is n) or isinstance(par, ast.Attribute) or \
                               (isinstance(par, ast.Call) and T.callee_name(par.func) in ('len', 'numpy.shape', 'np.shape', 'numpy.size', 'id') and n in par.args)
                        if n.id in defs and n.id not in fn_params:
                            if n.id not in seen:
                                seen.add(n.id)
                                for (v, tests) in defs[n.id]: todo.append(v)
                        else:
                            (part if proj else whole).add(n.id)
            return part - whole
        for cname, keyexpr, valexpr in stores:
            if cname in seen_c: continue
            seen_c.add(cname)
            keyp = inputs_of(keyexpr) - partial_only(keyexpr)
            # the tests guarding the store are lookups of the key itself: they add no inputs beyond the key
            used = inputs_of(valexpr)
            caches.append(dict(module=rel, cache=cname, fn=fn.name, key=sorted(keyp), used=sorted(used),
                               sufficient=used <= keyp, memo=bool(reads and returns), keysrc=re.sub(r'\s+', ' ', ast.unparse(keyexpr))))
    return caches

def audited(rel, tree):
    """(qualified name, FunctionDef) of the functions whose effect summary is tabled"""
    out = []
    if rel == 'Integration.py':
        want = {'one_pop', 'two_pops', 'three_pops', 'four_pops', 'five_pops', '_one_pop_const_params', '_two_pops_const_params', '_three_pops_const_params'}
        out += [(n.name, n) for n in tree.body if isinstance(n, ast.FunctionDef) and n.name in want]
    elif rel == 'Spectrum_mod.py':
        for c in tree.body:
            if isinstance(c, ast.ClassDef) and c.name == 'Spectrum':
                for n in c.body:
                    if isinstance(n, ast.FunctionDef) and (not n.name.startswith('_') or n.name in ('_from_phi_1D_analytic', '_from_phi_1D_direct')):
                        out.append(('Spectrum.' + n.name, n))
    elif rel == 'Inference.py':
        want = {'ll', 'll_per_bin', 'll_multinom', 'll_multinom_per_bin', 'optimal_sfs_scaling', 'optimally_scaled_sfs', 'linear_Poisson_residual',
                'Anscombe_Poisson_residual', '_project_params_down', '_project_params_up', '_object_func', '_object_func_log'}
        out += [(n.name, n) for n in tree.body if isinstance(n, ast.FunctionDef) and n.name in want]
    elif rel == 'Misc.py':
        want = {'perturb_params', 'ensure_1arg_func', 'delayed_flush'}
        out += [(n.name, n) for n in tree.body if isinstance(n, ast.FunctionDef) and n.name in want]
    elif rel == 'Godambe.py':
        # every function of the module (uncertainty calls and their finite-difference helpers); their inner functions are added by generate()
        out += [(n.name, n) for n in tree.body if isinstance(n, ast.FunctionDef)]
    elif rel == 'Numerics.py':
        want = {'reverse_array', 'trapz', 'apply_anc_state_misid', 'make_extrap_func', 'multinomln', 'cached_part', 'cached_part_precalc', '_cached_projection'}
        out += [(n.name, n) for n in tree.body if isinstance(n, ast.FunctionDef) and n.name in want]
    elif rel == 'PhiManip.py':
        out += [(n.name, n) for n in tree.body if isinstance(n, ast.FunctionDef) and (n.name.startswith('phi_') or n.name in ('remove_pop', 'filter_pops', 'reorder_pops'))]
    return out

# ---------------------------------------------------------------- iteration order of sets (hash-seed dependence)
# A value whose order of iteration depends on PYTHONHASHSEED must not leak into results: every place where a set-typed
# expression is iterated, listed, enumerated, zipped or popped without passing through sorted()/len/min/max/any/all/set is tabled.
ORDER_FREE = {'sorted', 'len', 'min', 'max', 'any', 'all', 'set', 'frozenset'}
def is_set_expr(e, setnames):
    if isinstance(e, (ast.Set, ast.SetComp)): return True
    if isinstance(e, ast.Call) and isinstance(e.func, ast.Name) and e.func.id in ('set', 'frozenset'): return True
    if isinstance(e, ast.Name) and e.id in setnames: return True
    if isinstance(e, ast.BinOp) and isinstance(e.op, (ast.BitOr, ast.BitAnd, ast.Sub, ast.BitXor)):
        return is_set_expr(e.left, setnames) or is_set_expr(e.right, setnames)
    if isinstance(e, ast.Call) and isinstance(e.func, ast.Attribute) and e.func.attr in ('union', 'intersection', 'difference', 'symmetric_difference') and is_set_expr(e.func.value, setnames): return True
    return False
def set_order_sites(fn):
    setnames = set()
    for n in ast.walk(fn):
        if isinstance(n, ast.Assign) and is_set_expr(n.value, setnames):
            for t in n.targets:
                if isinstance(t, ast.Name): setnames.add(t.id)
    out = []
    parents = {}
    for n in ast.walk(fn):
        for c in ast.iter_child_nodes(n): parents[c] = n
    def wrapped_order_free(node):
        p = parents.get(node)
        return isinstance(p, ast.Call) and isinstance(p.func, ast.Name) and p.func.id in ORDER_FREE and node in p.args
    for n in ast.walk(fn):
        if isinstance(n, ast.For) and is_set_expr(n.iter, setnames):
            out.append('line %d: for … in %s' % (n.lineno, ast.unparse(n.iter)))
        elif isinstance(n, (ast.ListComp, ast.GeneratorExp, ast.DictComp)):
            for g in n.generators:
                if is_set_expr(g.iter, setnames) and not wrapped_order_free(n):
                    out.append('line %d: comprehension over %s' % (n.lineno, ast.unparse(g.iter)))
        elif isinstance(n, ast.Call) and isinstance(n.func, ast.Name) and n.func.id in ('list', 'tuple', 'enumerate', 'zip', 'iter', 'next') and any(is_set_expr(a, setnames) for a in n.args) and not wrapped_order_free(n):
            out.append('line %d: %s' % (n.lineno, ast.unparse(n)[:60]))
        elif isinstance(n, ast.Call) and isinstance(n.func, ast.Attribute) and n.func.attr == 'pop' and not n.args and is_set_expr(n.func.value, setnames):
            out.append('line %d: %s' % (n.lineno, ast.unparse(n)[:60]))
    return out

def all_set_order_sites():
    out = []
    root = os.path.join(T.REPO, 'dadi')
    for dp, dn, fns in sorted(os.walk(root)):
        for f in sorted(fns):
            if not f.endswith('.py'): continue
            path = os.path.join(dp, f); rel = os.path.relpath(path, root)
            tree = ast.parse(open(path).read())
            for n in ast.walk(tree):
                if isinstance(n, (ast.FunctionDef, ast.AsyncFunctionDef)):
                    for ev in set_order_sites(n):
                        out.append((rel, n.name, ev))
    return out

def lstr(xs):
    return '[' + ', '.join(json.dumps(x) for x in xs) + ']'

def generate():
    out = [T.HEADER, 'namespace Gen\nnamespace Effects']
    out.append('structure CacheInfo where\n  module : String\n  cache : String\n  fn : String\n  keyParams : List String\n  usedParams : List String\n  sufficient : Bool\n  memo : Bool\nderiving DecidableEq, Repr')
    out.append('structure EffectInfo where\n  module : String\n  fn : String\n  mutatesArg : Bool\n  returnsAlias : Bool\n  evidence : List String\nderiving DecidableEq, Repr')
    caches = []; effects = []
    trees = []
    for rel in MODULES:
        path = os.path.join(T.REPO, 'dadi', rel)
        if not os.path.exists(path):
            raise T.TranslateError('module %s not found' % rel)
        src = open(path).read()
        trees.append((rel, path, src, ast.parse(src)))
    summ = module_summaries([(rel, tree) for rel, _, _, tree in trees])
    for rel, path, src, tree in trees:
        caches += cache_tables(path, rel, tree, src)
        for qn, fn in audited(rel, tree):
            nested = []
            params, muts, ra, _ = analyse(fn, summ, qual=qn, nested_out=nested)
            effects.append(dict(module=rel, fn=qn, mut=bool(muts), ret=bool(ra), ev=(muts + ra)[:4]))
            # inner functions (closures handed to the finite-difference / optimiser machinery): one row each
            for (q, npar, nm, nr) in nested:
                effects.append(dict(module=rel, fn=q, mut=bool(nm), ret=bool(nr), ev=(nm + nr)[:4]))
    out.append('def caches : List CacheInfo := [\n' + ',\n'.join(
        '  { module := %s, cache := %s, fn := %s, keyParams := %s, usedParams := %s, sufficient := %s, memo := %s }' % (
            json.dumps(c['module']), json.dumps(c['cache']), json.dumps(c['fn']), lstr(c['key']), lstr(c['used']), 'true' if c['sufficient'] else 'false',
            'true' if c['memo'] else 'false')
        for c in caches) + '\n]')
    out.append('def effects : List EffectInfo := [\n' + ',\n'.join(
        '  { module := %s, fn := %s, mutatesArg := %s, returnsAlias := %s, evidence := %s }' % (
            json.dumps(e['module']), json.dumps(e['fn']), 'true' if e['mut'] else 'false', 'true' if e['ret'] else 'false', lstr(e['ev']))
        for e in effects) + '\n]')
    so = all_set_order_sites()
    out.append('/-- places (module, function, what) where the iteration order of a set can reach a result -/')
    out.append('def setOrderSites : List (String × String × String) := [' + ', '.join('(%s, %s, %s)' % (json.dumps(a), json.dumps(b), json.dumps(c)) for a, b, c in so) + ']')
    out.append('end Effects\nend Gen\nend DadiVerif\n')
    return '\n'.join(out)
