"""Generated/Effects.lean — two tables computed from the current source by conservative syntactic analysis:

 * `caches`: every module-level dict used as a memo table (pattern `NAME = {}` at module level and a function that
   stores `NAME[key] = value`): the parameters the function reads vs the parameters its key mentions
   (key sufficiency: the cached value can depend only on what the key records).
 * `effects`: for every function in the audited set, whether some statement can modify an argument in place
   (subscript/attribute store or augmented assignment through a name that still aliases a parameter, call of a
   known in-place kernel on such a name, mutating method call) and whether an alias of an argument is returned.
   The alias map is a forward data-flow state: `x = x.copy()` / any fresh expression rebinds the name ON THE PATH it is
   executed on; at the end of an `if`/`try`/loop the states of the paths are joined (union), so a copy made in one branch
   only does not protect a mutation after the branch; loops are iterated to a fixpoint.
The analysis over-approximates (it never misses a syntactic mutation of the listed kinds; it may flag harmless code).
"""
import ast, os, re, json
import translate as T

NAME = 'Effects'

MODULES = ['Numerics.py', 'Spectrum_mod.py', 'LowPass/LowPass.py', 'Integration.py', 'PhiManip.py', 'Inference.py',
           'Misc.py', 'Godambe.py', 'Demes/Demes.py', 'Demes/DemesUtil.py', 'Demes/__init__.py']
# functions that return a wrapper forwarding its positional / keyword arguments to the function they are given
WRAPPERS = {'make_extrap_func', 'make_extrap_log_func', 'make_anc_state_misid_func'}
# functions outside Demes/ whose control-flow skeleton is emitted too
FLOW_ALSO = {'Spectrum.from_demes'}
ALIASING_METHODS = {'ravel', 'reshape', 'transpose', 'view', 'swapaxes', 'squeeze', 'filled', 'diagonal', 'astype_nocopy', '__array__'}   # may return views
# functions of numpy that return their (first) argument itself, or a view of it, for at least some argument types
_ALIASING_NUMPY = {'asarray', 'asanyarray', 'ascontiguousarray', 'asfortranarray', 'asfarray', 'asarray_chkfinite', 'atleast_1d', 'atleast_2d',
                   'atleast_3d', 'ravel', 'reshape', 'transpose', 'squeeze', 'swapaxes', 'moveaxis', 'rollaxis', 'expand_dims', 'broadcast_to',
                   'flip', 'flipud', 'fliplr', 'diagonal', 'real', 'imag', 'require',
                   'ma.asarray', 'ma.asanyarray', 'ma.getdata', 'ma.getmask', 'ma.getmaskarray', 'ma.filled', 'ma.ravel', 'ma.reshape',
                   'ma.transpose', 'ma.squeeze', 'ma.swapaxes'}
# constructors that copy unless told otherwise (`copy=` keyword): `numpy.array(x, copy=False/None)` aliases; the masked-array
# constructors alias by DEFAULT (copy=False) and copy only with copy=True; `Spectrum(x, data_copy=False)` aliases
_COPY_BY_DEFAULT = {'array'}
_ALIAS_BY_DEFAULT = {'ma.masked_array', 'ma.array', 'ma.MaskedArray', 'ma.masked_invalid_nocopy'}
MUTATING_METHODS = {'sort', 'append', 'extend', 'insert', 'pop', 'remove', 'fill', 'put', 'itemset', 'resize', 'clear', 'update',
                    'reverse', 'setdefault', 'mask_corners', 'unmask_all', 'setflags', '__setitem__', '__iadd__', '__isub__', '__imul__',
                    'partition', 'byteswap_inplace', 'harden_mask', 'soften_mask', 'popitem', 'discard', 'add'}
INPLACE_KERNEL = re.compile(r'^(int_c\.implicit_\w+|_inject_mutations_\w+|tridiag\.tridiag_inplace)$')
# numpy functions that write into an argument: (name, index of the written argument or keyword)
_WRITING_NUMPY = {'copyto': 0, 'put': 0, 'place': 0, 'putmask': 0, 'fill_diagonal': 0, 'put_along_axis': 0, 'random.shuffle': 0}

# `Spectrum.S` masks the corners and restores the saved mask before returning (tabled as an exemption in Props/C20.lean and
# watched byte-for-byte at run time): callers of S are not charged with that temporary change
NON_PROPAGATING = {'self.S'}

def names_in(node):
    return {n.id for n in ast.walk(node) if isinstance(n, ast.Name)}

def base_name(node):
    """x, x[...], x.attr, x.attr[...] -> 'x' ; None otherwise"""
    while isinstance(node, (ast.Subscript, ast.Attribute)):
        node = node.value
    return node.id if isinstance(node, ast.Name) else None

def numpy_name(fn):
    """'numpy.ma.asarray' / 'np.ma.asarray' -> 'ma.asarray'; None if not a numpy function"""
    if not fn: return None
    for pre in ('numpy.', 'np.'):
        if fn.startswith(pre): return fn[len(pre):]
    return None

def _kw(call, name):
    for k in call.keywords:
        if k.arg == name: return k.value
    return None

def bind_args(call, cpos, off=0):
    """(parameter name of the callee, argument expression) pairs of a call, given the callee's positional parameter names"""
    out = []
    for i, a in enumerate(call.args):
        if isinstance(a, ast.Starred): break
        j = i + off
        if j < len(cpos): out.append((cpos[j], a))
    for k in call.keywords:
        if k.arg is not None: out.append((k.arg, k.value))
    return out

def callee_offset(fnm, cpos):
    return 1 if (fnm.startswith('self.') and cpos and cpos[0] == 'self') else 0

def alias_roots(e, A, summ=None, F=None):
    """set of parameters (roots) that the value of expression `e` may alias; A : name -> set of roots.
    summ : {call-site name: (positional parameters, modified parameters, parameters the return value may alias)};
    F    : {local name: call-site names of the library functions it may stand for}"""
    if isinstance(e, ast.Name):
        return set(A.get(e.id, ()))
    if isinstance(e, (ast.Subscript, ast.Attribute)):
        b = base_name(e)
        return set(A.get(b, ())) if b else set()
    if isinstance(e, ast.Starred):
        return alias_roots(e.value, A, summ, F)
    if isinstance(e, ast.Call):
        fn = T.callee_name(e.func)
        if isinstance(e.func, ast.Attribute) and e.func.attr in ALIASING_METHODS and base_name(e.func.value) in A:
            return set(A[base_name(e.func.value)])
        nn = numpy_name(fn)
        first = e.args[0] if e.args else None
        if nn in _ALIASING_NUMPY and first is not None:
            return alias_roots(first, A, summ, F)
        if nn in _COPY_BY_DEFAULT and first is not None:
            c = _kw(e, 'copy')
            if c is not None and not (isinstance(c, ast.Constant) and c.value is True):
                return alias_roots(first, A, summ, F)
            return set()
        if nn in _ALIAS_BY_DEFAULT and first is not None:
            c = _kw(e, 'copy')
            if c is not None and isinstance(c, ast.Constant) and c.value is True:
                return set()
            return alias_roots(first, A, summ, F)
        if fn in ('Spectrum', 'Spectrum_mod.Spectrum', 'dadi.Spectrum') and first is not None:
            c = _kw(e, 'data_copy')
            if c is not None and not (isinstance(c, ast.Constant) and c.value is True):
                return alias_roots(first, A, summ, F)
            return set()
        if fn and INPLACE_KERNEL.match(fn) and first is not None:
            return alias_roots(first, A, summ, F)          # the kernels return their first argument
        # a function of the audited modules whose summary says its return value may alias some of its parameters
        out = set()
        if fn and summ is not None:
            for cal in ([fn] if fn in summ else sorted((F or {}).get(fn, ()))):
                if cal not in summ or cal in NON_PROPAGATING: continue
                cpos, _, cret = summ[cal]
                if not cret: continue
                off = callee_offset(cal, cpos)
                if off and 'self' in cret: out |= set(A.get('self', ()))
                for pn, a in bind_args(e, cpos, off):
                    if pn in cret: out |= alias_roots(a, A, summ, F)
        return out
    if isinstance(e, ast.IfExp):
        return alias_roots(e.body, A, summ, F) | alias_roots(e.orelse, A, summ, F)
    if isinstance(e, ast.BoolOp):
        out = set()
        for v in e.values: out |= alias_roots(v, A, summ, F)
        return out
    if isinstance(e, ast.Tuple):
        # (a tuple cannot itself be modified; it is tracked so that `return phi, xx` counts as returning an alias.  A list / dict
        #  literal is a fresh container: appending to it modifies no argument)
        out = set()
        for x in e.elts: out |= alias_roots(x, A, summ, F)
        return out
    if isinstance(e, ast.NamedExpr):
        return alias_roots(e.value, A, summ, F)
    return set()

def is_alias_expr(e, A):
    return bool(alias_roots(e, A if isinstance(A, dict) else {a: {a} for a in A}))

def param_names(fn):
    a = fn.args
    ps = [x.arg for x in getattr(a, 'posonlyargs', []) + a.args]
    allp = ps + [x.arg for x in a.kwonlyargs]
    if a.vararg: allp.append(a.vararg.arg)
    if a.kwarg: allp.append(a.kwarg.arg)
    return ps, allp

def join_states(states):
    """join of alias maps at a control-flow merge: a name aliases a root if it does on SOME incoming path (None = no path)"""
    live = [x for x in states if x is not None]
    if not live: return None
    out = {}
    for st in live:
        for k, v in st.items():
            if v: out[k] = set(out.get(k, ())) | set(v)
    return out

def analyse(fn, summaries=None, outer=None, qual=None, nested_out=None, want_ret=False, want_flow=False):
    """effect summary of one function.
    summaries : {callee name as written at the call site: (positional parameter names, set of parameters it may modify, set of
                parameters its return value may alias)} (interprocedural step: passing an alias of an argument to a parameter the
                callee modifies is a modification; the value of a call aliases what the callee's summary says it returns);
    outer     : alias map of the enclosing function (closure variables of a nested function alias what they alias outside);
    nested_out: list receiving (qualified name, params, events, returned aliases) of nested functions.
    The alias map is propagated forward along the control flow: an assignment rebinds the name on the path it lies on; the
    states of the branches of an `if` / `try` are joined after it; loop bodies are iterated until the state at the loop head is
    stable (with the states at `continue`), the states at `break` join the loop exit; `return` / `raise` end a path.
    Returns (params, mutation events, returned aliases, set of roots — own parameters or, for a nested function, parameters
    of an enclosing function reached through a closure variable — that may be modified[, roots the return value may alias])."""
    pos, params = param_names(fn)
    A0 = {k: set(v) for k, v in (outer or {}).items() if v}
    for p_ in params: A0[p_] = {p_}
    # `**kwargs` is a dictionary created by the call: deleting / storing its entries modifies nothing of the caller's
    fresh_dict = fn.args.kwarg.arg if fn.args.kwarg else None
    # parameters whose default is a number / bool / string are scalars: `t += dt` on a plain name bound to one rebinds the name
    scalars = set()
    a_ = fn.args
    for nm, d in list(zip([x.arg for x in (getattr(a_, 'posonlyargs', []) + a_.args)][::-1], a_.defaults[::-1])) + [(x.arg, d) for x, d in zip(a_.kwonlyargs, a_.kw_defaults) if d is not None]:
        if isinstance(d, ast.Constant) and isinstance(d.value, (int, float, bool, str)) and d.value is not None:
            scalars.add(nm)
        if isinstance(d, ast.UnaryOp) and isinstance(d.operand, ast.Constant) and isinstance(d.operand.value, (int, float)):
            scalars.add(nm)
    muts = []; ret_alias = []; mutated = set(); ret_roots = set()
    summ = dict(summaries or {})
    F = {}                 # local names bound to library functions (function tables `[f, g][i]`, wrappers `make_extrap_func(f)`)
    loops = []             # enclosing loops: states at `break` / `continue`
    def R(e, A): return alias_roots(e, A, summ, F)
    def record(lineno, text, roots):
        t = '%d: %s' % (lineno, text)
        if t not in muts: muts.append(t)
        mutated.update(roots)
    sink = [record]            # where mutation events go (the skeleton builder redirects them)
    def event(lineno, text, roots):
        sink[0](lineno, text, roots)
    def fun_refs(e):
        """call-site names of the library functions the value of `e` may be, or may forward its arguments to"""
        if isinstance(e, (ast.Name, ast.Attribute)):
            nm = T.callee_name(e)
            if nm in F: return set(F[nm])
            return {nm} if nm in summ else set()
        if isinstance(e, ast.Subscript) and isinstance(e.value, (ast.List, ast.Tuple)):
            out = set()
            for x in e.value.elts: out |= fun_refs(x)
            return out
        if isinstance(e, ast.IfExp): return fun_refs(e.body) | fun_refs(e.orelse)
        if isinstance(e, ast.Call):
            nm = T.callee_name(e.func) or ''
            if nm.split('.')[-1] in WRAPPERS and e.args: return fun_refs(e.args[0])
        return set()
    def scan_calls(s, A):
        stack = [s]
        while stack:
            node = stack.pop()
            for ch in ast.iter_child_nodes(node):
                if isinstance(ch, (ast.FunctionDef, ast.AsyncFunctionDef, ast.ClassDef)): continue
                stack.append(ch)
            if not isinstance(node, ast.Call): continue
            fnm = T.callee_name(node.func)
            if fnm and INPLACE_KERNEL.match(fnm) and node.args and R(node.args[0], A):
                event(node.lineno, '%s(%s, ...)' % (fnm, ast.unparse(node.args[0])), R(node.args[0], A))
            if isinstance(node.func, ast.Attribute) and node.func.attr in MUTATING_METHODS and A.get(base_name(node.func.value)) \
               and not (isinstance(node.func.value, ast.Name) and node.func.value.id == fresh_dict):
                event(node.lineno, ast.unparse(node.func), A[base_name(node.func.value)])
            nn = numpy_name(fnm)
            if nn in _WRITING_NUMPY and len(node.args) > _WRITING_NUMPY[nn] and R(node.args[_WRITING_NUMPY[nn]], A):
                event(node.lineno, '%s(%s, ...)' % (fnm, ast.unparse(node.args[_WRITING_NUMPY[nn]])), R(node.args[_WRITING_NUMPY[nn]], A))
            o = _kw(node, 'out')
            if o is not None and R(o, A):
                event(node.lineno, '%s(..., out=%s)' % (fnm, ast.unparse(o)), R(o, A))
            if fnm is None: continue
            for cal in ([fnm] if fnm in summ else sorted(F.get(fnm, ()))):
                if cal not in summ or cal in NON_PROPAGATING: continue
                cpos, cmut = summ[cal][0], summ[cal][1]
                via = '' if cal == fnm else ' (= %s)' % cal
                off = callee_offset(cal, cpos)
                if off and 'self' in cmut and A.get('self'):
                    event(node.lineno, '%s() modifies self' % fnm, A['self'])
                for pn, a in bind_args(node, cpos, off):
                    if pn in cmut and R(a, A):
                        event(node.lineno, '%s%s(… %s …) modifies its parameter %s' % (fnm, via, ast.unparse(a)[:30], pn), R(a, A))
    def is_fresh_entry(t):
        # kwargs[k] (one level): an entry of the call's own keyword dictionary
        return isinstance(t, ast.Subscript) and isinstance(t.value, ast.Name) and t.value.id == fresh_dict
    def own_exprs(s):
        # only the statement's own expressions: bodies of compound statements are visited separately
        if isinstance(s, (ast.For, ast.AsyncFor)): return [s.iter]
        if isinstance(s, (ast.If, ast.While)): return [s.test]
        if isinstance(s, (ast.With, ast.AsyncWith)): return [i.context_expr for i in s.items]
        if isinstance(s, ast.Try): return []
        return [s]
    def assign(tt, val, A, whole, src):
        """bind target `tt` to the value of `val` as evaluated in the state `src` (the state before the statement: the targets of a
        tuple assignment are bound simultaneously); `whole`: tt receives all of val, otherwise an element of it"""
        if isinstance(tt, (ast.Tuple, ast.List)):
            if isinstance(val, (ast.Tuple, ast.List)) and len(val.elts) == len(tt.elts) and not any(isinstance(x, ast.Starred) for x in list(val.elts) + list(tt.elts)):
                for x, v in zip(tt.elts, val.elts): assign(x, v, A, True, src)
            else:
                for x in tt.elts: assign(x, val, A, False, src)
            return
        if isinstance(tt, ast.Starred):
            return assign(tt.value, val, A, False, src)
        if isinstance(tt, (ast.Subscript, ast.Attribute)):
            b = base_name(tt)
            if src.get(b) and not is_fresh_entry(tt):
                event(tt.lineno, '%s =' % ast.unparse(tt), src[b])
            elif b is None and isinstance(_innermost(tt), ast.Call) and any(isinstance(n_, ast.Subscript) for n_ in _chain_of(tt)) and R(_innermost(tt), src):
                # a store into the value of a call that may be (a view of) an argument:  x.ravel()[0] = v,  numpy.asarray(x)[i] = v
                event(tt.lineno, '%s =' % ast.unparse(tt)[:50], R(_innermost(tt), src))
        elif isinstance(tt, ast.Name):
            r = R(val, src) if val is not None else set()
            if whole:
                fr = fun_refs(val) if val is not None else set()
                if fr: F[tt.id] = set(F.get(tt.id, ())) | fr
            if r: A[tt.id] = set(r)
            else: A.pop(tt.id, None)
    def transfer(s, A):
        """events and rebinding of a simple statement (augmented assignment, assignment, del)"""
        if isinstance(s, ast.AugAssign):
            b = base_name(s.target)
            roots = set(A.get(b) or ())
            if b is None and isinstance(_innermost(s.target), ast.Call) and any(isinstance(n_, ast.Subscript) for n_ in _chain_of(s.target)):
                roots = set(R(_innermost(s.target), A))
            if isinstance(s.target, ast.Name): roots -= scalars
            if roots and not is_fresh_entry(s.target):
                event(s.lineno, '%s %s=' % (ast.unparse(s.target), type(s.op).__name__), roots)
        elif isinstance(s, (ast.Assign, ast.AnnAssign)):
            targets = s.targets if isinstance(s, ast.Assign) else [s.target]
            # all targets are bound to the value as seen BEFORE the statement
            before = dict(A)
            for t in targets:
                if isinstance(t, ast.Name):
                    r = R(s.value, before) if s.value is not None else set()
                    fr = fun_refs(s.value) if s.value is not None else set()
                    if fr: F[t.id] = set(F.get(t.id, ())) | fr
                    if r: A[t.id] = set(r)
                    else: A.pop(t.id, None)
                else:
                    tmp = dict(before); assign(t, s.value, tmp, True, before)
                    for k in set(tmp) | set(before):
                        if tmp.get(k) != before.get(k):
                            if tmp.get(k): A[k] = tmp[k]
                            else: A.pop(k, None)
        elif isinstance(s, ast.Delete):
            for tt in s.targets:
                if isinstance(tt, ast.Subscript) and A.get(base_name(tt)) and not is_fresh_entry(tt):
                    event(s.lineno, 'del %s' % ast.unparse(tt), A[base_name(tt)])
                elif isinstance(tt, ast.Name):
                    A.pop(tt.id, None)
    def visit(stmts, A):
        """state after the statements (None: no path falls through)"""
        for s in stmts:
            if A is None: return None
            if isinstance(s, (ast.FunctionDef, ast.AsyncFunctionDef)):
                q = '%s.%s' % (qual or fn.name, s.name)
                npar, nm, nr, nmut, nret = analyse(s, summ, outer=A, qual=q, nested_out=nested_out, want_ret=True)
                if nested_out is not None and not any(x[0] == q for x in nested_out): nested_out.append((q, npar, nm, nr))
                own = set(param_names(s)[1])
                for r in sorted(nmut - own):
                    # a nested function that writes through a closure variable modifies the enclosing function's argument
                    event(s.lineno, 'nested %s writes through the closure variable aliasing %s' % (s.name, r), {r})
                summ[s.name] = (param_names(s)[0], nmut & own, nret & own)
                A.pop(s.name, None)
                continue
            if isinstance(s, ast.ClassDef):
                continue
            # mutation events first (evaluated with the alias set before this statement's own rebinding)
            for e in own_exprs(s): scan_calls(e, A)
            if isinstance(s, (ast.AugAssign, ast.Assign, ast.AnnAssign, ast.Delete)):
                transfer(s, A)
            elif isinstance(s, ast.Return):
                if s.value is not None and R(s.value, A):
                    t = '%d: return %s' % (s.lineno, ast.unparse(s.value)[:40])
                    if t not in ret_alias: ret_alias.append(t)
                    ret_roots.update(R(s.value, A))
                return None
            elif isinstance(s, ast.Raise):
                return None
            elif isinstance(s, ast.Break):
                if loops: loops[-1]['breaks'].append(dict(A))
                return None
            elif isinstance(s, ast.Continue):
                if loops: loops[-1]['continues'].append(dict(A))
                return None
            elif isinstance(s, (ast.For, ast.AsyncFor, ast.While)):
                # loop variable bound to elements: not an alias of the container for our purposes (scalars)
                head = dict(A); ctx = dict(breaks=[], continues=[])
                for _ in range(8):
                    ctx['continues'] = []
                    loops.append(ctx)
                    out = visit(s.body, dict(head))
                    loops.pop()
                    new = join_states([head, out] + ctx['continues'])
                    if new == head: break
                    head = new
                normal = visit(s.orelse, dict(head)) if s.orelse else head
                A = join_states([normal] + ctx['breaks'])
            elif isinstance(s, ast.If):
                A = join_states([visit(s.body, dict(A)), visit(s.orelse, dict(A))])
            elif isinstance(s, (ast.With, ast.AsyncWith)):
                A = visit(s.body, dict(A))
            elif isinstance(s, ast.Try) or type(s).__name__ == 'TryStar':
                # an exception may leave the body after any of its statements
                seen = [dict(A)]; cur = dict(A)
                for st in s.body:
                    cur = visit([st], cur)
                    if cur is None: break
                    seen.append(dict(cur))
                if cur is not None and s.orelse: cur = visit(s.orelse, cur)
                hentry = join_states(seen)
                exits = [cur] + [visit(h.body, dict(hentry)) for h in s.handlers]
                A = join_states(exits)
                if s.finalbody:
                    fin = visit(s.finalbody, join_states([A, hentry]))
                    A = None if A is None else fin
        return A
    # ---------------------------------------------------------------- control-flow skeleton (Lean side: Driver/Memo.lean `arun`)
    def build_flow():
        """skeleton of the function over NAMES (identity alias map: every name stands for the object it holds): which names a simple
        statement rebinds to a fresh value / to a value that may be the object other names hold, through which names it writes.
        Loops containing `break` / `continue` and `try` bodies are flattened into sequences of optional statements (every path of the
        real control flow is a path of the skeleton).  Names that cannot reach a write are pruned.  Returns (nested tuples, number
        of names); names 0 … k-1 are the parameters."""
        allnames = set(params) | {n.id for n in ast.walk(fn) if isinstance(n, ast.Name)}
        ID = {n: {n} for n in allnames}
        ntemp = [0]
        def seqs(xs):
            xs = [x for x in xs if x != ('skip',)]
            if not xs: return ('skip',)
            out = xs[-1]
            for x in xs[-2::-1]:
                out = ('stop',) if x == ('stop',) else ('seq', x, out)
            return out
        def opt(x): return ('skip',) if x == ('skip',) else ('ite', x, ('skip',))
        def events_of(exprs, A):
            got = set()
            sink[0] = lambda ln, text, roots: got.update(roots)
            try:
                for e in exprs: scan_calls(e, A)
            finally:
                sink[0] = record
            return [('mutate', n) for n in sorted(got)]
        def simple(s):
            A = {k: set(v) for k, v in ID.items()}
            got = set()
            out = events_of(own_exprs(s), A)
            if isinstance(s, (ast.AugAssign, ast.Assign, ast.AnnAssign, ast.Delete)):
                sink[0] = lambda ln, text, roots: got.update(roots)
                try:
                    transfer(s, A)
                finally:
                    sink[0] = record
                out += [('mutate', n) for n in sorted(got)]
                changed = sorted(k for k in set(A) | set(ID) if A.get(k, set()) != ID.get(k, set()))
                if len(changed) == 1:
                    x = changed[0]
                    out.append(('alias', x, sorted(A[x])) if A.get(x) else ('fresh', x))
                elif changed:
                    # simultaneous rebinding (tuple targets): through temporaries
                    tmps = {}
                    for x in changed:
                        if A.get(x):
                            ntemp[0] += 1; tmps[x] = '%%tmp%d' % ntemp[0]
                            out.append(('alias', tmps[x], sorted(A[x])))
                    for x in changed:
                        out.append(('alias', x, [tmps[x]]) if x in tmps else ('fresh', x))
            elif isinstance(s, (ast.Return, ast.Raise)):
                out.append(('stop',))
            return seqs(out)
        def has_jump(stmts):
            for st in stmts:
                for n in ast.walk(st):
                    if isinstance(n, (ast.Break, ast.Continue)): return True
            return False
        def flat(stmts):
            """every simple statement optional, in program order; inner loops stay loops (of optional statements)"""
            out = []
            for st in stmts:
                if isinstance(st, (ast.FunctionDef, ast.AsyncFunctionDef, ast.ClassDef, ast.Break, ast.Continue, ast.Pass)): continue
                if isinstance(st, (ast.For, ast.AsyncFor, ast.While)):
                    out.append(opt(seqs(events_of(own_exprs(st), ID))))
                    out.append(('loop', seqs([opt(seqs(events_of(own_exprs(st), ID)))] + flat(st.body))))
                    out += flat(st.orelse)
                elif isinstance(st, ast.If):
                    out.append(opt(seqs(events_of(own_exprs(st), ID)))); out += flat(st.body) + flat(st.orelse)
                elif isinstance(st, (ast.With, ast.AsyncWith)):
                    out.append(opt(seqs(events_of(own_exprs(st), ID)))); out += flat(st.body)
                elif isinstance(st, ast.Try) or type(st).__name__ == 'TryStar':
                    out += flat(st.body) + flat(st.orelse)
                    for h in st.handlers: out += flat(h.body)
                    out += flat(st.finalbody)
                else:
                    out.append(opt(simple(st)))
            return out
        def skel(stmts):
            out = []
            for st in stmts:
                if isinstance(st, (ast.FunctionDef, ast.AsyncFunctionDef, ast.ClassDef, ast.Pass)): continue
                if isinstance(st, (ast.Break, ast.Continue)):
                    raise T.TranslateError('%s: break/continue outside a flattened loop' % fn.name)
                if isinstance(st, (ast.For, ast.AsyncFor, ast.While)):
                    head = seqs(events_of(own_exprs(st), ID))
                    if has_jump(st.body) or has_jump(st.orelse):
                        out.append(head); out.append(('loop', seqs([opt(head)] + flat(st.body)))); out += flat(st.orelse)
                    else:
                        out.append(head)
                        out.append(('loop', seqs([skel(st.body)] + ([head] if isinstance(st, ast.While) else []))))
                        if st.orelse: out.append(skel(st.orelse))
                elif isinstance(st, ast.If):
                    out.append(seqs(events_of(own_exprs(st), ID)))
                    out.append(('ite', skel(st.body), skel(st.orelse)))
                elif isinstance(st, (ast.With, ast.AsyncWith)):
                    out.append(seqs(events_of(own_exprs(st), ID))); out.append(skel(st.body))
                elif isinstance(st, ast.Try) or type(st).__name__ == 'TryStar':
                    normal = seqs([skel(st.body), skel(st.orelse)])
                    exceptional = seqs(flat(st.body) + [seqs([('ite', skel(h.body), ('skip',)) for h in st.handlers])])
                    out.append(('ite', normal, exceptional))
                    if st.finalbody: out.append(skel(st.finalbody))
                else:
                    out.append(simple(st))
            return seqs(out)
        tree_ = skel(fn.body)
        # prune: names that cannot reach a write
        def walk(t):
            yield t
            if t[0] in ('seq', 'ite'):
                yield from walk(t[1]); yield from walk(t[2])
            elif t[0] == 'loop':
                yield from walk(t[1])
        nodes = list(walk(tree_))
        relevant = {t[1] for t in nodes if t[0] == 'mutate'}
        while True:
            more = set()
            for t in nodes:
                if t[0] == 'alias' and t[1] in relevant: more |= set(t[2])
            if more <= relevant: break
            relevant |= more
        def simp(t):
            k = t[0]
            if k in ('fresh', 'alias'):
                if t[1] not in relevant: return ('skip',)
                return t
            if k == 'seq':
                a_, b_ = simp(t[1]), simp(t[2])
                if a_ == ('skip',): return b_
                if b_ == ('skip',): return a_
                if a_ == ('stop',): return a_
                return ('seq', a_, b_)
            if k == 'ite':
                a_, b_ = simp(t[1]), simp(t[2])
                if a_ == b_: return a_
                return ('ite', a_, b_)
            if k == 'loop':
                a_ = simp(t[1])
                return ('skip',) if a_ == ('skip',) else ('loop', a_)
            return t
        tree_ = simp(tree_)
        index = {p_: i for i, p_ in enumerate(params)}
        for t in walk(tree_):
            for nm in ([t[1]] + list(t[2]) if t[0] == 'alias' else [t[1]] if t[0] in ('fresh', 'mutate') else []):
                if nm not in index: index[nm] = len(index)
        def num(t):
            k = t[0]
            if k == 'fresh': return '.fresh %d' % index[t[1]]
            if k == 'mutate': return '.mutate %d' % index[t[1]]
            if k == 'alias': return '.alias %d [%s]' % (index[t[1]], ', '.join(str(index[y]) for y in t[2]))
            if k in ('skip', 'stop'): return '.' + k
            if k == 'loop': return '.loop (%s)' % num(t[1])
            return '.%s (%s) (%s)' % (k, num(t[1]), num(t[2]))
        return num(tree_), len(index), sum(1 for _ in walk(tree_))
    visit(fn.body, A0)
    if want_flow:
        return params, muts, ret_alias, mutated, ret_roots, build_flow()
    if want_ret:
        return params, muts, ret_alias, mutated, ret_roots
    return params, muts, ret_alias, mutated

def site_names(rel, name):
    """the dotted names under which a module-level function may be written at a call site"""
    parts = os.path.splitext(rel)[0].split('/')
    if parts[-1] == '__init__': parts = parts[:-1]
    dotted = '.'.join(parts)
    out = ['%s.%s' % (dotted, name), 'dadi.%s.%s' % (dotted, name)]
    if len(parts) > 1:
        out += ['%s.%s' % (parts[-1], name), 'dadi.%s.%s' % (parts[-1], name)]     # `from . import DemesUtil`; names re-exported by the package
    return out

def module_summaries(trees):
    """per module {call-site name: (positional parameters, parameters possibly modified, parameters the return value may alias)}
    for every function of the audited modules, to a fixpoint: dotted names (`Module.name`, `dadi.Module.name`, `dadi.Demes.Demes.name`,
    `Demes.name` …) are global; a bare name means the function of the SAME module (else the first module that defines it);
    `self.name` for methods of Spectrum, `Spectrum.name` / `dadi.Spectrum.name` for its static methods"""
    glob = {}; bare = {rel: {} for rel, _ in trees}; first = {}
    def view(rel):
        v = dict(first); v.update(glob); v.update(bare[rel]); return v
    for _ in range(12):
        nglob = {}; nbare = {rel: {} for rel, _ in trees}; nfirst = {}
        for rel, tree in trees:
            sv = view(rel)
            for n in tree.body:
                if isinstance(n, ast.FunctionDef):
                    _, _, _, mutated, rets = analyse(n, sv, want_ret=True)
                    own = set(param_names(n)[1])
                    val = (param_names(n)[0], mutated & own, rets & own)
                    nbare[rel][n.name] = val
                    nfirst.setdefault(n.name, val)
                    for key in site_names(rel, n.name): nglob.setdefault(key, val)
                elif isinstance(n, ast.ClassDef) and n.name == 'Spectrum':
                    for m in n.body:
                        if isinstance(m, ast.FunctionDef):
                            _, _, _, mutated, rets = analyse(m, sv, want_ret=True)
                            own = set(param_names(m)[1])
                            val = (param_names(m)[0], mutated & own, rets & own)
                            nglob['self.' + m.name] = val
                            if any(T.callee_name(d) == 'staticmethod' for d in m.decorator_list):
                                for key in ('Spectrum.' + m.name, 'dadi.Spectrum.' + m.name, 'Spectrum_mod.Spectrum.' + m.name):
                                    nglob[key] = val
        if (nglob, nbare, nfirst) == (glob, bare, first): break
        glob, bare, first = nglob, nbare, nfirst
    return {rel: view(rel) for rel, _ in trees}

def cache_tables(path, rel, tree, src):
    """memo tables: module-level `NAME = {}` + a function storing `NAME[key] = value`.
    usedInputs = backward slice of the stored value (through local assignments and the tests of enclosing ifs) down to
    names that are inputs of the function (parameters, closure variables); keyInputs = the same for the key expression."""
    caches = []
    mod_dicts = set(); mod_names = set()
    for s in tree.body:
        if isinstance(s, ast.Assign):
            for t in s.targets:
                if isinstance(t, ast.Name):
                    mod_names.add(t.id)
                    if isinstance(s.value, ast.Dict) and not s.value.keys: mod_dicts.add(t.id)
        elif isinstance(s, (ast.FunctionDef, ast.ClassDef)):
            mod_names.add(s.name)
        elif isinstance(s, (ast.Import, ast.ImportFrom)):
            for a in s.names: mod_names.add((a.asname or a.name).split('.')[0])
    if not mod_dicts:
        return caches
    import builtins
    ignore = mod_names | set(dir(builtins))
    def innermost_functions(node, acc):
        for ch in ast.iter_child_nodes(node):
            if isinstance(ch, ast.FunctionDef):
                acc.append(ch)
            innermost_functions(ch, acc)
        return acc
    for fn in innermost_functions(tree, []):
        # statements that belong to fn itself (not to nested defs)
        own = []
        def collect(n):
            for ch in ast.iter_child_nodes(n):
                if isinstance(ch, (ast.FunctionDef, ast.ClassDef, ast.Lambda)): continue
                own.append(ch); collect(ch)
        collect(fn)
        stores = []
        for node in own:
            if isinstance(node, ast.Assign):
                for t in node.targets:
                    if isinstance(t, ast.Subscript) and isinstance(t.value, ast.Name) and t.value.id in mod_dicts:
                        stores.append((t.value.id, t.slice, node.value))
        if not stores:
            continue
        # local definitions with control dependences
        defs = {}
        def walk(stmts, tests):
            for s in stmts:
                if isinstance(s, ast.Assign):
                    for t in s.targets:
                        for tt in (t.elts if isinstance(t, ast.Tuple) else [t]):
                            if isinstance(tt, ast.Name): defs.setdefault(tt.id, []).append((s.value, list(tests)))
                elif isinstance(s, ast.AugAssign) and isinstance(s.target, ast.Name):
                    defs.setdefault(s.target.id, []).append((s.value, list(tests)))
                elif isinstance(s, ast.For):
                    for tt in (s.target.elts if isinstance(s.target, ast.Tuple) else [s.target]):
                        if isinstance(tt, ast.Name): defs.setdefault(tt.id, []).append((s.iter, list(tests)))
                    walk(s.body, tests); walk(s.orelse, tests)
                elif isinstance(s, (ast.If, ast.While)):
                    walk(s.body, tests + [s.test]); walk(s.orelse, tests + [s.test])
                elif isinstance(s, ast.Try):
                    walk(s.body, tests); walk(s.orelse, tests); walk(s.finalbody, tests)
                    for h in s.handlers: walk(h.body, tests)
                elif isinstance(s, ast.With):
                    walk(s.body, tests)
        walk(fn.body, [])
        fn_params = {a.arg for a in fn.args.args + fn.args.kwonlyargs}
        def inputs_of(e):
            out = set(); seen = set(); todo = [e]
            while todo:
                x = todo.pop()
                for nm in names_in(x):
                    if nm in seen: continue
                    seen.add(nm)
                    if nm in mod_dicts: continue
                    if nm in fn_params: out.add(nm)
                    if nm in defs:
                        for (v, tests) in defs[nm]:
                            todo.append(v); todo.extend(t for t in tests)
                    elif nm not in ignore:
                        out.add(nm)
            return out
        reads = any((isinstance(n, ast.Subscript) and isinstance(n.value, ast.Name) and n.value.id in mod_dicts and isinstance(n.ctx, ast.Load))
                    or (isinstance(n, ast.Compare) and any(isinstance(c, ast.Name) and c.id in mod_dicts for c in n.comparators))
                    for n in own)
        returns = any(isinstance(n, ast.Return) and n.value is not None for n in own)
        seen_c = set()
        def partial_only(e):
            """input names that occur in the (resolved) key only through a projection (x[i], len(x), x.attr, x.shape…):
            such a key records part of x, not x"""
            whole = set(); part = set(); seen = set(); todo = [e]
            while todo:
                x = todo.pop()
                parents = {}
                for n in ast.walk(x):
                    for ch in ast.iter_child_nodes(n): parents[id(ch)] = n
                for n in ast.walk(x):
                    if isinstance(n, ast.Name):
                        par = parents.get(id(n))
                        proj = (isinstance(par, ast.Subscript) and par.value is n) or isinstance(par, ast.Attribute) or \
                               (isinstance(par, ast.Call) and T.callee_name(par.func) in ('len', 'numpy.shape', 'np.shape', 'numpy.size', 'id') and n in par.args)
                        if n.id in defs and n.id not in fn_params:
                            if n.id not in seen:
                                seen.add(n.id)
                                for (v, tests) in defs[n.id]: todo.append(v)
                        else:
                            (part if proj else whole).add(n.id)
            return part - whole
        for cname, keyexpr, valexpr in stores:
            if cname in seen_c: continue
            seen_c.add(cname)
            keyp = inputs_of(keyexpr) - partial_only(keyexpr)
            # the tests guarding the store are lookups of the key itself: they add no inputs beyond the key
            used = inputs_of(valexpr)
            caches.append(dict(module=rel, cache=cname, fn=fn.name, key=sorted(keyp), used=sorted(used),
                               sufficient=used <= keyp, memo=bool(reads and returns), keysrc=re.sub(r'\s+', ' ', ast.unparse(keyexpr))))
    return caches

def audited(rel, tree):
    """(qualified name, FunctionDef) of the functions whose effect summary is tabled"""
    out = []
    if rel == 'Integration.py':
        want = {'one_pop', 'two_pops', 'three_pops', 'four_pops', 'five_pops', '_one_pop_const_params', '_two_pops_const_params', '_three_pops_const_params'}
        out += [(n.name, n) for n in tree.body if isinstance(n, ast.FunctionDef) and n.name in want]
    elif rel == 'Spectrum_mod.py':
        for c in tree.body:
            if isinstance(c, ast.ClassDef) and c.name == 'Spectrum':
                for n in c.body:
                    if isinstance(n, ast.FunctionDef) and (not n.name.startswith('_') or n.name in ('_from_phi_1D_analytic', '_from_phi_1D_direct')):
                        out.append(('Spectrum.' + n.name, n))
    elif rel == 'Inference.py':
        want = {'ll', 'll_per_bin', 'll_multinom', 'll_multinom_per_bin', 'optimal_sfs_scaling', 'optimally_scaled_sfs', 'linear_Poisson_residual',
                'Anscombe_Poisson_residual', '_project_params_down', '_project_params_up', '_object_func', '_object_func_log'}
        out += [(n.name, n) for n in tree.body if isinstance(n, ast.FunctionDef) and n.name in want]
    elif rel == 'Misc.py':
        want = {'perturb_params', 'ensure_1arg_func', 'delayed_flush'}
        out += [(n.name, n) for n in tree.body if isinstance(n, ast.FunctionDef) and n.name in want]
    elif rel == 'Godambe.py':
        # every function of the module (uncertainty calls and their finite-difference helpers); their inner functions are added by generate()
        out += [(n.name, n) for n in tree.body if isinstance(n, ast.FunctionDef)]
    elif rel == 'Numerics.py':
        want = {'reverse_array', 'trapz', 'apply_anc_state_misid', 'make_extrap_func', 'multinomln', 'cached_part', 'cached_part_precalc', '_cached_projection'}
        out += [(n.name, n) for n in tree.body if isinstance(n, ast.FunctionDef) and n.name in want]
    elif rel == 'PhiManip.py':
        out += [(n.name, n) for n in tree.body if isinstance(n, ast.FunctionDef) and (n.name.startswith('phi_') or n.name in ('remove_pop', 'filter_pops', 'reorder_pops'))]
    elif rel in ('Demes/Demes.py', 'Demes/DemesUtil.py', 'Demes/__init__.py', 'LowPass/LowPass.py'):
        # every module-level function (the demes front end, the graph utilities, the exporter, the low-pass helpers); inner functions
        # are added by generate().  Qualified by the module where two audited modules could define the same name.
        pre = {'Demes/Demes.py': 'Demes.', 'Demes/DemesUtil.py': 'DemesUtil.', 'Demes/__init__.py': 'Demes.', 'LowPass/LowPass.py': 'LowPass.'}[rel]
        out += [(pre + n.name, n) for n in tree.body if isinstance(n, ast.FunctionDef)]
    return out

# ---------------------------------------------------------------- iteration order of sets (hash-seed dependence)
# A value whose order of iteration depends on PYTHONHASHSEED must not leak into results: every place where a set-typed
# expression is iterated, listed, enumerated, zipped or popped without passing through sorted()/len/min/max/any/all/set is tabled.
ORDER_FREE = {'sorted', 'len', 'min', 'max', 'any', 'all', 'set', 'frozenset'}
def is_set_expr(e, setnames):
    if isinstance(e, (ast.Set, ast.SetComp)): return True
    if isinstance(e, ast.Call) and isinstance(e.func, ast.Name) and e.func.id in ('set', 'frozenset'): return True
    if isinstance(e, ast.Name) and e.id in setnames: return True
    if isinstance(e, ast.BinOp) and isinstance(e.op, (ast.BitOr, ast.BitAnd, ast.Sub, ast.BitXor)):
        return is_set_expr(e.left, setnames) or is_set_expr(e.right, setnames)
    if isinstance(e, ast.Call) and isinstance(e.func, ast.Attribute) and e.func.attr in ('union', 'intersection', 'difference', 'symmetric_difference') and is_set_expr(e.func.value, setnames): return True
    return False
def set_order_sites(fn):
    setnames = set()
    for n in ast.walk(fn):
        if isinstance(n, ast.Assign) and is_set_expr(n.value, setnames):
            for t in n.targets:
                if isinstance(t, ast.Name): setnames.add(t.id)
    out = []
    parents = {}
    for n in ast.walk(fn):
        for c in ast.iter_child_nodes(n): parents[c] = n
    def wrapped_order_free(node):
        p = parents.get(node)
        return isinstance(p, ast.Call) and isinstance(p.func, ast.Name) and p.func.id in ORDER_FREE and node in p.args
    for n in ast.walk(fn):
        if isinstance(n, ast.For) and is_set_expr(n.iter, setnames):
            out.append('line %d: for … in %s' % (n.lineno, ast.unparse(n.iter)))
        elif isinstance(n, (ast.ListComp, ast.GeneratorExp, ast.DictComp)):
            for g in n.generators:
                if is_set_expr(g.iter, setnames) and not wrapped_order_free(n):
                    out.append('line %d: comprehension over %s' % (n.lineno, ast.unparse(g.iter)))
        elif isinstance(n, ast.Call) and isinstance(n.func, ast.Name) and n.func.id in ('list', 'tuple', 'enumerate', 'zip', 'iter', 'next') and any(is_set_expr(a, setnames) for a in n.args) and not wrapped_order_free(n):
            out.append('line %d: %s' % (n.lineno, ast.unparse(n)[:60]))
        elif isinstance(n, ast.Call) and isinstance(n.func, ast.Attribute) and n.func.attr == 'pop' and not n.args and is_set_expr(n.func.value, setnames):
            out.append('line %d: %s' % (n.lineno, ast.unparse(n)[:60]))
    return out

def all_set_order_sites():
    out = []
    root = os.path.join(T.REPO, 'dadi')
    for dp, dn, fns in sorted(os.walk(root)):
        for f in sorted(fns):
            if not f.endswith('.py'): continue
            path = os.path.join(dp, f); rel = os.path.relpath(path, root)
            tree = ast.parse(open(path).read())
            for n in ast.walk(tree):
                if isinstance(n, (ast.FunctionDef, ast.AsyncFunctionDef)):
                    for ev in set_order_sites(n):
                        out.append((rel, n.name, ev))
    return out

# ---------------------------------------------------------------- writes through a possibly-copied handle (memory-layout dependence)
# `h = x.ravel(); h[0] = v` writes into `x` only when `x` happens to be C-contiguous: `ravel` / `reshape` / `numpy.ascontiguousarray` /
# `numpy.asarray(x, order=…)` return a VIEW for some memory layouts of `x` and a COPY for the others, so what the statement does to `x`
# (and to everything that shares memory with it) depends on the layout of `x` — for a Fortran-ordered, transposed, reversed or sliced
# `x` the write is silently lost.  (`x.flat[i] = v`, `x[idx] = v` always address the logical element.)  `x.flatten()` and fancy-indexed
# temporaries `x[[…]]`, `x[x > 0]` are ALWAYS copies: a write into them that nothing reads afterwards is a lost write.  Every such
# site of every function of the audited modules is tabled (`copyWrites`); Props/C20.lean states that there is none.
_MAYBE_COPY_METHODS = {'ravel', 'reshape'}
_ALWAYS_COPY_METHODS = {'flatten'}
_MAYBE_COPY_NUMPY = {'ravel', 'reshape', 'ma.ravel', 'ma.reshape', 'ascontiguousarray', 'asfortranarray', 'require'}
_ORDER_NUMPY = {'asarray', 'asanyarray', 'array', 'ma.asarray', 'ma.asanyarray', 'ma.array', 'ma.masked_array'}
_FRESH_CONTIG_NUMPY = {'zeros', 'ones', 'empty', 'full', 'arange', 'linspace', 'logspace', 'identity', 'eye', 'indices',
                       'ma.zeros', 'ma.ones', 'ma.empty', 'ma.make_mask_none', 'concatenate', 'outer', 'dot'}
_FANCY_INDEX_NUMPY = {'where', 'nonzero', 'flatnonzero', 'argwhere', 'argsort', 'arange', 'array', 'asarray', 'logical_and', 'logical_or',
                      'logical_not', 'logical_xor', 'isnan', 'isfinite', 'isinf', 'ma.getmaskarray', 'unique', 'searchsorted', 'argpartition'}
_VIEW_METHODS = {'transpose', 'view', 'swapaxes', 'squeeze', 'diagonal'}
_HANDLE_WRITING_METHODS = {'fill', 'sort', 'put', 'itemset', 'resize', 'partition', 'setfield', 'byteswap_inplace', '__setitem__', '__iadd__', '__isub__',
                           '__imul__', 'mask_corners', 'unmask_all'}

def _chain_of(t):
    """the target and the expressions it is reached through, outermost first"""
    c = [t]
    while isinstance(c[-1], (ast.Subscript, ast.Attribute)): c.append(c[-1].value)
    return c

def _innermost(node):
    """strip subscripts / attributes: x[i].a[j] -> x ; f(…)[i] -> the call"""
    while isinstance(node, (ast.Subscript, ast.Attribute)):
        node = node.value
    return node

def _is_fancy_index(ix, fancy_names):
    """syntactically evident advanced indexing (the result of x[ix] is a copy)"""
    if isinstance(ix, ast.Tuple):
        return any(_is_fancy_index(e, fancy_names) for e in ix.elts)
    if isinstance(ix, ast.List):
        # a list of slices / None / Ellipsis is (old-style) basic indexing
        basic = lambda e: (isinstance(e, ast.Call) and T.callee_name(e.func) == 'slice') or (isinstance(e, ast.Constant) and e.value in (None, Ellipsis)) \
                          or (isinstance(e, ast.Attribute) and e.attr == 'newaxis') or isinstance(e, ast.Slice)
        return not (ix.elts and all(basic(e) for e in ix.elts))
    if isinstance(ix, (ast.ListComp, ast.Compare)): return True
    if isinstance(ix, ast.UnaryOp) and isinstance(ix.op, ast.Invert): return _is_fancy_index(ix.operand, fancy_names) or True
    if isinstance(ix, ast.BinOp) and isinstance(ix.op, (ast.BitAnd, ast.BitOr, ast.BitXor)):
        return _is_fancy_index(ix.left, fancy_names) or _is_fancy_index(ix.right, fancy_names)
    if isinstance(ix, ast.Call):
        nn = numpy_name(T.callee_name(ix.func))
        if nn in _FANCY_INDEX_NUMPY: return True
        if isinstance(ix.func, ast.Attribute) and ix.func.attr in ('nonzero', 'argsort', 'ravel', 'flatten', 'astype', 'tolist'): return True
    if isinstance(ix, ast.Attribute) and ix.attr == 'mask': return True
    if isinstance(ix, ast.Name) and ix.id in fancy_names: return True
    return False

def copy_write_sites(fn, qual, summ=None, outer=None, out=None, counts=None):
    """sites of `fn` (and of the functions nested in it) where something is written through a handle that may be, or always is, a copy
    of the array it was taken from.  State (forward, in source order; branches joined by union, loop bodies visited twice):
      H     : name -> (kind, source text of the handle expression, line)   kind = 'view-if-contiguous' | 'always-copy'
      fresh : names bound to a freshly allocated C-contiguous array (numpy.zeros(…), x.copy(), …): `ravel`/`reshape(-1)` of those is a view
      fancy : names bound to index arrays / boolean masks
    Returns the list `out` of (qualified function, text)."""
    out = [] if out is None else out
    counts = counts if counts is not None else {}
    summ = summ or {}
    H = {k: v for k, v in (outer or ({}, set(), set()))[0].items()}
    fresh = set((outer or ({}, set(), set()))[1]); fancy = set((outer or ({}, set(), set()))[2])
    for p_ in param_names(fn)[1]:
        H.pop(p_, None); fresh.discard(p_); fancy.discard(p_)
    cand = []          # (lineno, text, handle name or None, kind)
    def is_fresh_contig(e, fresh):
        if isinstance(e, ast.Name): return e.id in fresh
        if isinstance(e, ast.Call):
            nn = numpy_name(T.callee_name(e.func))
            if nn in _FRESH_CONTIG_NUMPY: return True
            if isinstance(e.func, ast.Attribute) and e.func.attr == 'copy' and not e.keywords and not e.args: return True
            if nn in ('copy',) and not _kw(e, 'order'): return True
            if isinstance(e.func, ast.Attribute) and e.func.attr in _MAYBE_COPY_METHODS | _ALWAYS_COPY_METHODS and not _kw(e, 'order'):
                # ravel / reshape / flatten of a fresh contiguous array is contiguous (a view of it, or a new C-ordered copy)
                return e.func.attr in _ALWAYS_COPY_METHODS or is_fresh_contig(e.func.value, fresh)
        return False
    def handle_of(e, H, fresh, fancy):
        """(kind, text) if the value of `e` may be / is a copy of an existing array through which the code may still mean that array"""
        if isinstance(e, ast.Name):
            return H.get(e.id)
        if isinstance(e, ast.Attribute):
            if e.attr in ('T', 'real', 'imag', 'data', 'mask', '_mask', '_data', 'flat'):
                return handle_of(e.value, H, fresh, fancy)
            return None
        if isinstance(e, ast.Subscript):
            if _is_fancy_index(e.slice, fancy):
                counts['handles'] = counts.get('handles', 0) + 1
                return ('always-copy', ast.unparse(e)[:60], e.lineno)
            return handle_of(e.value, H, fresh, fancy)
        if isinstance(e, ast.IfExp):
            return handle_of(e.body, H, fresh, fancy) or handle_of(e.orelse, H, fresh, fancy)
        if isinstance(e, ast.Call):
            nn = numpy_name(T.callee_name(e.func))
            first = e.args[0] if e.args else None
            if isinstance(e.func, ast.Attribute) and nn is None:
                recv = e.func.value
                if e.func.attr in _MAYBE_COPY_METHODS:
                    counts['handles'] = counts.get('handles', 0) + 1
                    if is_fresh_contig(recv, fresh) and not _kw(e, 'order'): return None
                    return ('view-if-contiguous', ast.unparse(e)[:60], e.lineno)
                if e.func.attr in _ALWAYS_COPY_METHODS:
                    counts['handles'] = counts.get('handles', 0) + 1
                    return ('always-copy', ast.unparse(e)[:60], e.lineno)
                if e.func.attr in _VIEW_METHODS:
                    return handle_of(recv, H, fresh, fancy)
                return None
            if nn in _MAYBE_COPY_NUMPY and first is not None:
                counts['handles'] = counts.get('handles', 0) + 1
                if is_fresh_contig(first, fresh) and not _kw(e, 'order'): return None
                return ('view-if-contiguous', ast.unparse(e)[:60], e.lineno)
            if nn in _ORDER_NUMPY and first is not None and _kw(e, 'order') is not None:
                c = _kw(e, 'copy')
                if nn == 'array' and (c is None or (isinstance(c, ast.Constant) and c.value is True)):
                    return None                       # numpy.array(x, order=…) copies by default
                counts['handles'] = counts.get('handles', 0) + 1
                return ('view-if-contiguous', ast.unparse(e)[:60], e.lineno)
            if nn in _ALIASING_NUMPY and first is not None:
                return handle_of(first, H, fresh, fancy)
        return None
    def site(lineno, text, h, name):
        cand.append((lineno, '%d: %s  [through %s, a %s of its array (line %d)]' % (
            lineno, text[:70], h[1], 'view only for a C-contiguous array, else a copy' if h[0] == 'view-if-contiguous' else 'copy', h[2]), name, h[0]))
    def target_handle(t, H, fresh, fancy):
        """the handle a store into target `t` goes through: (handle, name or None)"""
        if not isinstance(t, (ast.Subscript, ast.Attribute)): return None, None
        if not any(isinstance(n, ast.Subscript) for n in _chain(t)): return None, None
        inner = _innermost(t)
        if isinstance(inner, ast.Name):
            # x[fancy][i] = v : the inner subscription is a temporary copy
            for n in _chain(t)[1:]:
                if isinstance(n, ast.Subscript) and _is_fancy_index(n.slice, fancy):
                    return ('always-copy', ast.unparse(n)[:60], n.lineno), None
            return (H.get(inner.id), inner.id) if inner.id in H else (None, None)
        if isinstance(inner, ast.Call):
            # f(…)[i] = v : attributes/subscripts applied to the call's value, e.g. x.ravel()[0] = v
            chain = _chain(t)
            # `x.flat[...]` is not a call; a call here is the base itself
            h = handle_of(inner, H, fresh, fancy)
            return (h, None) if h else (None, None)
        return None, None
    _chain = _chain_of
    def writes_of(s, H, fresh, fancy):
        if isinstance(s, (ast.Assign, ast.AnnAssign, ast.AugAssign)):
            targets = s.targets if isinstance(s, ast.Assign) else [s.target]
            flat = []
            for t in targets:
                flat += list(t.elts) if isinstance(t, (ast.Tuple, ast.List)) else [t]
            for t in flat:
                h, nm = target_handle(t, H, fresh, fancy)
                if h: site(s.lineno, ast.unparse(t) + (' =' if not isinstance(s, ast.AugAssign) else ' %s=' % type(s.op).__name__), h, nm)
                if isinstance(s, ast.AugAssign) and isinstance(t, ast.Name) and t.id in H:
                    site(s.lineno, '%s %s=' % (t.id, type(s.op).__name__), H[t.id], t.id)
        elif isinstance(s, ast.Delete):
            pass
        exprs = [s.iter] if isinstance(s, (ast.For, ast.AsyncFor)) else [s.test] if isinstance(s, (ast.If, ast.While)) else \
                [i.context_expr for i in s.items] if isinstance(s, (ast.With, ast.AsyncWith)) else [] if isinstance(s, ast.Try) else [s]
        stack = list(exprs)
        while stack:
            node = stack.pop()
            for ch in ast.iter_child_nodes(node):
                if isinstance(ch, (ast.FunctionDef, ast.AsyncFunctionDef, ast.ClassDef)): continue
                stack.append(ch)
            if not isinstance(node, ast.Call): continue
            fnm = T.callee_name(node.func)
            if isinstance(node.func, ast.Attribute) and node.func.attr in _HANDLE_WRITING_METHODS | {'fill', 'sort'}:
                h = handle_of(node.func.value, H, fresh, fancy)
                if h: site(node.lineno, ast.unparse(node.func) + '(…)', h, node.func.value.id if isinstance(node.func.value, ast.Name) else None)
            nn = numpy_name(fnm)
            if nn in _WRITING_NUMPY and len(node.args) > _WRITING_NUMPY[nn]:
                a = node.args[_WRITING_NUMPY[nn]]; h = handle_of(a, H, fresh, fancy)
                if h: site(node.lineno, '%s(%s, …)' % (fnm, ast.unparse(a)[:30]), h, a.id if isinstance(a, ast.Name) else None)
            o = _kw(node, 'out')
            if o is not None:
                h = handle_of(o, H, fresh, fancy)
                if h: site(node.lineno, '%s(…, out=%s)' % (fnm, ast.unparse(o)[:30]), h, o.id if isinstance(o, ast.Name) else None)
            if fnm and INPLACE_KERNEL.match(fnm) and node.args:
                h = handle_of(node.args[0], H, fresh, fancy)
                if h: site(node.lineno, '%s(%s, …)' % (fnm, ast.unparse(node.args[0])[:30]), h, node.args[0].id if isinstance(node.args[0], ast.Name) else None)
            if fnm in summ and fnm not in NON_PROPAGATING:
                cpos, cmut = summ[fnm][0], summ[fnm][1]
                for pn, a in bind_args(node, cpos, callee_offset(fnm, cpos)):
                    if pn in cmut:
                        h = handle_of(a, H, fresh, fancy)
                        if h: site(node.lineno, '%s(… %s …) modifies its parameter %s' % (fnm, ast.unparse(a)[:30], pn), h, a.id if isinstance(a, ast.Name) else None)
    def bind(s, H, fresh, fancy):
        if isinstance(s, (ast.Assign, ast.AnnAssign)) and s.value is not None:
            targets = s.targets if isinstance(s, ast.Assign) else [s.target]
            for t in targets:
                if isinstance(t, ast.Name):
                    h = handle_of(s.value, H, fresh, fancy)
                    fr = is_fresh_contig(s.value, fresh)
                    fa = _is_fancy_index(s.value, fancy)
                    H.pop(t.id, None); fresh.discard(t.id); fancy.discard(t.id)
                    if h: H[t.id] = h
                    if fr: fresh.add(t.id)
                    if fa: fancy.add(t.id)
                elif isinstance(t, (ast.Tuple, ast.List)):
                    for x in t.elts:
                        if isinstance(x, ast.Name):
                            H.pop(x.id, None); fresh.discard(x.id); fancy.discard(x.id)
        elif isinstance(s, (ast.For, ast.AsyncFor)):
            for x in ast.walk(s.target):
                if isinstance(x, ast.Name):
                    H.pop(x.id, None); fresh.discard(x.id); fancy.discard(x.id)
    def join(a, b):
        Ha, fa, xa = a; Hb, fb, xb = b
        Hn = dict(Hb); Hn.update(Ha)
        return Hn, fa & fb, xa | xb
    def walk(stmts, st):
        H, fresh, fancy = st
        for s in stmts:
            if isinstance(s, (ast.FunctionDef, ast.AsyncFunctionDef)):
                copy_write_sites(s, '%s.%s' % (qual, s.name), summ, (dict(H), set(fresh), set(fancy)), out, counts)
                continue
            if isinstance(s, ast.ClassDef): continue
            writes_of(s, H, fresh, fancy)
            bind(s, H, fresh, fancy)
            if isinstance(s, (ast.For, ast.AsyncFor, ast.While)):
                st1 = (dict(H), set(fresh), set(fancy))
                for _ in range(2):
                    st2 = walk(s.body, (dict(st1[0]), set(st1[1]), set(st1[2])))
                    st1 = join(st1, st2)
                st3 = walk(s.orelse, (dict(st1[0]), set(st1[1]), set(st1[2]))) if s.orelse else st1
                H, fresh, fancy = join(st1, st3)
            elif isinstance(s, ast.If):
                a = walk(s.body, (dict(H), set(fresh), set(fancy))); b = walk(s.orelse, (dict(H), set(fresh), set(fancy)))
                H, fresh, fancy = join(a, b)
            elif isinstance(s, (ast.With, ast.AsyncWith)):
                H, fresh, fancy = walk(s.body, (H, fresh, fancy))
            elif isinstance(s, ast.Try) or type(s).__name__ == 'TryStar':
                a = walk(s.body + s.orelse, (dict(H), set(fresh), set(fancy)))
                cur = join((H, fresh, fancy), a)
                for h_ in s.handlers: cur = join(cur, walk(h_.body, (dict(cur[0]), set(cur[1]), set(cur[2]))))
                if s.finalbody: cur = walk(s.finalbody, cur)
                H, fresh, fancy = cur
        return H, fresh, fancy
    counts['functions'] = counts.get('functions', 0) + 1
    walk(fn.body, (H, fresh, fancy))
    # a write into an always-copy handle is a lost write only if nothing reads the handle afterwards
    own_nodes = []
    def collect(n):
        for ch in ast.iter_child_nodes(n):
            if isinstance(ch, (ast.FunctionDef, ast.AsyncFunctionDef, ast.ClassDef)): continue
            own_nodes.append(ch); collect(ch)
    collect(fn)
    store_bases = set()
    for n in own_nodes:
        ts = n.targets if isinstance(n, ast.Assign) else [n.target] if isinstance(n, (ast.AugAssign, ast.AnnAssign)) else []
        for t in ts:
            for x in (t.elts if isinstance(t, (ast.Tuple, ast.List)) else [t]):
                if isinstance(x, (ast.Subscript, ast.Attribute)) and isinstance(_innermost(x), ast.Name): store_bases.add(id(_innermost(x)))
    seen = set()
    for lineno, text, name, kind in cand:
        if kind == 'always-copy' and name is not None:
            reads = [n for n in own_nodes if isinstance(n, ast.Name) and n.id == name and isinstance(n.ctx, ast.Load) and id(n) not in store_bases]
            if reads: continue
        if text in seen: continue
        seen.add(text); out.append((qual, text))
    return out

def all_copy_write_sites(trees, summs, counts=None):
    out = []
    for rel, tree in trees:
        def scan(body, prefix):
            for n in body:
                if isinstance(n, (ast.FunctionDef, ast.AsyncFunctionDef)):
                    for q, text in copy_write_sites(n, prefix + n.name, summs.get(rel) if summs else None, counts=counts):
                        out.append((rel, q, text))
                elif isinstance(n, ast.ClassDef):
                    scan(n.body, prefix + n.name + '.')
        scan(tree.body, '')
    return out

# the scanner's own test: one function per member of the class (`flag_*` must be tabled, `clean_*` must not); the verdicts are emitted
# as `copyWriteSelfTest` and Props/C20.lean states that they are as the names say (so a scanner that sees nothing proves nothing)
_COPYWRITE_SELFTEST = """
import numpy
class K:
    def flag_ravel_handle(self):
        corners = self.mask.ravel()
        corners[0] = corners[-1] = True
    def flag_ravel_direct(self):
        self.mask.ravel()[0] = True
    def flag_flatten_lost(self):
        c = self.mask.flatten()
        c[0] = True
    def clean_flat(self):
        self.mask.flat[0] = self.mask.flat[-1] = True
    def clean_direct(self):
        self.mask[tuple([slice(None)] * self.ndim)] = False
    def clean_explicit_copy(self):
        means = self.ravel().copy()
        means[self.mask.ravel()] = 1
        return means
def flag_reshape_handle(x):
    m = x.reshape(-1)
    m[0] = 1
def flag_numpy_ravel(x):
    m = numpy.ravel(x)
    m[0] = 1
def flag_ascontiguous(x):
    y = numpy.ascontiguousarray(x)
    y[0] = 1
def flag_asarray_order(x):
    y = numpy.asarray(x, order='C')
    y += 1
def flag_require_fill(x):
    y = numpy.require(x, requirements='C')
    y.fill(0)
def flag_flatten_direct(x):
    x.flatten()[0] = 1
def flag_fancy_direct(x):
    x[[0, 2]][1] = 5
def flag_fancy_bool_direct(x):
    x[x > 0][0] = 5
def flag_fancy_named_lost(x, y):
    idx = numpy.where(y > 0)
    t = x[idx]
    t[0] = 1
def flag_one_branch(x, c):
    if c:
        h = x.ravel()
    else:
        h = x.copy()
    h[0] = 1
def flag_loop_carried(x, n):
    h = x.copy()
    for i in range(n):
        h[i] = 0
        h = x.ravel()
def flag_copyto(x, v):
    numpy.copyto(x.ravel(), v)
def flag_out(x, a, b):
    numpy.add(a, b, out=x.reshape(-1))
def flag_view_of_handle(x):
    h = x.ravel()
    g = h[1:]
    g[0] = 1
def flag_transposed_receiver(x):
    h = x.T.ravel()
    h[0] = 1
def flag_closure(x):
    h = x.ravel()
    def inner(i):
        h[i] = 0
    return inner
def flag_kernel(phi, xx):
    int_c.implicit_1Dx(numpy.ascontiguousarray(phi), xx)
def flag_fresh_unknown_layout(a, b):
    t = a + b
    h = t.ravel()
    h[0] = 1
    return t
def clean_fresh(n):
    a = numpy.zeros((n, n))
    r = a.ravel()
    r[0] = 1
    return a
def clean_fresh_copy(x):
    a = x.copy()
    r = a.reshape(-1)
    r[0] = 1
    return a
def clean_flatten_used(x):
    v = x.flatten()
    v[0] = 0
    return v.sum()
def clean_scatter(x, idx):
    x[idx] = 0
    x[x > 0] = 1
    x[[0, 1]] = 2
def clean_rebound(x):
    h = x.ravel()
    h = h.copy()
    h[0] = 1
    return h
def clean_read_only(x, y):
    s = 0
    for a, b in zip(x.ravel(), y.ravel()):
        s += a * b
    return s
def clean_nested_index(phi, ii, jj):
    phi[ii][jj] = 0
    phi[ii, :][jj] = 0
def clean_reshape_after_write(x, bad, shape):
    samp = numpy.random.poisson(x)
    samp[bad.ravel()] = 0
    samp = samp.reshape(shape)
    return samp
def clean_slices(x, n):
    sl = [slice(None)] * n
    x[tuple(sl)][0] = 1
"""

def copy_write_selftest():
    tree = ast.parse(_COPYWRITE_SELFTEST)
    out = []
    def scan(body):
        for n in body:
            if isinstance(n, ast.FunctionDef):
                out.append((n.name, bool(copy_write_sites(n, n.name))))
            elif isinstance(n, ast.ClassDef):
                scan(n.body)
    scan(tree.body)
    return out

# ---------------------------------------------------------------- in-place writes of the Spectrum methods into their own mask / data
# Closed language: `self.<attr>[<idx>] = … = <bool>` (direct), `self.<attr>.flat[<idx>] = …`, `h = self.<attr>.ravel()|.flatten(); h[<idx>] = …`,
# `self.<attr>.ravel()[<idx>] = …`; <idx> an integer literal or "everything" (`:`, `...`, `tuple([slice(None)]*self.Npop)`).  The model
# (Driver/Memo.lean `applyWrites`) executes these rows on a strided array; Props/C20.lean proves the result independent of the layout.
_SELF_ARRAYS = ('mask', '_mask', 'data', '_data')
def mask_write_rows(tree):
    rows = []
    def self_array(e):
        return isinstance(e, ast.Attribute) and e.attr in _SELF_ARRAYS and isinstance(e.value, ast.Name) and e.value.id == 'self'
    def index_of(ix, fn):
        if isinstance(ix, ast.Constant) and isinstance(ix.value, int) and not isinstance(ix.value, bool): return '.idx %d' % ix.value if ix.value >= 0 else '.idx (%d)' % ix.value
        if isinstance(ix, ast.UnaryOp) and isinstance(ix.op, ast.USub) and isinstance(ix.operand, ast.Constant) and isinstance(ix.operand.value, int):
            return '.idx (-%d)' % ix.operand.value
        if isinstance(ix, ast.Constant) and ix.value is Ellipsis: return '.all'
        if isinstance(ix, ast.Slice) and ix.lower is None and ix.upper is None and ix.step is None: return '.all'
        txt = re.sub(r'\s+', '', ast.unparse(ix))
        if txt in ('tuple([slice(None)]*self.Npop)', 'tuple([slice(None)]*self.ndim)', 'slice(None)', '(slice(None),)*self.ndim', '(slice(None),)*self.Npop'): return '.all'
        raise T.TranslateError('%s: index %s of an in-place write into the spectrum is outside the closed language' % (fn, txt))
    def value_of(v, fn):
        if isinstance(v, ast.Constant) and isinstance(v.value, bool): return 'true' if v.value else 'false'
        raise T.TranslateError('%s: value %s written into the spectrum is outside the closed language' % (fn, ast.unparse(v)[:40]))
    def handle_expr(e, fn):
        """(attr, handle) if `e` is self.<attr>, self.<attr>.flat, self.<attr>.ravel(), self.<attr>.flatten()"""
        if self_array(e): return e.attr, '.direct'
        if isinstance(e, ast.Attribute) and e.attr == 'flat' and self_array(e.value): return e.value.attr, '.flat'
        if isinstance(e, ast.Call) and isinstance(e.func, ast.Attribute) and self_array(e.func.value):
            if e.func.attr in ('ravel', 'flatten') and not e.args and not e.keywords: return e.func.value.attr, '.' + e.func.attr
            if e.func.attr in ('reshape', 'view', 'transpose', 'swapaxes', 'squeeze', 'astype', 'copy') or True:
                return e.func.value.attr, None
        return None
    for c in tree.body:
        if not (isinstance(c, ast.ClassDef) and c.name == 'Spectrum'): continue
        for m in c.body:
            if not isinstance(m, ast.FunctionDef): continue
            fn = 'Spectrum.' + m.name
            handles = {}
            own = []
            def collect(n):
                for ch in ast.iter_child_nodes(n):
                    if isinstance(ch, (ast.FunctionDef, ast.ClassDef)): continue
                    own.append(ch); collect(ch)
            collect(m)
            for s in sorted((n for n in own if isinstance(n, (ast.Assign, ast.AugAssign))), key=lambda n: (n.lineno, n.col_offset)):
                targets = s.targets if isinstance(s, ast.Assign) else [s.target]
                if isinstance(s, ast.Assign) and len(targets) == 1 and isinstance(targets[0], ast.Name):
                    he = handle_expr(s.value, fn)
                    if he is not None and he[1] != '.direct': handles[targets[0].id] = he
                    else: handles.pop(targets[0].id, None)
                    continue
                for t in targets:
                    if not isinstance(t, ast.Subscript): continue
                    base = t.value
                    he = handles.get(base.id) if isinstance(base, ast.Name) else handle_expr(base, fn)
                    if he is None: continue
                    # a store outside the closed language (another handle — reshape, view, … —, a computed index or value, an augmented
                    # assignment) is tabled as `.other`: the model refuses it and Props/C20.lean cannot prove it layout-free
                    try:
                        if isinstance(s, ast.AugAssign) or he[1] is None or (he[1] == '.direct' and index_of(t.slice, fn) != '.all'):
                            raise T.TranslateError('outside the closed language')
                        row = (he[1], index_of(t.slice, fn), value_of(s.value, fn))
                    except T.TranslateError:
                        row = ('.other', '.all', 'false')
                    rows.append('  { fn := %s, attr := %s, handle := %s, index := %s, value := %s }' % ((json.dumps(fn), json.dumps(he[0].lstrip('_'))) + row))
    return rows

def lstr(xs):
    return '[' + ', '.join(json.dumps(x) for x in xs) + ']'

def generate():
    out = [T.HEADER, 'namespace Gen\nnamespace Effects']
    out.append('structure CacheInfo where\n  module : String\n  cache : String\n  fn : String\n  keyParams : List String\n  usedParams : List String\n  sufficient : Bool\n  memo : Bool\nderiving DecidableEq, Repr')
    out.append('structure EffectInfo where\n  module : String\n  fn : String\n  mutatesArg : Bool\n  returnsAlias : Bool\n  evidence : List String\nderiving DecidableEq, Repr')
    caches = []; effects = []
    trees = []
    for rel in MODULES:
        path = os.path.join(T.REPO, 'dadi', rel)
        if not os.path.exists(path):
            raise T.TranslateError('module %s not found' % rel)
        src = open(path).read()
        trees.append((rel, path, src, ast.parse(src)))
    summs = module_summaries([(rel, tree) for rel, _, _, tree in trees])
    for rel, path, src, tree in trees:
        caches += cache_tables(path, rel, tree, src)
        for qn, fn in audited(rel, tree):
            nested = []
            params, muts, ra, _ = analyse(fn, summs[rel], qual=qn, nested_out=nested)
            effects.append(dict(module=rel, fn=qn, mut=bool(muts), ret=bool(ra), ev=(muts + ra)[:4]))
            # inner functions (closures handed to the finite-difference / optimiser machinery): one row each
            for (q, npar, nm, nr) in nested:
                effects.append(dict(module=rel, fn=q, mut=bool(nm), ret=bool(nr), ev=(nm + nr)[:4]))
    out.append('/-- control-flow skeleton of a function with respect to one tracked argument object (see Driver/Memo.lean `arun`) -/\n'
               'inductive Flow where\n  | fresh (x : Nat)\n  | alias (x : Nat) (ys : List Nat)\n  | mutate (x : Nat)\n  | skip\n  | stop\n'
               '  | seq (a b : Flow)\n  | ite (a b : Flow)\n  | loop (a : Flow)\nderiving DecidableEq, Repr')
    out.append('structure FlowInfo where\n  module : String\n  fn : String\n  params : List String\n  names : Nat\n  body : Flow\n  mutated : List String\nderiving Repr')
    flows = []
    for rel, path, src, tree in trees:
        for qn, fn in audited(rel, tree):
            if not (rel.startswith('Demes/') or qn in FLOW_ALSO): continue
            pr = analyse(fn, summs[rel], qual=qn, want_flow=True)
            body, nnames, size = pr[5]
            own = param_names(fn)[1]
            flows.append('  { module := %s, fn := %s, params := %s, names := %d,\n    body := %s,\n    mutated := %s }' % (
                json.dumps(rel), json.dumps(qn), lstr(own), nnames, body, lstr([p_ for p_ in own if p_ in pr[3]])))
    out.append('/-- skeletons of the demes front end (every function of Demes/Demes.py, Demes/DemesUtil.py, Demes/__init__.py, and\n'
               '    Spectrum.from_demes); `mutated` = the parameters the Python data-flow analysis says may be modified -/')
    out.append('def flows : List FlowInfo := [\n' + ',\n'.join(flows) + '\n]')
    out.append('def caches : List CacheInfo := [\n' + ',\n'.join(
        '  { module := %s, cache := %s, fn := %s, keyParams := %s, usedParams := %s, sufficient := %s, memo := %s }' % (
            json.dumps(c['module']), json.dumps(c['cache']), json.dumps(c['fn']), lstr(c['key']), lstr(c['used']), 'true' if c['sufficient'] else 'false',
            'true' if c['memo'] else 'false')
        for c in caches) + '\n]')
    out.append('def effects : List EffectInfo := [\n' + ',\n'.join(
        '  { module := %s, fn := %s, mutatesArg := %s, returnsAlias := %s, evidence := %s }' % (
            json.dumps(e['module']), json.dumps(e['fn']), 'true' if e['mut'] else 'false', 'true' if e['ret'] else 'false', lstr(e['ev']))
        for e in effects) + '\n]')
    counts = {}
    cw = all_copy_write_sites([(rel, tree) for rel, _, _, tree in trees], summs, counts)
    out.append('/-- modules scanned for writes through a possibly-copied handle (every function, method and nested function of each) -/')
    out.append('def copyWriteModules : List String := ' + lstr([rel for rel, _, _, _ in trees]))
    out.append('def copyWriteFunctions : Nat := %d' % counts.get('functions', 0))
    out.append('/-- handle-creating expressions seen (`ravel`, `reshape`, `flatten`, `ascontiguousarray`, `asarray(order=)`, fancy-indexed temporaries) -/')
    out.append('def copyHandleExprs : Nat := %d' % counts.get('handles', 0))
    out.append('/-- (module, function, site): a store / in-place operation through a handle that is a view of its array only for some memory\n'
               '    layouts (`x.ravel()`, `x.reshape(…)`, `numpy.ascontiguousarray(x)`, `numpy.asarray(x, order=…)`) — so what happens to the array depends\n'
               '    on its layout — or through an always-copied temporary (`x.flatten()`, `x[[…]]`, `x[x > 0]`) that nothing reads afterwards -/')
    out.append('def copyWrites : List (String × String × String) := [' + ', '.join('(%s, %s, %s)' % (json.dumps(a), json.dumps(b), json.dumps(c)) for a, b, c in cw) + ']')
    out.append('/-- verdicts of the same scanner on its built-in test functions: (name, must it be tabled — `flag_*` yes, `clean_*` no —, was it tabled) -/')
    out.append('def copyWriteSelfTest : List (String × Bool × Bool) := [' + ', '.join('(%s, %s, %s)' % (json.dumps(a), 'true' if a.startswith('flag_') else 'false', 'true' if b else 'false') for a, b in copy_write_selftest()) + ']')
    out.append('inductive Handle where\n  | direct\n  | flat\n  | ravel\n  | flatten\n  | other\nderiving DecidableEq, Repr')
    out.append('inductive WIndex where\n  | idx (i : Int)\n  | all\nderiving DecidableEq, Repr')
    out.append('structure MaskWrite where\n  fn : String\n  attr : String\n  handle : Handle\n  index : WIndex\n  value : Bool\nderiving DecidableEq, Repr')
    out.append('/-- in-place writes of the Spectrum methods into their own mask / data, in program order -/')
    sm = [tree for rel, _, _, tree in trees if rel == 'Spectrum_mod.py'][0]
    out.append('def maskWrites : List MaskWrite := [\n' + ',\n'.join(mask_write_rows(sm)) + '\n]')
    so = all_set_order_sites()
    out.append('/-- places (module, function, what) where the iteration order of a set can reach a result -/')
    out.append('def setOrderSites : List (String × String × String) := [' + ', '.join('(%s, %s, %s)' % (json.dumps(a), json.dumps(b), json.dumps(c)) for a, b, c in so) + ']')
    out.append('end Effects\nend Gen\nend DadiVerif\n')
    return '\n'.join(out)
