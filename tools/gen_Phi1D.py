"""Generated/Phi1D.lean: the closed-form parts of the one-population equilibrium constructors in
dadi/PhiManip.py: how gamma and beta enter (the effective selection coefficient), the overall
prefactor, the neutral density, the genic interior formula (exp as an opaque function parameter)."""
import ast, os, re
import translate as T

NAME = 'Phi1D'

def _assign(fn, name):
    out = []
    for n in ast.walk(fn):
        if isinstance(n, ast.Assign) and len(n.targets) == 1 and isinstance(n.targets[0], ast.Name) and n.targets[0].id == name:
            out.append(n)
    return sorted(out, key=lambda n: n.lineno)

def _return_mult(fn, src):
    """`return phi * <expr>` -> expr"""
    rets = [n for n in ast.walk(fn) if isinstance(n, ast.Return) and n.value is not None]
    last = sorted(rets, key=lambda n: n.lineno)[-1].value
    # phi * a * b ... : strip the leading phi
    def strip(e):
        if isinstance(e, ast.BinOp) and isinstance(e.op, (ast.Mult, ast.Div)):
            l = strip(e.left)
            if l is None: return e.right if isinstance(e.op, ast.Mult) else None
            if l is False: return False
            return ast.BinOp(left=l, op=e.op, right=e.right)
        if isinstance(e, ast.Name) and e.id == 'phi': return None
        return False
    r = strip(last)
    if r is None or r is False:
        raise T.TranslateError('%s: return is not phi * <expr>' % fn.name)
    return ast.fix_missing_locations(r)

def generate():
    path = os.path.join(T.REPO, 'dadi', 'PhiManip.py')
    src, tree, fns = T.py_functions(path)
    out = [T.HEADER, 'namespace Gen\nnamespace Phi1D']
    names = {'nu': 'nu', 'theta0': 'theta0', 'gamma': 'gamma', 'beta': 'beta'}
    for fname, lname in (('phi_1D', 'dom'), ('phi_1D_genic', 'genic')):
        fn = fns.get(fname)
        if fn is None: raise T.TranslateError(fname)
        g = _assign(fn, 'gamma')
        if len(g) != 1: raise T.TranslateError('%s: expected exactly one re-assignment of gamma' % fname)
        out.append('/-- %s: %s -/' % (fname, ast.unparse(g[0])))
        out.append('def %s_gammaEff (gamma nu beta : Rat) : Rat := %s' % (lname, T.tr(g[0].value, T.Ctx(names=names))))
        m = _return_mult(fn, src)
        out.append('/-- %s: return phi * %s -/' % (fname, ast.unparse(m)))
        out.append('def %s_prefactor (nu theta0 beta : Rat) : Rat := %s' % (lname, T.tr(m, T.Ctx(names=names))))
    # neutral
    fn = fns.get('phi_1D_snm')
    if fn is None: raise T.TranslateError('phi_1D_snm')
    asg = None
    for n in ast.walk(fn):
        if isinstance(n, ast.Assign) and isinstance(n.targets[0], ast.Subscript) and ast.unparse(n.targets[0]).replace(' ', '') == 'phi[1:]':
            asg = n
    if asg is None: raise T.TranslateError('phi_1D_snm: phi[1:] = ... not found')
    def sub(node, ctx):
        if ast.unparse(node).replace(' ', '') == 'xx[1:]': return 'x'
        raise T.TranslateError('subscript in snm')
    out.append('/-- phi_1D_snm: %s -/' % ast.unparse(asg))
    out.append('def snm_interior (x nu theta0 : Rat) : Rat := %s' % T.tr(asg.value, T.Ctx(names=names, subscript=sub)))
    m = _return_mult(fn, src)
    out.append('/-- phi_1D_snm: return phi * %s -/' % ast.unparse(m))
    out.append('def snm_prefactor (beta : Rat) : Rat := %s' % T.tr(m, T.Ctx(names=names)))
    # which branch copies phi[1] into phi[0]
    txt = re.sub(r'\s+', '', ast.unparse(fn))
    out.append('def snm_copies_first : Bool := %s' % ('true' if 'phi[0]=phi[1]' in txt else 'false'))
    # dispatch of phi_1D: h == 0.5 -> genic ; genic: gamma == 0 -> snm
    fn = fns['phi_1D']; txt = re.sub(r'\s+', '', ast.unparse(fn))
    ok1 = 'ifh==0.5:returnphi_1D_genic(xx,nu,theta0,gamma,beta=beta)' in txt
    fn = fns['phi_1D_genic']; txt = re.sub(r'\s+', '', ast.unparse(fn))
    ok2 = 'ifgamma==0:returnphi_1D_snm(xx,nu,theta0,beta=beta)' in txt
    out.append('def dispatchOk : Bool := %s' % ('true' if (ok1 and ok2) else 'false'))
    out.append('end Phi1D\nend Gen\nend DadiVerif\n')
    return '\n'.join(out)
