#!/bin/sh
# usage: try_seed.sh <patch.diff> <Cxx> [tier] [--inplace]
# Runs the check for <Cxx> against /repo + the seeded change.  Default: in a scratch worktree via DADI_REPO
# (safe while other processes read /repo).  --inplace: git -C /repo apply, run, git checkout -- . (the brief's way).
P="$1"; C="$2"; T="${3:-quick}"; MODE="$4"
if [ "$MODE" = "--inplace" ]; then
  cd /repo || exit 9
  if ! git diff --quiet; then echo "repo dirty"; exit 9; fi
  git apply "$P" || { echo "patch does not apply"; exit 9; }
  cd /verif && ./check "$C" --tier "$T" 2>&1 | grep -v conda | grep -E 'VIOLATION|KNOWN|OK|FAIL|infrastructure'
  cd /repo && git checkout -- .
else
  W=/tmp/tryseed_$$
  sh /tmp/seedtools/mkworktree.sh $W >/dev/null || exit 9
  (cd $W && git apply "$P") || { echo "patch does not apply"; git -C /repo worktree remove --force $W; exit 9; }
  cd /verif && DADI_REPO=$W ./check "$C" --tier "$T" 2>&1 | grep -v conda | grep -E 'VIOLATION|KNOWN|OK|FAIL|infrastructure'
  git -C /repo worktree remove --force $W; rm -rf $W
fi
/venv/bin/python /verif/tools/translate.py >/dev/null 2>&1  # restore Generated/*.lean to the unchanged tree
