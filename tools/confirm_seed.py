#!/usr/bin/env python3
"""confirm_seed.py <seed_dir_with patch.diff/demo.py/meta.json> <seed_id>

Independently confirm a seeded change in a fresh scratch worktree of /repo (outside /repo and /verif):
  1. demo passes on the unmodified tree        2. patch applies, extensions rebuild
  3. demo FAILS with the change                4. the pinned test-suite still passes with the change
Then store it as /verif/seeded/<seed_id>/ (patch.diff, demo.py, meta.json with what was run) and
remove the worktree.  Exit 0 only if all four hold."""
import os, sys, json, subprocess, shutil, time, glob, re

def sh(cmd, cwd=None, env=None, timeout=3600):
    p = subprocess.run(cmd, shell=True, cwd=cwd, env=env, stdout=subprocess.PIPE, stderr=subprocess.STDOUT, timeout=timeout)
    return p.returncode, p.stdout.decode(errors='replace')

def main():
    src, sid = sys.argv[1], sys.argv[2]
    wt = '/tmp/confirm_%s_%d' % (sid, os.getpid())
    ran = []
    ok = False
    try:
        rc, out = sh('sh /tmp/seedtools/mkworktree.sh %s' % wt); ran.append('mkworktree %s' % wt)
        if rc: print(out); return 2
        env = dict(os.environ, PYTHONPATH=wt)
        demo = os.path.join(src, 'demo.py')
        shutil.copy(demo, os.path.join(wt, '_demo.py'))
        rc0, out0 = sh('/venv/bin/python _demo.py', cwd=wt, env=env); ran.append('demo on clean tree -> exit %d' % rc0)
        rc, out = sh('git apply %s' % os.path.join(src, 'patch.diff'), cwd=wt); ran.append('git apply patch.diff -> %d' % rc)
        if rc: print('patch does not apply', out); return 1
        rc, diffstat = sh('git diff --stat', cwd=wt)
        touched_c = bool(re.search(r'\.c\s', diffstat))
        if touched_c:
            rc, out = sh('/venv/bin/python /tmp/seedtools/rebuild_ext.py %s' % wt); ran.append('rebuild extensions -> %d' % rc)
            if rc: print('does not compile', out); return 1
        rc1, out1 = sh('/venv/bin/python _demo.py', cwd=wt, env=env); ran.append('demo with change -> exit %d' % rc1)
        t0 = time.time()
        rct, outt = sh('/venv/bin/python -m pytest -q -p no:cacheprovider --timeout=900 tests 2>&1 | tail -5', cwd=wt, env=env, timeout=3000)
        ran.append('pytest tests with change -> %s (%.0fs)' % (outt.strip().split('\n')[-1], time.time() - t0))
        m = re.search(r'(\d+) passed', outt); mf = re.search(r'(\d+) failed', outt)
        tests_ok = bool(m) and int(m.group(1)) >= 93 and not mf
        ok = (rc0 == 0) and (rc1 != 0) and tests_ok
        print('clean demo exit', rc0, '| changed demo exit', rc1, '| tests:', outt.strip().split('\n')[-1])
        if ok:
            dst = os.path.join('/verif/seeded', sid)
            os.makedirs(dst, exist_ok=True)
            shutil.copy(os.path.join(src, 'patch.diff'), dst); shutil.copy(demo, dst)
            meta = json.load(open(os.path.join(src, 'meta.json')))
            meta['confirmed'] = dict(ran=ran, demo_clean_exit=rc0, demo_changed_exit=rc1, tests=outt.strip().split('\n')[-1],
                                     demo_changed_output=out1[-1500:])
            meta['breaks'] = meta.get('property')
            json.dump(meta, open(os.path.join(dst, 'meta.json'), 'w'), indent=1)
            print('stored', dst)
        else:
            print(out0[-500:], out1[-800:], outt[-800:])
    finally:
        sh('git -C /repo worktree remove --force %s' % wt)
        shutil.rmtree(wt, ignore_errors=True)
        sh('git -C /repo worktree prune')
    return 0 if ok else 1

if __name__ == '__main__':
    sys.exit(main())
