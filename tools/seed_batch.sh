#!/bin/sh
# usage: seed_batch.sh <prefix: /tmp/seed2> <idoffset: 2> Cxx Cyy ...  — try each seed against its check, then confirm+store it
PFX="$1"; OFF="$2"; shift 2
for p in "$@"; do for k in 1 2; do
  d="${PFX}_$p/SEED/$k"; [ -f "$d/patch.diff" ] || continue
  id="$p-$((k+OFF))"
  echo "== $id ($d)"; /verif/tools/try_seed.sh "$d/patch.diff" "$p"
done; done
for p in "$@"; do for k in 1 2; do
  d="${PFX}_$p/SEED/$k"; [ -f "$d/patch.diff" ] || continue
  id="$p-$((k+OFF))"; [ -d /verif/seeded/$id ] || python3 /verif/tools/confirm_seed.py "$d" "$id" | tail -2
done; done
