"""Generated/DemesProg.lean — statement-by-statement translation of the import loop of dadi/Demes/Demes.py (C16, round 5):

    _sizes_at_time (whole function: epoch search + translated body, glue), _migration_rate_in_interval (whole function), _make_nu_func,
    _get_integration_parameters, _get_demographic_events, _integrate_phi (dispatch on len(pop_ids) + keyword binding through the callee's
    signature: the table `integCalls` of Generated/Demes.lean evaluated by `bindIntegrate`), _apply_event, _compute_sfs and the tail of SFS
    (from `g.discrete_demographic_events()` to `return fs`).

Closed statement language (anything else raises TranslateError, never a guess):
    assignments to names / tuples of names, `x.append(e)`, `s.add(e)`, `d[k].append(e)`, `x.pop(i)`, `M[i, j] = e`, `for` over lists /
    enumerate / zip / dict items, `if` / `elif` / `else`, `raise`, `assert` (skipped: see the note in the output), `return` as last statement,
    the tag dispatch `e = event[0]; if e == "...": … elif e in [...]: …` (-> `match event with`), calls of the helpers listed in HELPERS
    bound against the callee's real signature (positional, keyword, defaults).
`phi` is translated as the HISTORY of the numerical calls that produced it (Model/DemesPy.lean); exceptions are `none` of the Option monad.
"""
import ast, os, re
import translate as T
from translate import TranslateError

NAME = 'DemesProg'

def _n(node):
    return re.sub(r'\s+', '', ast.unparse(node))

def _q(s):
    return s.replace('"', "'")

def _one_line(s):
    return re.sub(r'\s+', ' ', s or '').strip().replace('-/', '- /')

# ------------------------------------------------------------------------------------------------------ types
# atoms: strings; ('List', t); ('Prod', (t1, ..., tn)); ('DD', k, v); ('Opt', t)
RAT, TIME, NAME_T, NAT, BOOL, OPQ = 'Rat', 'ETime', 'DName', 'Nat', 'Bool', 'Opaque'
def L(t): return ('List', t)
def P(*ts): return ('Prod', tuple(ts))
def DD(k, v): return ('DD', k, v)
def OPT(t): return ('Opt', t)
IV = P(TIME, TIME)
MAT = L(L(RAT))
SIZES = P('Sym', 'Sym', 'SizeFn')
PHI = 'Phi'            # Trace ν
IPAR = 'IParams'       # IntegParams ν
NU = 'Nu'              # the type parameter ν

ATOM_LEAN = {RAT: 'Rat', TIME: 'ETime', NAME_T: 'DName', NAT: 'Nat', BOOL: 'Bool', 'Sym': 'Sym', 'SizeFn': 'SizeFn', 'NuEntry': 'NuEntry',
             'Nu': 'ν', 'DEvt': 'DEvt', 'Graph': 'Graph InEpoch', 'GDeme': 'GDeme InEpoch', 'Epoch': 'Epoch', 'GPulse': 'GPulse', 'GMig': 'GMig',
             'LibEvents': 'LibEvents', 'LPulse': 'LPulse', 'LBranch': 'LBranch', 'LMerge': 'LMerge', 'LSplit': 'LSplit', PHI: 'Trace ν',
             IPAR: 'IntegParams ν', 'Unit': 'Unit', 'TimeSet': 'List ETime'}

def lean_ty(t, top=True):
    if isinstance(t, str):
        s = ATOM_LEAN[t]
        return s if top or ' ' not in s else '(%s)' % s
    if t[0] == 'List': s = 'List %s' % lean_ty(t[1], False)
    elif t[0] == 'Opt': s = 'Option %s' % lean_ty(t[1], False)
    elif t[0] == 'DD': s = 'PyDD %s %s' % (lean_ty(t[1], False), lean_ty(t[2], False))
    elif t[0] == 'Prod': s = ' × '.join(lean_ty(x, False) for x in t[1])
    else: raise TranslateError('type %r' % (t,))
    return s if top else '(%s)' % s

def proj(code, i, n):
    """i-th component of an n-tuple represented as right-nested pairs"""
    if n == 1: return code
    return code + '.2' * i + ('.1' if i < n - 1 else '')

LEAN_KEYWORDS = {'from', 'at', 'end', 'open', 'fun', 'do', 'then', 'else', 'if', 'let', 'have', 'show', 'in', 'by', 'match', 'with', 'where',
                 'instance', 'def', 'theorem', 'namespace', 'section', 'variable', 'universe', 'local', 'private', 'export', 'import', 'prefix',
                 'infix', 'notation', 'macro', 'syntax', 'set_option', 'deriving', 'structure', 'class', 'inductive', 'abbrev', 'example', 'mutual'}
def lname(py):
    return py + '_' if py in LEAN_KEYWORDS else py

def inst_nu(t):
    """the type with the parameter ν instantiated by NuEntry (a monomorphic caller of a polymorphic helper)"""
    if t == NU: return 'NuEntry'
    if t == PHI: return ('PhiOf', 'NuEntry')
    if isinstance(t, tuple): return tuple(inst_nu(x) if isinstance(x, (str, tuple)) else x for x in t)
    return t

class NeedMonad(Exception):
    """a construct that can raise was met while translating in pure mode"""

# attribute tables: (type, attribute) -> (lean code of `{0}.attr`, type)
ATTR = {
    ('Graph', 'demes'): ('{0}.demes', L('GDeme')), ('Graph', 'pulses'): ('{0}.pulses', L('GPulse')), ('Graph', 'migrations'): ('{0}.migs', L('GMig')),
    ('GDeme', 'epochs'): ('(epochsOf {0}.start {0}.epochs)', L('Epoch')), ('GDeme', 'start_time'): ('{0}.start', TIME), ('GDeme', 'name'): ('{0}.name', NAME_T),
    ('GDeme', 'end_time'): ('{0}.endTime', TIME),
    ('Epoch', 'start_time'): ('{0}.st', TIME), ('Epoch', 'end_time'): ('{0}.et', TIME),
    ('GPulse', 'time'): ('{0}.time', RAT), ('GMig', 'start_time'): ('{0}.st', TIME), ('GMig', 'end_time'): ('{0}.et', RAT),
    ('LPulse', 'sources'): ('{0}.sources', L(NAME_T)), ('LPulse', 'dest'): ('{0}.dest', NAME_T), ('LPulse', 'proportions'): ('{0}.proportions', L(RAT)), ('LPulse', 'time'): ('{0}.time', RAT),
    ('LBranch', 'parent'): ('{0}.parent', NAME_T), ('LBranch', 'child'): ('{0}.child', NAME_T), ('LBranch', 'time'): ('{0}.time', RAT),
    ('LMerge', 'parents'): ('{0}.parents', L(NAME_T)), ('LMerge', 'proportions'): ('{0}.proportions', L(RAT)), ('LMerge', 'child'): ('{0}.child', NAME_T), ('LMerge', 'time'): ('{0}.time', RAT),
    ('LSplit', 'parent'): ('{0}.parent', NAME_T), ('LSplit', 'children'): ('{0}.children', L(NAME_T)), ('LSplit', 'time'): ('{0}.time', RAT),
    # g[name].<attr>
    ('DemeRef', 'end_time'): ('({g}.endTimeOf {0})', TIME), ('DemeRef', 'start_time'): ('({g}.startTimeOf {0})', TIME), ('DemeRef', 'epochs'): ('({g}.epochsOfName {0})', L('Epoch')),
}
LIB_KEYS = {'pulses': ('pulses', 'LPulse'), 'branches': ('branches', 'LBranch'), 'mergers': ('mergers', 'LMerge'), 'admixtures': ('admixtures', 'LMerge'), 'splits': ('splits', 'LSplit')}
# event tuples: tag -> (constructor, field types after the tag)
EVENT = {'pulses': ('DEvt.pulses', [L(NAME_T), NAME_T, L(RAT)]), 'branch': ('DEvt.branch', [NAME_T, NAME_T]), 'merge': ('DEvt.merge', [L(NAME_T), L(RAT), NAME_T]),
         'admix': ('DEvt.admix', [L(NAME_T), L(RAT), NAME_T]), 'split': ('DEvt.split', [NAME_T, L(NAME_T)]), 'marginalize': ('DEvt.marginalize', [NAME_T])}
EVENT_ORDER = ['pulses', 'branch', 'merge', 'admix', 'split', 'marginalize']

# ------------------------------------------------------------------------------------------------------ the translator
class Mod:
    """the module being translated: function ASTs of Demes.py, PhiManip.py; specs of the callable helpers"""
    def __init__(self, src, fns, psrc, pfns):
        self.src = src; self.fns = fns; self.psrc = psrc; self.pfns = pfns
        self.counter = [0]
        self.hooks = {}          # id(expression node) -> function(Tr) -> (code, type)
        self.shooks = {}         # id(statement node) -> function(Fn, Tr) -> lines

def bind_call(call, fn, what):
    """Python's argument binding: parameter name -> argument node (or the default's node); missing -> TranslateError"""
    params = [a.arg for a in fn.args.args]
    if fn.args.vararg or fn.args.kwarg or fn.args.kwonlyargs or fn.args.posonlyargs: raise TranslateError('%s: signature of %s' % (what, fn.name))
    if len(call.args) > len(params): raise TranslateError('%s: too many positional arguments for %s' % (what, fn.name))
    if any(isinstance(a, ast.Starred) for a in call.args): raise TranslateError('%s: *args in a call of %s' % (what, fn.name))
    bound = {}
    for p, a in zip(params, call.args): bound[p] = a
    for kw in call.keywords:
        if kw.arg is None: raise TranslateError('%s: **kwargs in a call of %s' % (what, fn.name))
        if kw.arg not in params: raise TranslateError('%s: %s has no parameter %s' % (what, fn.name, kw.arg))
        if kw.arg in bound: raise TranslateError('%s: %s given twice to %s' % (what, kw.arg, fn.name))
        bound[kw.arg] = kw.value
    defaults = dict(zip(params[len(params) - len(fn.args.defaults):], fn.args.defaults))
    for p in params:
        if p not in bound:
            if p not in defaults: raise TranslateError('%s: call of %s misses the argument %s' % (what, fn.name, p))
            bound[p] = defaults[p]
    return bound

# helpers defined in Demes.py and translated here (or modelled in Model/DemesPy.lean): python name -> (lean name, [(param, type)], return type, can raise)
HELPERS = {
    '_sizes_at_time': ('sizesAtTime', [('g', 'Graph'), ('deme_id', NAME_T), ('time_interval', IV)], SIZES, True),
    '_migration_rate_in_interval': ('migrationRateInInterval', [('g', 'Graph'), ('source', NAME_T), ('dest', NAME_T), ('time_interval', IV)], RAT, False),
    '_make_nu_func': ('makeNuFunc', [('sizes', L(SIZES)), ('T', RAT), ('Ne', RAT)], L('NuEntry'), True),
    '_get_root_Ne': ('rootNe', [('g', 'Graph')], RAT, True),
    '_get_demographic_events': ('getDemographicEvents', [('g', 'Graph'), ('demes_demo_events', 'LibEvents'), ('sampled_pops', L(NAME_T))], P(DD(TIME, 'DEvt'), DD(IV, NAME_T)), True),
    '_get_integration_parameters': ('getIntegrationParameters', [('g', 'Graph'), ('demes_present', DD(IV, NAME_T)), ('frozen_list', L(NAME_T)), ('Ne', OPT(RAT))],
                                    P(L(L('NuEntry')), L(MAT), L(RAT), L(L(BOOL))), True),
    '_integrate_phi': ('integratePhi', [('phi', PHI), ('xx', OPQ), ('integration_params', IPAR), ('pop_ids', L(NAME_T))], PHI, True),
    '_apply_event': ('applyEvent', [('phi', PHI), ('xx', OPQ), ('pop_ids', L(NAME_T)), ('event', 'DEvt'), ('interval', TIME), ('sample_sizes', OPQ), ('demes_present', DD(IV, NAME_T))],
                     P(PHI, L(NAME_T)), True),
    '_compute_sfs': ('computeSfs', [('demo_events', DD(TIME, 'DEvt')), ('demes_present', DD(IV, NAME_T)), ('sample_sizes', OPQ), ('nu_funcs', L(L(NU))), ('migration_matrices', L(MAT)),
                                    ('integration_times', L(RAT)), ('frozen_demes', L(L(BOOL))), ('pts', OPQ), ('theta', RAT), ('gamma', OPT(RAT)), ('h', OPT(RAT))],
                     P(PHI, OPQ, L(NAME_T)), True),
    # helpers recorded as one call of the history (their own tables are the subject of C16_wiring_split / _admix / _parents)
    '_split_phi': ('PCall.split', [('phi', PHI), ('xx', OPQ), ('pop_ids', L(NAME_T)), ('parent', NAME_T), ('new_pop_ids', L(NAME_T))], PHI, False),
    '_admix_new_pop_phi': ('PCall.admixNew', [('phi', PHI), ('xx', OPQ), ('proportions', L(RAT)), ('pop_ids', L(NAME_T)), ('parents', L(NAME_T)), ('new_pop_ids', L(NAME_T))], PHI, False),
    '_admix_phi': ('PCall.admix', [('phi', PHI), ('xx', OPQ), ('proportions', L(RAT)), ('pop_ids', L(NAME_T)), ('sources', L(NAME_T)), ('dest', NAME_T)], PHI, False),
}
TRACE_HELPERS = {'_split_phi', '_admix_new_pop_phi', '_admix_phi'}
# numerical primitives: python callee -> (module dict key, constructor, [(param, type)] recorded in this order, defaults allowed)
PRIMS = {
    'dadi.PhiManip.remove_pop': ('PCall.removePop', [('popnum', NAT)]),
    'dadi.PhiManip.reorder_pops': ('PCall.reorder', [('neworder', L(NAT))]),
}

def erase(t):
    """a tuple type without its opaque components"""
    if isinstance(t, tuple) and t[0] == 'Prod':
        keep = [x for x in t[1] if x != OPQ]
        return keep[0] if len(keep) == 1 else ('Prod', tuple(keep))
    return t

class Tr:
    def __init__(self, mod, what, env, monad=True, tags=None, gname='g'):
        self.mod = mod; self.what = what
        self.env = dict(env)            # python name (or textual key such as 'event[1]') -> (lean code, type)
        self.monad = monad
        self.pre = []                   # do-lines to emit before the statement being translated
        self.tags = dict(tags or {})    # name of a variable holding `event[0]` -> the known tag (inside a `match` arm) or None
        self.gname = gname
    def err(self, msg):
        return TranslateError('%s: %s' % (self.what, msg))
    def child(self, env_add=None, monad=None):
        c = Tr(self.mod, self.what, self.env, self.monad if monad is None else monad, self.tags, self.gname)
        if env_add: c.env.update(env_add)
        return c
    def fresh(self, stem='t'):
        self.mod.counter[0] += 1
        return '%s%d' % (stem, self.mod.counter[0])
    def partial(self, code, ty):
        """bind an expression that can raise; returns the temporary's name"""
        if not self.monad: raise NeedMonad()
        t = self.fresh()
        self.pre.append('let %s : %s ← %s' % (t, lean_ty(ty), code))
        return t
    def coerce(self, code, ty, want):
        if want is None or ty == want: return code, ty
        if inst_nu(ty) == inst_nu(want): return code, ty
        if ty == RAT and want == TIME: return '(some %s)' % code, TIME
        if ty == 'TimeSet' and want == L(TIME): return code, want
        if ty == ('List', None) and isinstance(want, tuple) and want[0] in ('List', 'DD'): return '[]', want
        if ty == ('List', None) and want == 'TimeSet': return '[]', want
        raise self.err('type %r where %r is expected (%s)' % (ty, want, code[:60]))
    # ---------------------------------------------------------------- expressions
    def ex(self, node, want=None):
        code, ty = self._ex(node, want)
        return self.coerce(code, ty, want)
    def _ex(self, node, want):
        if id(node) in self.mod.hooks: return self.mod.hooks[id(node)](self)
        key = _q(_n(node))
        if key in self.env: return self.env[key]
        if isinstance(node, ast.Constant):
            v = node.value
            if isinstance(v, bool): return ('true' if v else 'false'), BOOL
            if isinstance(v, int):
                if want in (RAT, TIME): return '(%d : Rat)' % v, RAT
                return '%d' % v, NAT
            if isinstance(v, float): return T.lit(repr(v)), RAT
            raise self.err('constant %r' % (v,))
        if key in ('math.inf', "float('inf')", 'np.inf', 'numpy.inf'): return '(none : ETime)', TIME
        if isinstance(node, ast.Name):
            raise self.err('unbound name %s' % node.id)
        if isinstance(node, ast.Attribute): return self.attribute(node)
        if isinstance(node, ast.Subscript): return self.subscript(node, want)
        if isinstance(node, ast.BinOp): return self.binop(node, want)
        if isinstance(node, ast.Compare): return self.compare(node), BOOL
        if isinstance(node, ast.BoolOp):
            op = ' && ' if isinstance(node.op, ast.And) else ' || '
            return '(' + op.join(self.ex(v, BOOL)[0] for v in node.values) + ')', BOOL
        if isinstance(node, ast.UnaryOp) and isinstance(node.op, ast.Not):
            return '(!%s)' % self.ex(node.operand, BOOL)[0], BOOL
        if isinstance(node, ast.Call): return self.call(node, want)
        if isinstance(node, ast.ListComp): return self.listcomp(node, want)
        if isinstance(node, ast.List): return self.listlit(node, want)
        if isinstance(node, ast.Tuple): return self.tuplelit(node, want)
        raise self.err('expression %s' % key[:80])
    def attribute(self, node):
        base, bty = self.base_of(node.value)
        k = (bty, node.attr)
        if k not in ATTR: raise self.err('attribute %s of a %r' % (node.attr, bty))
        fmt, ty = ATTR[k]
        return fmt.format(base, g=self.gname), ty
    def base_of(self, node):
        """value whose attribute / item is read; `g[name]` is the pseudo-object DemeRef"""
        if isinstance(node, ast.Subscript) and isinstance(node.value, ast.Name) and self.env.get(node.value.id, (None, None))[1] == 'Graph':
            nm, _ = self.ex(node.slice, NAME_T)
            return nm, 'DemeRef'
        return self.ex(node)
    def subscript(self, node, want):
        sl = node.slice
        if isinstance(sl, ast.Slice): return self.slice(node)
        # sorted(...)[::-1] handled in slice(); here: indexing
        base, bty = self.base_of(node.value)
        if bty == 'LibEvents':
            if not (isinstance(sl, ast.Constant) and sl.value in LIB_KEYS): raise self.err('key %s of the discrete events' % _n(sl))
            f, ety = LIB_KEYS[sl.value]
            return '%s.%s' % (base, f), L(ety)
        if isinstance(bty, tuple) and bty[0] == 'Prod':
            k = sl.value if isinstance(sl, ast.Constant) else (-sl.operand.value if isinstance(sl, ast.UnaryOp) and isinstance(sl.op, ast.USub) and isinstance(sl.operand, ast.Constant) else None)
            if isinstance(k, int) and k < 0: k += len(bty[1])
            if not (isinstance(k, int) and not isinstance(k, bool) and 0 <= k < len(bty[1])): raise self.err('index %s of a tuple' % _n(sl))
            return proj(base, k, len(bty[1])), bty[1][k]
        if isinstance(bty, tuple) and bty[0] == 'DD':
            k, _ = self.ex(sl, bty[1])
            return '(ddGet %s %s)' % (base, k), L(bty[2])
        if isinstance(bty, tuple) and bty[0] == 'List':
            i, _ = self.ex(sl, NAT)
            return self.partial('%s[%s]?' % (base, i), bty[1]), bty[1]
        raise self.err('subscript %s of a %r' % (_n(sl), bty))
    def slice(self, node):
        sl = node.slice
        lo, hi, st = (None if x is None else _n(x) for x in (sl.lower, sl.upper, sl.step))
        # sorted(<dict with interval keys>.items())[::-1] / sorted(list(<dict>.keys()))[::-1]
        if (lo, hi, st) == (None, None, '-1') and isinstance(node.value, ast.Call) and _n(node.value.func) == 'sorted' and len(node.value.args) == 1 and not node.value.keywords:
            a = node.value.args[0]
            inner = a.args[0] if (isinstance(a, ast.Call) and _n(a.func) == 'list' and len(a.args) == 1) else a
            if isinstance(inner, ast.Call) and isinstance(inner.func, ast.Attribute) and inner.func.attr in ('items', 'keys') and not inner.args:
                d, dty = self.ex(inner.func.value)
                if isinstance(dty, tuple) and dty[0] == 'DD' and dty[1] == IV:
                    if inner.func.attr == 'items': return '(pySortedItemsDesc %s)' % d, L(P(IV, L(dty[2])))
                    return '(pySortedKeysDesc (ddKeys %s))' % d, L(IV)
        base, bty = self.ex(node.value)
        if not (isinstance(bty, tuple) and bty[0] == 'List'): raise self.err('slice of a %r' % (bty,))
        if (lo, hi, st) == (None, None, '-1'): return '%s.reverse' % base if re.match(r'^[\w.]+$|^\(.*\)$', base) else '(%s).reverse' % base, bty
        if (lo, hi, st) == ('-1', '0', '-1'): return '(pyRevDropFirst %s)' % base, bty
        if (lo, hi, st) == ('-2', None, '-1'): return '(pyRevDropLast %s)' % base, bty
        if st is None and lo is None and hi == '-1': return '%s.dropLast' % base, bty
        if st is None and lo is None and hi is not None:
            h, _ = self.ex(sl.upper, NAT); return '(%s.take %s)' % (base, h), bty
        if st is None and hi is None and lo is not None:
            l_, _ = self.ex(sl.lower, NAT); return '(%s.drop %s)' % (base, l_), bty
        raise self.err('slice %s' % _n(node))
    def binop(self, node, want):
        a, ta = self.ex(node.left, want if want in (RAT, NAT) else None)
        if isinstance(node.op, ast.Add) and isinstance(ta, tuple) and ta[0] == 'List':
            b, tb = self.ex(node.right, ta)
            return '(%s ++ %s)' % (a, b), ta
        b, tb = self.ex(node.right, ta if ta in (RAT, NAT) else None)
        if ta != tb or ta not in (RAT, NAT): raise self.err('arithmetic on %r and %r' % (ta, tb))
        ops = {ast.Add: '+', ast.Sub: '-', ast.Mult: '*', ast.Div: '/'}
        if type(node.op) not in ops or (isinstance(node.op, ast.Div) and ta == NAT): raise self.err('operator in %s' % _n(node))
        return '(%s %s %s)' % (a, ops[type(node.op)], b), ta
    def compare(self, node):
        if len(node.ops) != 1: raise self.err('chained comparison')
        op, l_, r_ = node.ops[0], node.left, node.comparators[0]
        if isinstance(op, (ast.Is, ast.IsNot)) and isinstance(r_, ast.Constant) and r_.value is None:
            a, ta = self.ex(l_)
            if not (isinstance(ta, tuple) and ta[0] == 'Opt'): raise self.err('`is None` on a %r' % (ta,))
            return '(%s.isNone)' % a if isinstance(op, ast.Is) else '(%s.isSome)' % a
        if isinstance(op, (ast.In, ast.NotIn)):
            # tag test `e in ["admix", "merge"]` is resolved by the match translation; here membership in a list
            c, tc = self.ex(r_)
            if not (isinstance(tc, tuple) and tc[0] == 'List'): raise self.err('membership in a %r' % (tc,))
            a, _ = self.ex(l_, tc[1])
            e = '(%s.contains %s)' % (c, a)
            return e if isinstance(op, ast.In) else '(!%s)' % e
        a, ta = self.ex(l_)
        if ta == 'SizeFn' and isinstance(r_, ast.Constant) and r_.value in ('constant', 'linear', 'exponential') and isinstance(op, (ast.Eq, ast.NotEq)):
            e = '(%s == SizeFn.%s)' % (a, r_.value)
            return e if isinstance(op, ast.Eq) else '(!%s)' % e
        b, tb = self.ex(r_, ta)
        if ta == TIME:
            m = {ast.GtE: '(tge %s %s)', ast.LtE: '(tle %s %s)', ast.Eq: '(teq %s %s)', ast.NotEq: '(!teq %s %s)', ast.Gt: '(tgt %s %s)', ast.Lt: '(tgt %s %s)'}
            if isinstance(op, ast.Lt): a, b = b, a
            if type(op) not in m: raise self.err('comparison %s' % _n(node))
            return m[type(op)] % (a, b)
        if ta in (RAT, NAT):
            m = {ast.GtE: '≥', ast.LtE: '≤', ast.Gt: '>', ast.Lt: '<'}
            if type(op) in m: return '(decide (%s %s %s))' % (a, m[type(op)], b)
        if isinstance(op, ast.Eq): return '(%s == %s)' % (a, b)
        if isinstance(op, ast.NotEq): return '(%s != %s)' % (a, b)
        raise self.err('comparison %s' % _n(node))
    def listlit(self, node, want):
        if want == IPAR:
            # integration_params = [nu, T, M, gamma_int, h_int, theta, frozen]: the k-th element is the k-th name `_integrate_phi` unpacks
            flds = [('nu', L(NU)), ('T', RAT), ('M', MAT), ('gamma', L(RAT)), ('h', L(RAT)), ('theta', RAT), ('frozen', L(BOOL))]
            if len(node.elts) != len(flds): raise self.err('integration_params has %d entries' % len(node.elts))
            return '{ ' + ', '.join('%s := %s' % (f, self.ex(e, t)[0]) for (f, t), e in zip(flds, node.elts)) + ' }', IPAR
        if not node.elts:
            return '[]', ('List', None)
        ety = want[1] if isinstance(want, tuple) and want[0] == 'List' else None
        items = []
        for e in node.elts:
            c, t = self.ex(e, ety); ety = t; items.append(c)
        return '[' + ', '.join(items) + ']', L(ety)
    def tuplelit(self, node, want):
        if node.elts and isinstance(node.elts[0], ast.Constant) and node.elts[0].value in EVENT:
            ctor, ftys = EVENT[node.elts[0].value]
            if len(node.elts) != len(ftys) + 1: raise self.err('event tuple %s' % _n(node))
            return '(%s %s)' % (ctor, ' '.join(self.ex(e, t)[0] for e, t in zip(node.elts[1:], ftys))), 'DEvt'
        items = [self.ex(e) for e in node.elts]
        items = [(c, t) for c, t in items if t != OPQ]
        if len(items) == 1: return items[0]
        return '(' + ', '.join(c for c, _ in items) + ')', P(*[t for _, t in items])
    def listcomp(self, node, want):
        if len(node.generators) != 1 or node.generators[0].ifs or node.generators[0].is_async: raise self.err('comprehension %s' % _n(node)[:60])
        gen = node.generators[0]
        it, ity = self.ex(gen.iter)
        if not (isinstance(ity, tuple) and ity[0] == 'List'): raise self.err('comprehension over a %r' % (ity,))
        v = self.fresh('x')
        add = self.bind_target(gen.target, v, ity[1])
        sub = self.child(add)
        sub.pre = []
        try:
            body, bty = sub.ex(node.elt, want[1] if isinstance(want, tuple) and want[0] == 'List' else None)
        except NeedMonad:
            raise
        if sub.pre:
            code = '(%s.mapM fun (%s : %s) => do\n      %s\n      pure %s)' % (it, v, lean_ty(ity[1]), '\n      '.join(sub.pre), body)
            return self.partial(code, L(bty)), L(bty)
        return '(%s.map fun (%s : %s) => %s)' % (it, v, lean_ty(ity[1]), body), L(bty)
    def bind_target(self, target, var, ty):
        """loop / comprehension target bound to the Lean variable `var` of type `ty`: environment additions (projections for tuples)"""
        if isinstance(target, ast.Name):
            if target.id == '_': return {}
            return {target.id: (var, ty)}
        if isinstance(target, ast.Tuple) and isinstance(ty, tuple) and ty[0] == 'Prod' and len(target.elts) == len(ty[1]):
            add = {}
            for i, (e, t) in enumerate(zip(target.elts, ty[1])):
                add.update(self.bind_target(e, proj(var, i, len(ty[1])), t))
            return add
        raise self.err('loop target %s over elements of type %r' % (_n(target), ty))
    # ---------------------------------------------------------------- calls
    def call(self, node, want):
        fn = _n(node.func)
        args = node.args
        if fn == 'len' and len(args) == 1 and not node.keywords:
            a, ta = self.ex(args[0])
            if not (isinstance(ta, tuple) and ta[0] == 'List'): raise self.err('len of a %r' % (ta,))
            return '%s.length' % a, NAT
        if fn in ('list', 'copy.copy') and len(args) == 1 and not node.keywords:
            return self.ex(args[0], want)
        if fn == 'set' and not args: return '[]', 'TimeSet'
        if fn == 'defaultdict' and [_n(a) for a in args] == ['list']: return '[]', ('List', None)
        if fn == 'sorted' and len(args) == 1 and not node.keywords:
            a, ta = self.ex(args[0])
            if ta in ('TimeSet', L(TIME)): return '(pySortedSet %s)' % a, L(TIME)
            raise self.err('sorted of a %r (only sets / key lists of times; interval keys only as sorted(...)[::-1])' % (ta,))
        if fn == 'zip' and not node.keywords:
            xs = [self.ex(a) for a in args]
            if not all(isinstance(t, tuple) and t[0] == 'List' for _, t in xs): raise self.err('zip of %r' % ([t for _, t in xs],))
            if len(xs) == 2: return '(List.zip %s %s)' % (xs[0][0], xs[1][0]), L(P(xs[0][1][1], xs[1][1][1]))
            if len(xs) == 5: return '(pyZip5 %s)' % ' '.join(c for c, _ in xs), L(P(*[t[1] for _, t in xs]))
            raise self.err('zip of %d lists' % len(xs))
        if fn == 'enumerate' and len(args) == 1 and not node.keywords:
            a, ta = self.ex(args[0])
            if not (isinstance(ta, tuple) and ta[0] == 'List'): raise self.err('enumerate of a %r' % (ta,))
            return '(pyEnumerate %s)' % a, L(P(NAT, ta[1]))
        if fn == 'np.zeros' and len(args) == 1 and isinstance(args[0], ast.Tuple) and len(args[0].elts) == 2 and not node.keywords:
            return '(pyZeros %s %s)' % (self.ex(args[0].elts[0], NAT)[0], self.ex(args[0].elts[1], NAT)[0]), MAT
        if fn in ('np.all', 'all', 'np.any', 'any') and len(args) == 1 and isinstance(args[0], (ast.ListComp, ast.GeneratorExp)) and not node.keywords:
            lc = args[0]
            if len(lc.generators) != 1 or lc.generators[0].ifs: raise self.err('comprehension in %s' % fn)
            it, ity = self.ex(lc.generators[0].iter)
            if not (isinstance(ity, tuple) and ity[0] == 'List'): raise self.err('%s over a %r' % (fn, ity))
            v = self.fresh('x')
            sub = self.child(self.bind_target(lc.generators[0].target, v, ity[1]), monad=False)
            body, _ = sub.ex(lc.elt, BOOL)
            return '(%s.%s fun (%s : %s) => %s)' % (it, 'all' if fn in ('np.all', 'all') else 'any', v, lean_ty(ity[1]), body), BOOL
        if isinstance(node.func, ast.Attribute) and not node.keywords:
            m = node.func.attr
            if m == 'index' and len(args) == 1:
                b, tb = self.ex(node.func.value)
                if not (isinstance(tb, tuple) and tb[0] == 'List'): raise self.err('index on a %r' % (tb,))
                a, _ = self.ex(args[0], tb[1])
                return self.partial('pyIndex %s %s' % (b, a), NAT), NAT
            if m == 'items' and not args and _n(node.func.value) == '%s.successors()' % self.gname:
                return '%s.successors' % self.gname, L(P(NAME_T, L(NAME_T)))
            if m in ('keys', 'items') and not args:
                b, tb = self.ex(node.func.value)
                if isinstance(tb, tuple) and tb[0] == 'DD':
                    return ('(ddKeys %s)' % b, L(tb[1])) if m == 'keys' else (b, L(P(tb[1], L(tb[2]))))
                if _n(node.func.value) == '%s.successors()' % self.gname and m == 'items': return '%s.successors' % self.gname, L(P(NAME_T, L(NAME_T)))
                raise self.err('%s() of a %r' % (m, tb))
            if m == 'discrete_demographic_events' and not args and _n(node.func.value) == self.gname and 'demes_demo_events::input' in self.env:
                return self.env['demes_demo_events::input']
        if fn == 'dadi.Numerics.default_grid': return '()', OPQ
        if fn in HELPERS: return self.helper_call(node, fn)
        if fn in PRIMS: return self.prim_call(node, fn)
        if fn == 'dadi.PhiManip.phi_1D': return self.phi1d_call(node)
        if fn == 'dadi.Spectrum.from_phi':
            f = None   # signature of Spectrum.from_phi is not read: phi first, pop_ids by keyword (checked here)
            kws = {k.arg: k.value for k in node.keywords}
            if not args or 'pop_ids' not in kws: raise self.err('from_phi call %s' % _n(node)[:80])
            phi, tp = self.ex(args[0], PHI)
            ids, _ = self.ex(kws['pop_ids'], L(NAME_T))
            return '(%s ++ [PCall.fromPhi %s])' % (phi, ids), PHI
        raise self.err('call %s' % _n(node)[:80])
    def helper_call(self, node, fn):
        lean, params, ret, can_raise = HELPERS[fn]
        f = self.mod.fns.get(fn)
        if f is None: raise self.err('%s is not defined in Demes.py' % fn)
        if [a.arg for a in f.args.args] != [p for p, _ in params]:
            raise self.err('signature of %s is %r, the translator knows %r' % (fn, [a.arg for a in f.args.args], [p for p, _ in params]))
        bound = bind_call(node, f, self.what)
        vals = []
        for p, t in params:
            a = bound[p]
            if t == OPQ: continue
            if isinstance(t, tuple) and t[0] == 'Opt':
                if isinstance(a, ast.Constant) and a.value is None: vals.append((p, '(none : %s)' % lean_ty(t))); continue
                c, tc = self.ex(a)
                vals.append((p, c if tc == t else '(some %s)' % self.coerce(c, tc, t[1])[0])); continue
            vals.append((p, self.ex(a, t)[0]))
        if fn in TRACE_HELPERS:
            phi = vals[0][1]
            return '(%s ++ [%s %s])' % (phi, lean, ' '.join(v for _, v in vals[1:])), PHI
        code = '%s %s' % (lean, ' '.join(v for _, v in vals))
        rt = erase(ret)
        if can_raise: return self.partial(code, rt), rt
        return '(%s)' % code, rt
    def prim_call(self, node, fn):
        ctor, rec = PRIMS[fn]
        f = self.mod.pfns.get(fn.split('.')[-1])
        if f is None: raise self.err('%s not found' % fn)
        bound = bind_call(node, f, self.what)
        if 'phi' not in bound: raise self.err('%s has no parameter phi' % fn)
        phi, _ = self.ex(bound['phi'], PHI)
        vals = []
        for p, t in rec:
            if p not in bound: raise self.err('%s has no parameter %s' % (fn, p))
            vals.append(self.ex(bound[p], t)[0])
        return '(%s ++ [%s %s])' % (phi, ctor, ' '.join(vals)), PHI
    def phi1d_call(self, node):
        f = self.mod.pfns.get('phi_1D')
        if f is None: raise self.err('PhiManip.phi_1D not found')
        passed = {k.arg for k in node.keywords} | {a.arg for a, _ in zip(f.args.args, node.args)}
        bound = bind_call(node, f, self.what)
        for p in ('theta', 'beta'):
            if p in passed: raise self.err('phi_1D called with %s' % p)
        def num(p):
            a = bound[p]
            if p not in passed:
                if not (isinstance(a, ast.Constant) and isinstance(a.value, (int, float))): raise self.err('default of phi_1D.%s' % p)
                return T.lit(repr(a.value))
            return self.ex(a, RAT)[0]
        nu = '(some %s)' % self.ex(bound['nu'], NU)[0] if 'nu' in passed else 'none'
        ids = self.ex(bound['deme_ids'], L(NAME_T))[0] if 'deme_ids' in passed else '[]'
        return '[PCall.phi1D %s %s %s %s %s]' % (nu, num('theta0'), num('gamma'), num('h'), ids), PHI
    # ---------------------------------------------------------------- statements
    def is_tagvar(self, node):
        return isinstance(node, ast.Name) and node.id in self.tags
    def tag_test(self, test):
        """`e == "tag"` / `e in ["t1", "t2"]` on a tag variable -> list of tags, else None"""
        if isinstance(test, ast.Compare) and len(test.ops) == 1 and self.is_tagvar(test.left):
            r = test.comparators[0]
            if isinstance(test.ops[0], ast.Eq) and isinstance(r, ast.Constant) and isinstance(r.value, str): return [r.value]
            if isinstance(test.ops[0], ast.In) and isinstance(r, (ast.List, ast.Tuple)) and all(isinstance(e, ast.Constant) and isinstance(e.value, str) for e in r.elts):
                return [e.value for e in r.elts]
            raise self.err('test on the event tag: %s' % _n(test))
        return None

def assigned(stmts):
    """names (re)bound or mutated by the statements, in order of first occurrence"""
    out = []
    def add(n):
        if n not in out: out.append(n)
    def target(t):
        if isinstance(t, ast.Name): add(t.id)
        elif isinstance(t, (ast.Tuple, ast.List)):
            for e in t.elts: target(e)
        elif isinstance(t, ast.Subscript):
            b = t
            while isinstance(b, ast.Subscript): b = b.value
            if isinstance(b, ast.Name): add(b.id)
    def visit(ss):
        for s in ss:
            if isinstance(s, ast.Assign):
                for t in s.targets: target(t)
            elif isinstance(s, ast.AugAssign): target(s.target)
            elif isinstance(s, ast.Expr) and isinstance(s.value, ast.Call) and isinstance(s.value.func, ast.Attribute) \
                    and s.value.func.attr in ('append', 'add', 'pop', 'extend', 'insert', 'remove'):
                b = s.value.func.value
                while isinstance(b, ast.Subscript): b = b.value
                if isinstance(b, ast.Name): add(b.id)
            elif isinstance(s, ast.For):
                target(s.target); visit(s.body); visit(s.orelse)
            elif isinstance(s, ast.If):
                visit(s.body); visit(s.orelse)
            elif isinstance(s, (ast.While, ast.With, ast.Try)):
                raise TranslateError('statement %s outside the closed language' % type(s).__name__)
    visit(stmts)
    return out

class UnboundName(Exception):
    def __init__(self, name): self.name = name

class Fn:
    """translation of one function body"""
    def __init__(self, mod, fn, what, params, ret, monad, gname='g', notes=None):
        self.mod = mod; self.fn = fn; self.what = what; self.params = params; self.ret = ret; self.monad = monad; self.gname = gname
        self.notes = notes if notes is not None else []
        self.all_assigned = set(assigned(fn.body)) | {a.arg for a in fn.args.args}
    def err(self, msg): return TranslateError('%s: %s' % (self.what, msg))
    # a block of statements -> (lines, tr) ; `tr.env` holds the bindings afterwards
    def block(self, stmts, tr):
        lines = []
        for i, s in enumerate(stmts):
            tr.pre = []
            try:
                new = self.stmt(s, tr, stmts[i + 1:])
            except UnboundName as u:
                if u.name in self.all_assigned or u.name in self.mod.fns: raise self.err('name %s used before assignment in %s' % (u.name, _n(s)[:60]))
                if not tr.monad: raise NeedMonad()
                new = ['/- `%s` is not defined when `%s` runs: NameError -/' % (u.name, _one_line(ast.get_source_segment(self.mod.src, s))[:100]),
                       'let _ : Unit ← (none : Option Unit)']
                tr.pre = []
            lines += tr.pre + new
            tr.pre = []
        return lines
    def result(self, tr, names):
        vals = [tr.env[n][0] for n in names]
        return '()' if not vals else (vals[0] if len(vals) == 1 else '(' + ', '.join(vals) + ')')
    def result_ty(self, tr, names):
        tys = [tr.env[n][1] for n in names]
        return 'Unit' if not tys else (tys[0] if len(tys) == 1 else P(*tys))
    def wrap(self, lines, res, monad, ind):
        pad = '\n' + ind + '  '
        if monad:
            return '(do' + pad + pad.join(l.replace('\n', pad) for l in lines + ['pure %s' % res]) + ')'
        if not lines: return res
        return '(' + pad + pad.join(l.replace('\n', pad) for l in lines + [res]) + ')'
    def bind_result(self, tr, names, tys, code, monad):
        """`let <names> := code` after a compound statement; returns lines and rebinds the names"""
        arrow = '←' if monad else ':='
        if not names:
            return ['let _ : Unit %s %s' % (arrow, code)]
        if len(names) == 1:
            tr.env[names[0]] = (lname(names[0]), tys[0])
            return ['let %s : %s %s %s' % (lname(names[0]), lean_ty(tys[0]), arrow, code)]
        r = tr.fresh('r')
        lines = ['let %s : %s %s %s' % (r, lean_ty(P(*tys)), arrow, code)]
        for i, (n, t) in enumerate(zip(names, tys)):
            lines.append('let %s : %s := %s' % (lname(n), lean_ty(t), proj(r, i, len(names))))
            tr.env[n] = (lname(n), t)
        return lines
    def two_modes(self, tr, build):
        """try the pure translation of a compound statement first, the monadic one if something in it can raise"""
        saved = self.mod.counter[0]
        try:
            return build(False)
        except NeedMonad:
            if not tr.monad: raise
            self.mod.counter[0] = saved
            return build(True)
    def ex(self, tr, node, want=None):
        try:
            return tr.ex(node, want)
        except TranslateError as e:
            m = re.search(r'unbound name (\w+)$', str(e))
            if m: raise UnboundName(m.group(1))
            raise
    def stmt(self, s, tr, rest):
        if id(s) in self.mod.shooks: return self.mod.shooks[id(s)](self, tr)
        if isinstance(s, ast.Expr) and isinstance(s.value, ast.Constant) and isinstance(s.value.value, str): return []
        if isinstance(s, ast.Pass): return []
        if isinstance(s, ast.Assert):
            note = '%s: `%s` skipped (an assertion on values the model does not distinguish)' % (self.what, _one_line(ast.get_source_segment(self.mod.src, s)))
            if note not in self.notes: self.notes.append(note)
            return []
        if isinstance(s, ast.Raise):
            if not tr.monad: raise NeedMonad()
            return ['let _ : Unit ← (none : Option Unit)']
        if isinstance(s, ast.Return):
            if rest: raise self.err('return before the end of a block')
            raise self.err('return inside a compound statement')
        if isinstance(s, ast.Assign): return self.assign(s, tr)
        if isinstance(s, ast.Expr) and isinstance(s.value, ast.Call): return self.method_stmt(s.value, tr)
        if isinstance(s, ast.If): return self.if_stmt(s, tr, rest)
        if isinstance(s, ast.For): return self.for_stmt(s, tr, rest)
        raise self.err('statement %s' % _n(s)[:80])
    def let(self, tr, name, code, ty):
        tr.env[name] = (lname(name), ty)
        return 'let %s : %s := %s' % (lname(name), lean_ty(ty), code)
    def assign(self, s, tr):
        if len(s.targets) != 1: raise self.err('chained assignment %s' % _n(s)[:60])
        tg = s.targets[0]
        if isinstance(tg, ast.Name):
            # e = event[0]: the tag of an event tuple
            if isinstance(s.value, ast.Subscript) and _n(s.value.slice) == '0' and isinstance(s.value.value, ast.Name) \
                    and tr.env.get(s.value.value.id, (None, None))[1] == 'DEvt':
                tr.tags[tg.id] = (s.value.value.id, tr.tags.get(tg.id, (None, None))[1] if tg.id in tr.tags else None)
                return []
            want = tr.env[tg.id][1] if tg.id in tr.env else DECL.get((self.fn.name, tg.id))
            code, ty = self.ex(tr, s.value, want)
            if ty == ('List', None): raise self.err('type of the empty list assigned to %s is not declared' % tg.id)
            if ty == OPQ:
                tr.env[tg.id] = ('()', OPQ); return []
            return [self.let(tr, tg.id, code, ty)]
        if isinstance(tg, ast.Tuple) and all(isinstance(e, ast.Name) for e in tg.elts):
            code, ty = self.ex(tr, s.value)
            full = None
            if isinstance(s.value, ast.Call) and _n(s.value.func) in HELPERS: full = HELPERS[_n(s.value.func)][2]
            names = [e.id for e in tg.elts]
            if full is not None and isinstance(full, tuple) and full[0] == 'Prod':
                if len(full[1]) != len(names): raise self.err('unpacking %d values into %d names' % (len(full[1]), len(names)))
                names = [n for n, t in zip(names, full[1]) if t != OPQ]
                for n, t in zip([e.id for e in tg.elts], full[1]):
                    if t == OPQ: tr.env[n] = ('()', OPQ)
            if not (isinstance(ty, tuple) and ty[0] == 'Prod' and len(ty[1]) == len(names)): raise self.err('unpacking a %r into %r' % (ty, names))
            return [self.let(tr, n, proj(code, i, len(names)), t) for i, (n, t) in enumerate(zip(names, ty[1]))]
        if isinstance(tg, ast.Subscript) and isinstance(tg.value, ast.Name) and tr.env.get(tg.value.id, (None, None))[1] == MAT \
                and isinstance(tg.slice, ast.Tuple) and len(tg.slice.elts) == 2:
            i, _ = self.ex(tr, tg.slice.elts[0], NAT); j, _ = self.ex(tr, tg.slice.elts[1], NAT)
            v, _ = self.ex(tr, s.value, RAT)
            return [self.let(tr, tg.value.id, '(matSet %s %s %s %s)' % (tr.env[tg.value.id][0], i, j, v), MAT)]
        raise self.err('assignment %s' % _n(s)[:80])
    def method_stmt(self, c, tr):
        if not isinstance(c.func, ast.Attribute) or c.keywords: raise self.err('expression statement %s' % _n(c)[:60])
        m, obj = c.func.attr, c.func.value
        if isinstance(obj, ast.Name) and obj.id in tr.env:
            code, ty = tr.env[obj.id]
            if m == 'append' and len(c.args) == 1 and isinstance(ty, tuple) and ty[0] == 'List':
                v, _ = self.ex(tr, c.args[0], ty[1])
                return [self.let(tr, obj.id, '%s ++ [%s]' % (code, v), ty)]
            if m == 'add' and len(c.args) == 1 and ty == 'TimeSet':
                v, _ = self.ex(tr, c.args[0], TIME)
                return [self.let(tr, obj.id, 'pySetAdd %s %s' % (code, v), ty)]
            if m == 'pop' and len(c.args) == 1 and isinstance(ty, tuple) and ty[0] == 'List':
                i, _ = self.ex(tr, c.args[0], NAT)
                return [self.let(tr, obj.id, '%s.eraseIdx %s' % (code, i), ty)]
        if isinstance(obj, ast.Subscript) and isinstance(obj.value, ast.Name) and obj.value.id in tr.env and m == 'append' and len(c.args) == 1:
            code, ty = tr.env[obj.value.id]
            if isinstance(ty, tuple) and ty[0] == 'DD':
                k, _ = self.ex(tr, obj.slice, ty[1]); v, _ = self.ex(tr, c.args[0], ty[2])
                return [self.let(tr, obj.value.id, 'ddAppend %s %s %s' % (code, k, v), ty)]
        raise self.err('expression statement %s' % _n(c)[:80])
    # ---------------------------------------------------------------- if / match / for
    def carried_if(self, tr, branches):
        """variables that survive a compound statement: assigned in some branch and bound before, or assigned in every branch"""
        order = []
        for b in branches:
            for n in assigned(b):
                if n not in order: order.append(n)
        res = []
        for n in order:
            if n in tr.tags: continue
            if n in tr.env: res.append(n)
            elif all(n in assigned(b) or self.only_raises(b) for b in branches): res.append(n)
        return res
    def only_raises(self, stmts):
        return len(stmts) >= 1 and isinstance(stmts[-1], ast.Raise)
    def branch(self, tr, stmts, carried, monad, ind, tags=None):
        c = tr.child(monad=monad)
        if tags: c.tags.update(tags)
        lines = self.block(stmts, c)
        missing = [n for n in carried if n not in c.env]
        if missing:
            if self.only_raises(stmts):
                # the branch never falls through: any value of the right type will do; use the default
                raise self.err('a raising branch leaves %r unbound' % missing)
            raise self.err('branch leaves %r unbound' % missing)
        return self.wrap(lines, self.result(c, carried), monad, ind), c
    def if_stmt(self, s, tr, rest):
        tags = tr.tag_test(s.test)
        if tags is not None:
            var = s.test.left.id
            known = tr.tags[var][1]
            if known is not None:
                # inside a `match` arm the tag is known: only the taken branch is translated
                taken = s.body if known in tags else s.orelse
                return self.block(taken, tr)
            return self.match_stmt(s, tr, var)
        # `if X is None: X = E` on an optional parameter
        if isinstance(s.test, ast.Compare) and len(s.test.ops) == 1 and isinstance(s.test.ops[0], ast.Is) and isinstance(s.test.left, ast.Name) \
                and isinstance(s.test.comparators[0], ast.Constant) and s.test.comparators[0].value is None and not s.orelse and len(s.body) == 1 \
                and isinstance(s.body[0], ast.Assign) and _n(s.body[0].targets[0]) == s.test.left.id and s.test.left.id in tr.env:
            x = s.test.left.id
            code, ty = tr.env[x]
            if isinstance(ty, tuple) and ty[0] == 'Opt':
                def build(monad):
                    c = tr.child(monad=monad); c.pre = []
                    v, _ = self.ex(c, s.body[0].value, ty[1])
                    if monad:
                        inner = self.wrap(c.pre, v, True, '  ')
                        return ['let %s : %s ← (match %s with\n    | none => %s\n    | some v => some v)' % (lname(x), lean_ty(ty[1]), code, inner)]
                    return ['let %s : %s := (match %s with | none => %s | some v => v)' % (lname(x), lean_ty(ty[1]), code, v)]
                lines = self.two_modes(tr, build)
                tr.env[x] = (lname(x), ty[1])
                return lines
        # `if c: raise`
        if not s.orelse and len(s.body) == 1 and isinstance(s.body[0], ast.Raise):
            if not tr.monad: raise NeedMonad()
            c, _ = self.ex(tr, s.test, BOOL)
            return ['let _ : Unit ← pyRaiseIf %s' % c]
        carried = self.carried_if(tr, [s.body, s.orelse])
        def build(monad):
            t = tr.child(monad=monad); t.pre = []
            cond, _ = self.ex(t, s.test, BOOL)
            a, ca = self.branch(tr, s.body, carried, monad, '  ')
            b, cb = self.branch(tr, s.orelse, carried, monad, '  ')
            tys = [ca.env[n][1] for n in carried]
            if [cb.env[n][1] for n in carried] != tys: raise self.err('branches of `if %s` give different types to %r' % (_n(s.test)[:40], carried))
            pre = list(t.pre)
            return pre + self.bind_result(tr, carried, tys, '(if %s then %s else %s)' % (cond, a, b), monad)
        return self.two_modes(tr, build)
    def match_stmt(self, s, tr, var):
        """if/elif chain on the tag of an event tuple -> `match event with` (one arm per constructor, in the order of `DEvt`)"""
        ev = tr.tags[var][0]
        chain = []; cur = s
        while True:
            tg = tr.tag_test(cur.test)
            if tg is None: raise self.err('test %s inside a chain on the event tag' % _n(cur.test))
            chain.append((tg, cur.body))
            if len(cur.orelse) == 1 and isinstance(cur.orelse[0], ast.If) and tr.tag_test(cur.orelse[0].test) is not None: cur = cur.orelse[0]
            else:
                default = cur.orelse; break
        for tg, _ in chain:
            for t_ in tg:
                if t_ not in EVENT: raise self.err('unknown event tag %r' % t_)
        if not tr.monad: raise NeedMonad()
        bodies = {}
        for t_ in EVENT_ORDER:
            hit = [b for tg, b in chain if t_ in tg]
            bodies[t_] = hit[0] if hit else default
        carried = self.carried_if(tr, list(bodies.values()))
        arms = []; tys = None
        for t_ in EVENT_ORDER:
            ctor, ftys = EVENT[t_]
            fv = ['%s_%d' % (ev, i + 1) for i in range(len(ftys))]
            c = tr.child(monad=True)
            for i, (v, ft) in enumerate(zip(fv, ftys)): c.env['%s[%d]' % (ev, i + 1)] = (v, ft)
            c.tags[var] = (ev, t_)
            lines = self.block(bodies[t_], c)
            if self.only_raises(bodies[t_]) and any(n not in c.env for n in carried):
                arms.append('| %s %s => none' % (ctor, ' '.join('_' for _ in fv))); continue
            ty_here = [c.env[n][1] for n in carried]
            if tys is None: tys = ty_here
            elif tys != ty_here: raise self.err('arms of the tag dispatch give different types to %r' % carried)
            used = set(re.findall(r'\b%s_\d+\b' % re.escape(ev), '\n'.join(lines)))
            arms.append('| %s %s => %s' % (ctor, ' '.join(v if v in used else '_' for v in fv), self.wrap(lines, self.result(c, carried), True, '    ')))
        code = '(match %s with\n    %s)' % (tr.env[ev][0], '\n    '.join(arms))
        return self.bind_result(tr, carried, tys, code, True)
    def for_stmt(self, s, tr, rest):
        if s.orelse: raise self.err('for … else')
        carried = [n for n in assigned(s.body) if n in tr.env and n not in tr.tags]
        tvars = assigned([ast.Assign(targets=[s.target], value=ast.Constant(0))])
        local = [n for n in assigned(s.body) + tvars if n not in carried]
        for n in local:
            for st in rest:
                if any(isinstance(x, ast.Name) and x.id == n and isinstance(x.ctx, ast.Load) for x in ast.walk(st)) and n not in assigned([st]):
                    raise self.err('%s is bound inside a loop and read after it' % n)
        def build(monad):
            t = tr.child(monad=monad); t.pre = []
            it, ity = self.ex(t, s.iter)
            if ity == 'TimeSet' or not (isinstance(ity, tuple) and ity[0] == 'List'): raise self.err('loop over a %r' % (ity,))
            x = lname(s.target.id) if isinstance(s.target, ast.Name) and s.target.id not in tr.env else tr.fresh('p')
            c = tr.child(tr.bind_target(s.target, x, ity[1]), monad=monad)
            tys = [tr.env[n][1] for n in carried]
            head = []
            if len(carried) == 1:
                acc = lname(carried[0])
            elif not carried:
                acc = '_'
            else:
                acc = tr.fresh('acc')
                for i, (n, ty) in enumerate(zip(carried, tys)):
                    head.append('let %s : %s := %s' % (lname(n), lean_ty(ty), proj(acc, i, len(carried))))
            for n, ty in zip(carried, tys): c.env[n] = (lname(n), ty)
            lines = head + self.block(s.body, c)
            for n, ty in zip(carried, tys):
                if c.env[n][1] != ty: raise self.err('loop changes the type of %s' % n)
            aty = lean_ty(self.result_ty(tr, carried)) if carried else 'Unit'
            body = self.wrap(lines, self.result(c, carried), monad, '  ')
            if monad: body = body[1:-1]                     # `fun … => do …`
            init = self.result(tr, carried)
            code = '(%s).%s (fun (%s : %s) (%s : %s) => %s) %s' % (it, 'foldlM' if monad else 'foldl', acc, aty, x, lean_ty(ity[1]), body, init)
            return list(t.pre) + self.bind_result(tr, carried, tys, code, monad)
        return self.two_modes(tr, build)
    # ---------------------------------------------------------------- the whole function
    def translate(self, lean_name, body=None, doc='', extra_env=None, tyvars=False):
        body = list(self.fn.body if body is None else body)
        tr = Tr(self.mod, self.what, {}, monad=self.monad, gname=self.gname)
        sig = []
        for p, t in self.params:
            if t == OPQ: tr.env[p] = ('()', OPQ); continue
            tr.env[p] = (lname(p), t)
            sig.append('(%s : %s)' % (lname(p), lean_ty(t)))
        if extra_env: tr.env.update(extra_env)
        if not body or not isinstance(body[-1], ast.Return): raise self.err('the last statement is not a return')
        lines = self.block(body[:-1], tr)
        tr.pre = []
        try:
            res, rty = tr.ex(body[-1].value, erase(self.ret))
        except TranslateError as e:
            raise
        lines += tr.pre
        rt = lean_ty(erase(self.ret))
        head = 'def %s %s%s : %s :=' % (lean_name, '{ν : Type} ' if tyvars else '', ' '.join(sig), ('Option %s' % lean_ty(erase(self.ret), False)) if self.monad else rt)
        if self.monad:
            text = head + ' do\n  ' + '\n  '.join(l.replace('\n', '\n  ') for l in lines + ['pure %s' % res])
        else:
            text = head + '\n  ' + '\n  '.join(l.replace('\n', '\n  ') for l in lines + [res])
        return ('/-- %s -/\n' % doc if doc else '') + text

# declared types of the variables a function initialises with an empty container (the element type cannot be read off `[]`)
DECL = {
    ('_get_integration_parameters', 'nu_funcs'): L(L('NuEntry')), ('_get_integration_parameters', 'integration_times'): L(RAT),
    ('_get_integration_parameters', 'migration_matrices'): L(MAT), ('_get_integration_parameters', 'frozen_demes'): L(L(BOOL)),
    ('_get_integration_parameters', 'sizes'): L(SIZES),
    ('_get_demographic_events', 'break_points'): 'TimeSet', ('_get_demographic_events', 'demes_present'): DD(IV, NAME_T),
    ('_get_demographic_events', 'deme_start_times'): DD(TIME, NAME_T), ('_get_demographic_events', 'demo_events'): DD(TIME, 'DEvt'),
    ('_compute_sfs', 'pop_ids'): L(NAME_T), ('_compute_sfs', 'integration_params'): IPAR,
    ('_make_nu_func', 'nu_func'): L('NuEntry'),
}

# ------------------------------------------------------------------------------------------------------ the functions
HEADER = '''/- GENERATED by tools/gen_DemesProg.py from dadi/Demes/Demes.py (and the signatures of dadi/PhiManip.py) — do not edit.  Regenerated on every check. -/
import DadiVerif.Model.DemesPy
set_option linter.unusedVariables false
namespace DadiVerif
namespace Gen.DemesProg
open DadiVerif.DemesConv Gen.Demes
'''

def _strip_doc(body):
    return [s for s in body if not (isinstance(s, ast.Expr) and isinstance(s.value, ast.Constant) and isinstance(s.value.value, str))]

def _functions(path):
    src = open(path).read()
    tree = ast.parse(src)
    return src, {n.name: n for n in tree.body if isinstance(n, ast.FunctionDef)}

def gen_glue(mod, rel):
    out = []
    fn = mod.fns.get('_sizes_at_time')
    if fn is None: raise TranslateError('_sizes_at_time not found')
    body = _strip_doc(fn.body)
    if [a.arg for a in fn.args.args] != ['g', 'deme_id', 'time_interval'] or not isinstance(body[0], ast.For) or _n(body[0].iter) != 'g[deme_id].epochs' \
            or _n(body[-1]) not in ('returnstart_size,end_size,size_function', 'return(start_size,end_size,size_function)') \
            or 'size_function=epoch.size_function' not in [_n(s) for s in body]:
        raise TranslateError('_sizes_at_time: shape (search loop over g[deme_id].epochs, size_function = epoch.size_function, return start_size, end_size, size_function)')
    out.append('/-- %s:%d `_sizes_at_time(g, deme_id, time_interval)`: the epoch search loop (`epochSearch`), then the translated body (`sizesAt`);\n'
               '    returns `(start_size, end_size, size_function)` -/' % (rel, fn.lineno))
    out.append('def sizesAtTime (g : Graph InEpoch) (deme_id : DName) (time_interval : ETime × ETime) : Option (Sym × Sym × SizeFn) := do\n'
               '  let epoch : Epoch ← epochSearch (g.epochsOfName deme_id) time_interval.1 time_interval.2\n'
               '  let r : Sym × Sym ← sizesAt epoch.fn epoch.ss epoch.es epoch.st epoch.et epoch.span time_interval.1 time_interval.2\n'
               '  pure (r.1, r.2, epoch.fn)')
    fn = mod.fns.get('_migration_rate_in_interval')
    if fn is None: raise TranslateError('_migration_rate_in_interval not found')
    body = _strip_doc(fn.body)
    if [a.arg for a in fn.args.args] != ['g', 'source', 'dest', 'time_interval'] or len(body) != 3 or _n(body[0].targets[0] if isinstance(body[0], ast.Assign) else body[0]) != 'rate' \
            or not isinstance(body[1], ast.For) or _n(body[1].iter) != 'g.migrations' or _n(body[1].target) != 'mig' or _n(body[2]) != 'returnrate':
        raise TranslateError('_migration_rate_in_interval: shape')
    out.append('/-- %s:%d `_migration_rate_in_interval(g, source, dest, time_interval)`: `rate = …` (`migRateInit`), one `migRateStep` per element of `g.migrations`, `return rate` -/' % (rel, fn.lineno))
    out.append('def migrationRateInInterval (g : Graph InEpoch) (source dest : DName) (time_interval : ETime × ETime) : Rat :=\n'
               '  g.migs.foldl (fun rate mig => migRateStep rate mig source dest time_interval.1 time_interval.2) migRateInit')
    return out

def gen_make_nu_func(mod, rel, notes):
    fn = mod.fns.get('_make_nu_func')
    if fn is None: raise TranslateError('_make_nu_func not found')
    # the formulas themselves are `nuConstList`, `nuConstFn`, `nuLinear`, `nuExp` of Generated/Demes.lean (tools/gen_Demes.py checks the lambdas'
    # parameters and defaults); here: which entry each branch appends, in which order, and what the closure captures
    for node in ast.walk(fn):
        if isinstance(node, ast.If) and _q(_n(node.test)) == "np.all([s[-1]=='constant'forsinsizes])":
            if len(node.body) == 1 and isinstance(node.body[0], ast.Assign) and isinstance(node.body[0].value, ast.ListComp):
                lc = node.body[0].value
                tgt = lc.generators[0].target
                if not isinstance(tgt, ast.Name) or _n(lc.elt) != '%s[0]/Ne' % tgt.id: raise TranslateError('_make_nu_func: constant entry %s' % _n(lc.elt))
                def hook(tr, v=tgt.id):
                    n0, t0 = tr.ex(ast.parse('%s[0]' % v, mode='eval').body, 'Sym'); ne, _ = tr.ex(ast.Name(id='Ne', ctx=ast.Load()), RAT)
                    return '(NuEntry.num (nuConstList %s %s))' % (n0, ne), 'NuEntry'
                mod.hooks[id(lc.elt)] = hook
        if isinstance(node, ast.If):
            m = re.match(r"^s\[-1\]=='(constant|linear|exponential)'$", _q(_n(node.test)))
            if not m: continue
            for st in node.body:
                if isinstance(st, ast.Expr) and isinstance(st.value, ast.Call) and _n(st.value.func) == 'nu_func.append' and len(st.value.args) == 1 and isinstance(st.value.args[0], ast.Lambda):
                    lam = st.value.args[0]
                    an = [a.arg for a in lam.args.args]
                    free = {x.id for x in ast.walk(lam.body) if isinstance(x, ast.Name)} - set(an)
                    if not free <= {'Ne', 'T'}: raise TranslateError('_make_nu_func: the %s lambda captures %r' % (m.group(1), sorted(free)))
                    dfl = list(lam.args.defaults)
                    if len(dfl) not in (1, 2) or an[0] != 't': raise TranslateError('_make_nu_func: parameters of the %s lambda' % m.group(1))
                    def hook(tr, kind=m.group(1), dfl=dfl):
                        vals = [tr.ex(d, 'Sym')[0] for d in dfl]
                        if len(vals) == 1: vals = vals * 2
                        return '(NuEntry.lam SizeFn.%s %s %s %s %s)' % (kind, vals[0], vals[1], tr.ex(ast.Name(id='Ne', ctx=ast.Load()), RAT)[0], tr.ex(ast.Name(id='T', ctx=ast.Load()), RAT)[0]), 'NuEntry'
                    mod.hooks[id(lam)] = hook
    f = Fn(mod, fn, '_make_nu_func', HELPERS['_make_nu_func'][1], HELPERS['_make_nu_func'][2], True, notes=notes)
    return f.translate('makeNuFunc', _strip_doc(fn.body), doc='%s:%d `_make_nu_func(sizes, T, Ne)`: a number per deme when all are constant on the interval, else one closure per deme '
                       '(`NuEntry.lam kind N0 NF Ne T`: the lambda of that kind with its captured defaults and the `Ne`, `T` of this call)' % (rel, fn.lineno))

def gen_integration_parameters(mod, rel, notes):
    fn = mod.fns.get('_get_integration_parameters')
    if fn is None: raise TranslateError('_get_integration_parameters not found')
    # `T = (interval[0] - interval[1]) / 2 / Ne` followed by `if T == math.inf: T = 0` is `intTime` of Generated/Demes.lean (arithmetic with inf)
    for node in ast.walk(fn):
        body = getattr(node, 'body', None)
        if not isinstance(body, list): continue
        for a, b in zip(body[:-1], body[1:]):
            if isinstance(a, ast.Assign) and _n(a.targets[0]) == 'T' and _n(b) == 'ifT==math.inf:T=0':
                iv = [x for x in ast.walk(a.value) if isinstance(x, ast.Subscript)]
                if sorted(_n(x) for x in iv) != ['interval[0]', 'interval[1]'] or not any(isinstance(x, ast.Name) and x.id == 'Ne' for x in ast.walk(a.value)):
                    raise TranslateError('_get_integration_parameters: T = %s' % _n(a.value))
                def hook(f, tr):
                    i0, _ = tr.ex(ast.parse('interval[0]', mode='eval').body); i1, _ = tr.ex(ast.parse('interval[1]', mode='eval').body)
                    ne, _ = tr.ex(ast.Name(id='Ne', ctx=ast.Load()), RAT)
                    return [f.let(tr, 'T', 'intTime %s %s %s' % (i0, i1, ne), RAT)]
                mod.shooks[id(a)] = hook
                mod.shooks[id(b)] = lambda f, tr: []
    f = Fn(mod, fn, '_get_integration_parameters', HELPERS['_get_integration_parameters'][1], HELPERS['_get_integration_parameters'][2], True, notes=notes)
    return f.translate('getIntegrationParameters', _strip_doc(fn.body), doc='%s:%d `_get_integration_parameters(g, demes_present, frozen_list, Ne=None)` — statement by statement '
                       '(`T = …; if T == math.inf: T = 0` is `intTime`)' % (rel, fn.lineno))

def gen_demographic_events(mod, rel, notes):
    fn = mod.fns.get('_get_demographic_events')
    if fn is None: raise TranslateError('_get_demographic_events not found')
    f = Fn(mod, fn, '_get_demographic_events', HELPERS['_get_demographic_events'][1], HELPERS['_get_demographic_events'][2], True, notes=notes)
    return f.translate('getDemographicEvents', _strip_doc(fn.body), doc='%s:%d `_get_demographic_events(g, demes_demo_events, sampled_pops)` — statement by statement; returns '
                       '`(demo_events, demes_present)`' % (rel, fn.lineno))

def gen_integrate_phi(mod, rel):
    fn = mod.fns.get('_integrate_phi')
    if fn is None: raise TranslateError('_integrate_phi not found')
    if [a.arg for a in fn.args.args] != ['phi', 'xx', 'integration_params', 'pop_ids']: raise TranslateError('_integrate_phi signature')
    body = _strip_doc(fn.body)
    if _n(body[0]) not in ('nu,T,M,gamma,h,theta,frozen=integration_params', '(nu,T,M,gamma,h,theta,frozen)=integration_params') or _n(body[-1]) != 'returnphi':
        raise TranslateError('_integrate_phi: unpacking of integration_params / return')
    # every other statement is a branch `[el]if len(pop_ids) == n: phi = dadi.Integration.<f>(…)` (tools/gen_Demes.py: table `integCalls`, first match wins)
    return ('/-- %s:%d `_integrate_phi(phi, xx, integration_params, pop_ids)`: the first branch `len(pop_ids) == n` of the chain (none: `phi` is returned as it is);\n'
            '    its call is evaluated by `bindIntegrate`: every parameter of the callee receives the value of the argument expression bound to it\n'
            '    (table `integCalls`: positional arguments and keywords resolved through the signature of `dadi.Integration.<f>`) -/\n'
            'def integratePhi {ν : Type} (phi : Trace ν) (integration_params : IntegParams ν) (pop_ids : List DName) : Option (Trace ν) :=\n'
            '  match integCalls.find? (fun c => c.npop == pop_ids.length) with\n'
            '  | none => some phi\n'
            '  | some c => (bindIntegrate c integration_params pop_ids).map fun r => phi ++ [PCall.integrate r]' % (rel, fn.lineno))

def gen_apply_event(mod, rel, notes):
    fn = mod.fns.get('_apply_event')
    if fn is None: raise TranslateError('_apply_event not found')
    f = Fn(mod, fn, '_apply_event', HELPERS['_apply_event'][1], HELPERS['_apply_event'][2], True, notes=notes)
    return f.translate('applyEvent', _strip_doc(fn.body), doc='%s:%d `_apply_event(phi, xx, pop_ids, event, interval, sample_sizes, demes_present)` — statement by statement; the chain on '
                       '`event[0]` is a `match`; returns `(phi, pop_ids)`' % (rel, fn.lineno), tyvars=True)

def gen_compute_sfs(mod, rel, notes):
    fn = mod.fns.get('_compute_sfs')
    if fn is None: raise TranslateError('_compute_sfs not found')
    f = Fn(mod, fn, '_compute_sfs', HELPERS['_compute_sfs'][1], HELPERS['_compute_sfs'][2], True, notes=notes)
    return f.translate('computeSfs', _strip_doc(fn.body), doc='%s:%d `_compute_sfs(demo_events, demes_present, sample_sizes, nu_funcs, migration_matrices, integration_times, frozen_demes, pts, theta, gamma, h)` '
                       '— statement by statement; returns `(phi, pop_ids)` (the grid is not modelled)' % (rel, fn.lineno), tyvars=True)

def gen_sfs_tail(mod, rel, notes):
    fn = mod.fns.get('SFS')
    if fn is None: raise TranslateError('SFS not found')
    body = _strip_doc(fn.body)
    start = [i for i, s in enumerate(body) if _n(s) == 'demes_demo_events=g.discrete_demographic_events()']
    if len(start) != 1: raise TranslateError('SFS: `demes_demo_events = g.discrete_demographic_events()`')
    tail = body[start[0]:]
    if not (isinstance(tail[-1], ast.If) and _n(tail[-1].test) == 'debug'): raise TranslateError('SFS: the function does not end with `if debug: … else: …`')
    tail = tail[:-1] + list(tail[-1].orelse)          # debug = False
    # everything the tail reads must be a parameter of SFS or a name bound by the preparation
    params = [('g', 'Graph'), ('sampled_pops', L(NAME_T)), ('list_of_frozen_demes', L(NAME_T)), ('Ne', OPT(RAT)), ('theta', RAT), ('gamma', OPT(RAT)), ('h', OPT(RAT)),
              ('sample_sizes', OPQ), ('pts', OPQ), ('xx', OPQ)]
    sig = [a.arg for a in fn.args.args]
    for p in ('g', 'Ne', 'theta', 'gamma', 'h', 'sample_sizes', 'pts'):
        if p not in sig: raise TranslateError('SFS has no parameter %s' % p)
    f = Fn(mod, fn, 'SFS', [('demes_demo_events_in', 'LibEvents')] + params, PHI, True, notes=notes)
    f.all_assigned |= {'sampled_pops', 'list_of_frozen_demes'}
    text = f.translate('sfsImport', tail, extra_env={'demes_demo_events::input': ('demes_demo_events_in', 'LibEvents')},
                       doc='%s:%d `SFS`, from `demes_demo_events = g.discrete_demographic_events()` (an input: `demes_demo_events_in`) to `return fs`, with `debug = False`; `g`, `sampled_pops`, '
                           '`list_of_frozen_demes` are what the preparation (`sfsPrepare`) leaves' % (rel, fn.lineno))
    return text.replace('ν', 'NuEntry')

def generate():
    dpath = os.path.join(T.REPO, 'dadi', 'Demes', 'Demes.py')
    src, fns = _functions(dpath)
    psrc, pfns = _functions(os.path.join(T.REPO, 'dadi', 'PhiManip.py'))
    mod = Mod(src, fns, psrc, pfns)
    rel = os.path.relpath(dpath, T.REPO)
    notes = []
    out = [HEADER]
    out += gen_glue(mod, rel)
    out.append(gen_make_nu_func(mod, rel, notes))
    out.append(gen_integration_parameters(mod, rel, notes))
    out.append(gen_demographic_events(mod, rel, notes))
    out.append(gen_integrate_phi(mod, rel))
    out.append(gen_apply_event(mod, rel, notes))
    out.append(gen_compute_sfs(mod, rel, notes))
    out.append(gen_sfs_tail(mod, rel, notes))
    if notes:
        out.append('/- notes of the translator:\n   ' + '\n   '.join(_one_line(n) for n in notes) + ' -/')
    out.append('end Gen.DemesProg\nend DadiVerif\n')
    return '\n'.join(out)

if __name__ == '__main__':
    print(generate())
