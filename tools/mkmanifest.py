#!/usr/bin/env python3
"""Writes MANIFEST.json from the table below (single source of truth for claimed checks)."""
import json, os
V = os.path.dirname(os.path.dirname(os.path.abspath(__file__)))
CLAIMED = {
 'C02': dict(
   text="Lean 4 proofs (all grid sizes, all rational inputs, any delj): Thomas sweep solves the tridiagonal system and the homogeneous system has only the zero solution; the a/b/c rows every kernel assembles are the documented conservative flux-form scheme with the documented flux, drift V=x(1-x)/nu, advection = migration from every other population + selection with dominance, absorbing terms only at the ends of all-zero/all-one lines; one kernel call is the solution of that system; wiring tables of all 15 C kernels and of the 5 Python drivers decided by `decide`. The definitions the theorems talk about are regenerated from integration_shared.c / integration{1..5}D.c / Integration.py on every run (translator) and the executable model is compared with the rebuilt C/Python implementation (15 kernels, 5 precalc kernels, tridiag, coefficient arrays of the constant-parameter drivers) through exact rationals. Round-off itself is not modelled.",
   note="Trusted: Lean kernel + Mathlib, axioms propext/Classical.choice/Quot.sound only; tools/translate.py; the correspondence harness (differential, tolerance 1e-9, 1e-6 with the delj trick); loops/index arithmetic of the C kernels are tied by correspondence, not translation; exp() in the Chang-Cooper delj is a parameter of the model.",
   technique="Lean 4 theorems over a model regenerated from source + exact-rational differential correspondence", ref="5/C02"),
}
NOT_YET = {}
def main():
    props = [json.loads(l) for l in open(os.path.join(V, 'properties.jsonl'))]
    checks = []
    na = []
    for p in props:
        pid = p['id']
        if pid in CLAIMED:
            c = CLAIMED[pid]
            checks.append(dict(property_id=pid, quick_cmd='./check %s --tier quick' % pid,
                               thorough_cmd='./check %s --tier thorough' % pid,
                               evidence_file='evidence/%s.json' % pid,
                               replay_cmd_template='./check %s --replay {path}' % pid, engine='lean-proof',
                               level_claimed=dict(category='proof', text=c['text'], design_ref=c['ref']),
                               level_note=c['note'], technique=c['technique']))
        else:
            na.append(dict(property_id=pid, reason=NOT_YET.get(pid, 'not claimed yet: the Lean model, theorems and correspondence harness for this property are not built at this commit (planned, see DESIGN.md section 5); the technique itself applies')))
    m = dict(version=1,
             setup_cmd='/venv/bin/python tools/translate.py && python3 tools/mkroot.py && cd lean && lake build DadiVerif && cd .. && /venv/bin/python tools/build_repo.py --smoke',
             hooks=dict(guard='DADI_VERIF', enable='no in-source hooks: checks wrap module attributes of a scratch rebuild of /repo (tools/build_repo.py); DADI_VERIF=1 is exported by ./check for future add-only hooks',
                        baseline_off_cmd='cd /repo && env -u DADI_VERIF /venv/bin/python -m pytest -ra -q -p no:cacheprovider --timeout=900 --continue-on-collection-errors',
                        source_commits=[], add_only=True),
             engines=[dict(name='lean-proof', path='lean/', serves_properties=sorted(CLAIMED),
                           kind_free_text='Lean 4 + Mathlib theorems over an exact-rational model; translator tools/translate.py; correspondence harness harness/*.py through lean/Driver.lean')],
             checks=checks,
             notes='See DESIGN.md. known_findings.json lists genuine defects (open = reported as KNOWN-FINDING, fixed = repaired by a fix: commit in /repo).',
             not_applicable=na)
    json.dump(m, open(os.path.join(V, 'MANIFEST.json'), 'w'), indent=1)
if __name__ == '__main__':
    main()
