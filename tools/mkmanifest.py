#!/usr/bin/env python3
"""Writes MANIFEST.json from the table below (single source of truth for claimed checks)."""
import json, os
V = os.path.dirname(os.path.dirname(os.path.abspath(__file__)))
CLAIMED = {
 'C02': dict(
   text="Lean 4 proofs (all grid sizes, all rational inputs, any delj): Thomas sweep solves the tridiagonal system and the homogeneous system has only the zero solution; the a/b/c rows every kernel assembles are the documented conservative flux-form scheme with the documented flux, drift V=x(1-x)/nu, advection = migration from every other population + selection with dominance, absorbing terms only at the ends of all-zero/all-one lines; one kernel call is the solution of that system; wiring tables of all 15 C kernels and of the 5 Python drivers decided by `decide`; the pivots of the sweep are >= 1/dt whenever the scheme is an M-matrix (non-negative flux coefficients; unconditional without migration and selection), and under the same condition one step, and whole neutral migration-free integrations in 1-5 populations with constant or time-dependent sizes, map non-negative densities to non-negative densities (sign structure of the Thomas sweep, induction over axes and steps). The definitions the theorems talk about are regenerated from integration_shared.c / integration{1..5}D.c / Integration.py on every run (translator) and the executable model is compared with the rebuilt C/Python implementation (15 kernels, 5 precalc kernels, tridiag, coefficient arrays of the constant-parameter drivers) through exact rationals. Round-off itself is not modelled.",
   note="Trusted: Lean kernel + Mathlib, axioms propext/Classical.choice/Quot.sound only; tools/translate.py; the correspondence harness (differential, tolerance 1e-9, 1e-6 with the delj trick); loops/index arithmetic of the C kernels are tied by correspondence, not translation; exp() in the Chang-Cooper delj is a parameter of the model. Non-negativity is proved under the stated M-matrix / mesh-Peclet hypotheses only (with strong selection on a coarse grid the real scheme does produce negative values; the property does not exclude that); L3 evaluates it on the real integrators for the neutral case, and passes densities as transposed/Fortran/strided views.",
   technique="Lean 4 theorems over a model regenerated from source + exact-rational differential correspondence", ref="5/C02"),
}
CLAIMED.update({
 'C03': dict(
   text="Lean 4 proofs, for every number of populations, grid, flag setting and number of time steps (induction on the step count): one full time step (mutation injection + every non-frozen axis) and whole constant-parameter and time-dependent integrations are linear in (density, theta0) jointly; the time-step rule is homogeneous (dt scales by exactly c under nu->c*nu, m->m/c, gamma->gamma/c) and is applied to the right per-population quantities at every call site (table decided); one full step and whole integrations (constant and time-dependent parameters p'(t)=scale(p(t/c))) leave every intermediate density unchanged under the reference-size re-scaling. Injection increments, the dt rule and all coefficient formulas are regenerated from Integration.py / the C sources on every run; the executable model (dt rule, injection, full sweeps with frozen/nomut flags, 1-3 step constant and affine-in-time runs in 1-5 populations) is compared with the implementation in exact rationals. Superposition/re-scaling residuals, the dt call-site wiring, equilibrium constructors and composite models are evaluated on the real code as the failing-input search.",
   note="Trusted: Lean kernel + Mathlib (propext/Classical.choice/Quot.sound), tools/translate.py, the correspondence harness (1e-9). The theorems are stated on the functional form of the sweep (sweepFn) and transferred to the tabulated arrays the driver runs by proved bridge theorems (C03_tabulated_*: equality on every valid index, any dimension, any number of steps). Float round-off is outside the model ('up to round-off' is checked at 1e-9..1e-10). Split/admix/sampling steps take no scaled parameter (by inspection; composite models are exercised numerically).",
   technique="Lean 4 induction proofs over a model regenerated from source + exact-rational differential correspondence", ref="5/C03"),
 'C04': dict(
   text="Lean 4 proofs (all grid sizes, dimensions, axes, rational parameters, both delj settings): trapezoid mass balance of every line of every kernel sweep (mass changes only by dt x absorbing term at the two ends); absorbing terms vanish unless all other coordinates are 0 or all are 1, so every non-corner line conserves mass exactly; hence for any set of non-corner lines with any weights (e.g. a frozen population's interior frequency) the weighted marginal is unchanged by a sweep; a line where another population is at an interior frequency is never a corner line; frozen axes are skipped; injection touches only the unit multi-indices of non-frozen (2-D: non-nomut) populations (generated table decided); without migration and selection the first/last interior rows decouple (a1 = c_{N-2} = 0); the frozen/migration guard expressions of two_pops..five_pops (generated) equal 'some frozen population has a non-zero rate in or out'; the kernels' corner-guard wiring table is decided; the mutation influx of `_inject_mutations_{1..5}D` is the canonical amount dt/x_k[1]*theta0/2*2^d/((x_k[2]-x_k[0])*prod_{l!=k} x_l[1]) at the unit index of population k and is non-negative; without migration and selection the marginal density of any subset S of populations of a d<=5 population system evolves, at interior frequencies, exactly like S integrated alone with the same time steps (general theorem for any d<=5 and S on a common grid, constant and time-dependent drivers). Correspondence of full sweeps with flags in exact rationals; frozen marginals, isolated marginals (shared time steps), per-kernel line-mass bookkeeping through recorded kernel calls, injection support/amount and the exhaustive frozen x migration rejection table are evaluated on the real code.",
   note="Trusted as for C02/C03. Isolated marginals: proved for any d <= 5 and any subset S on a common grid (Integration.py always uses one grid for all axes); populations outside S may have selection, dominance and migration from S and keep their pivot condition as a hypothesis (discharged for neutral migration-free populations and under the Peclet-type condition of C02_pivots_peclet). The tabulated/functional bridge is proved in C03. L3 exercises every population's size function of every driver (time-dependent sizes per population), all 16 frozen/nomut combinations in 2-D and all frozen vectors in 3-5-D from a zero start (mutation support), on symmetric and asymmetric grids.",
   technique="Lean 4 proofs (telescoping flux sums, generated guard tables) + exact-rational correspondence + recorded-kernel mass bookkeeping", ref="5/C04"),
})
CLAIMED.update({
 'C01': dict(
   text="PARTIAL. Proved in Lean 4 for every grid from 0 to 1, every dt and every number of steps: the discrete heterozygosity law of the neutral one-population step H(phi')(1/dt + kappa) = H(phi)/dt with kappa = (beta+1)^2/(4 beta nu) (two summations by parts over the generated coefficient formulas), the influx law (injection adds exactly dt*theta0*(1-x1)/2), the mean-frequency (martingale) law of the neutral step (the first moment sum_j w_j x_j phi_j changes only through the absorbing term at x=1, whose coefficient is the documented (1/nu)/dx_last), the two provable halves of the convergence argument - l1-STABILITY (one implicit step is a contraction in the trapezoid-weighted l1 norm for densities of any sign under the M-matrix condition, unconditionally for the neutral kernel: linearity + positivity + mass law) and CONSISTENCY (at every interior node of any non-uniform grid the discrete operator is the centred flux difference of M*phi minus the second divided difference of V*phi; the drift part is exact when V*phi is quadratic, the advective part when M is constant and phi linear or M linear and phi constant) -, the closed form of the inject-and-step recursion over n steps and its fixed point (continuum value times exactly (1-x1)), the neutral equilibrium density, and that the equilibrium constructors depend on (nu,gamma,theta0) only through gamma*nu and nu*theta0 (generated from PhiManip.py) - the units/scaling facts the property is about. NOT proved (numerical, against independent theory oracles written from the coalescent and from the closed-form equilibrium density): convergence to the exact coalescent expectation within 1.5% at a tenth of the default step on refined grids, error proportional to dt, convergence to the drift-selection equilibrium under grid refinement and from a neutral start, finiteness/non-negativity/continuity of the equilibrium density over the whole gamma box, stationarity up to a vanishing grid error.",
   note="Trusted: Lean kernel + Mathlib; translator; correspondence of the 1-D kernel with the exact model; scipy quad/expm in the oracles. Stability and consistency of the scheme are proved; the limit argument that combines them (Lax), the convergence rate, and the identification of the diffusion's solution with coalescent theory are not formalised; One known finding (F-01a, known_findings.json): 1.6-2.4% at a tenth of the default step right after a >=50-fold expansion covered by <=64 steps (time-step error of the dt rule), reported as KNOWN-FINDING, its recorded input re-evaluated on every run. thresholds: the property's own 1.5%, time-step ratio in [4,25] (observed ~10), refinement ratios calibrated on the unchanged tree (observed 3.1-6.0, accepted 2-6.5).",
   technique="Lean 4 proofs of the scheme's exact moment laws + numerical comparison with independent coalescent/equilibrium oracles", ref="5/C01"),
})
CLAIMED.update({
 'C20': dict(
   text="Proved in Lean 4: the memo pattern used by every module-level cache is transparent for every call history (any sequence of calls from any sound cache, in particular from the empty cache of a fresh interpreter, returns the pure function's values) provided the key determines the value, and a counter-model shows the hypothesis is needed; for every memo table present in the current source (found by pattern, so a cache added later is included) a backward slice of the cached value shows the key mentions every input it is computed from (table regenerated each run and decided); the effect table, regenerated by a conservative syntactic analysis of Integration, Spectrum methods, Inference, Misc, Godambe, Numerics, PhiManip, shows that no audited function outside the documented in-place exemptions contains a statement that can modify an argument and that the five public integrators return a fresh array. Monitored at run time (cannot be exhibited by a pure model): interleavings of 2-40 API calls of 22 kinds in one process vs each call in a fresh interpreter, compared bit-for-bit; the same under several PYTHONHASHSEED values; C/Fortran/strided/negatively-strided/transposed layouts of every array argument of the integrators (constant and time-dependent drivers), from_phi and Spectrum methods; byte-wise comparison of arguments before/after and np.shares_memory(result, argument), in a crash-isolated child process.",
   note="Trusted: Lean kernel + Mathlib; tools/gen_Effects.py (the slice and alias analyses are syntactic over-approximations: they cannot see dynamic dispatch or writes made by C code - those are covered only by the run-time byte comparisons); CPython/numpy behaviour. Hash-seed, layout and aliasing clauses are exploration, not proof. Key sufficiency of Godambe.cache relies on func.__hash__() identifying the function (object identity; id reuse after garbage collection is outside the model).",
   technique="Lean 4 memo-transparency theorem + generated key-sufficiency and effect tables (decide) + run-time differential monitoring (fresh interpreter, hash seed, layouts, byte comparison)", ref="5/C20"),
})
NOT_YET = {}
# properties built by sub-tasks: MANIFEST text is taken from notes/Cxx.md (sections **level_claimed.text**, **level_note**,
# **technique**) once the check has been verified by the owner and listed here
ACCEPTED_FROM_NOTES = ['C05', 'C06', 'C07', 'C08', 'C09', 'C10', 'C11', 'C12', 'C13', 'C14','C15','C16', 'C17', 'C18', 'C19']

def from_notes(pid):
    import re
    txt = open(os.path.join(V, 'notes', pid + '.md')).read()
    def grab(label, nxt):
        m = re.search(r'\*\*%s\*\*\s*:?\s*(.*?)(?=\n\s*\*\*(?:%s)\*\*|\n## |\Z)' % (re.escape(label), '|'.join(re.escape(n) for n in nxt)), txt, flags=re.S)
        return re.sub(r'\s+', ' ', m.group(1)).strip() if m else ''
    labels = ['level_claimed.category', 'level_claimed.text', 'level_note', 'technique']
    text = grab('level_claimed.text', labels); note = grab('level_note', labels); tech = grab('technique', labels)
    if not (text and note and tech):
        raise SystemExit('notes/%s.md lacks MANIFEST sections' % pid)
    return dict(text=text, note=note, technique=tech[:300], ref='5/' + pid)

def main():
    for pid in ACCEPTED_FROM_NOTES:
        CLAIMED[pid] = from_notes(pid)
    props = [json.loads(l) for l in open(os.path.join(V, 'properties.jsonl'))]
    checks = []
    na = []
    for p in props:
        pid = p['id']
        if pid in CLAIMED:
            c = CLAIMED[pid]
            checks.append(dict(property_id=pid, quick_cmd='./check %s --tier quick' % pid,
                               thorough_cmd='./check %s --tier thorough' % pid,
                               evidence_file='evidence/%s.json' % pid,
                               replay_cmd_template='./check %s --replay {path}' % pid, engine='lean-proof',
                               level_claimed=dict(category='proof', text=c['text'], design_ref=c['ref']),
                               level_note=c['note'], technique=c['technique']))
        else:
            na.append(dict(property_id=pid, reason=NOT_YET.get(pid, 'not claimed yet: the Lean model, theorems and correspondence harness for this property are not built at this commit (planned, see DESIGN.md section 5); the technique itself applies')))
    m = dict(version=1,
             setup_cmd='/venv/bin/python tools/translate.py && python3 tools/mkroot.py && cd lean && lake build $(cat targets.txt) && cd .. && /venv/bin/python tools/build_repo.py --smoke',
             hooks=dict(guard='DADI_VERIF', enable='no in-source hooks: checks wrap module attributes of a scratch rebuild of /repo (tools/build_repo.py); DADI_VERIF=1 is exported by ./check for future add-only hooks',
                        baseline_off_cmd='cd /repo && env -u DADI_VERIF /venv/bin/python -m pytest -ra -q -p no:cacheprovider --timeout=900 --continue-on-collection-errors',
                        source_commits=[], add_only=True),
             engines=[dict(name='lean-proof', path='lean/', serves_properties=sorted(CLAIMED),
                           kind_free_text='Lean 4 + Mathlib theorems over an exact-rational model; translator tools/translate.py; correspondence harness harness/*.py through lean/Driver.lean')],
             checks=checks,
             notes='See DESIGN.md. known_findings.json lists genuine defects (open = reported as KNOWN-FINDING, fixed = repaired by a fix: commit in /repo).',
             not_applicable=na)
    json.dump(m, open(os.path.join(V, 'MANIFEST.json'), 'w'), indent=1)
if __name__ == '__main__':
    main()
