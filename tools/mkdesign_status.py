#!/usr/bin/env python3
"""Rewrite the generated block "<!-- STATUS:BEGIN --> … <!-- STATUS:END -->" of DESIGN.md from the files that record
what exists: MANIFEST.json, known_findings.json, seeded/*/meta.json, seeded/RESULTS.json, evidence/*.json,
lean/DadiVerif/Props/*.lean.  Hand-written text lives in tools/design_status_text.md (section 11 prose)."""
import os, re, json, glob
V = os.path.dirname(os.path.dirname(os.path.abspath(__file__)))

def theorems(pid):
    p = os.path.join(V, 'lean', 'DadiVerif', 'Props', pid + '.lean')
    if not os.path.exists(p): return []
    src = open(p).read()
    nc = re.sub(r'/-.*?-/', '', src, flags=re.S); nc = re.sub(r'--.*', '', nc)
    return re.findall(r'^\s*theorem\s+(%s_\w+)' % pid, nc, flags=re.M)

def main():
    m = json.load(open(os.path.join(V, 'MANIFEST.json')))
    kf = json.load(open(os.path.join(V, 'known_findings.json')))
    out = []
    out.append('### 11.1 What exists per property (generated from MANIFEST.json, Props/*.lean, evidence/*.json)\n')
    out.append('| property | status | theorems (Lean, all audited) | generated files (T) | driver modules (K) | last evidence: K cases / L3 evaluations |')
    out.append('|---|---|---|---|---|---|')
    claimed = {c['property_id']: c for c in m['checks']}
    props = [json.loads(l) for l in open(os.path.join(V, 'properties.jsonl'))]
    for p in props:
        pid = p['id']
        th = theorems(pid)
        h = os.path.join(V, 'harness', pid.lower() + '.py')
        gen = drv = ''
        if os.path.exists(h):
            src = open(h).read()
            g = re.search(r'^GENERATED\s*=\s*\[(.*?)\]', src, flags=re.M | re.S); d = re.search(r'^DRIVER_MODULES\s*=\s*\[(.*?)\]', src, flags=re.M | re.S)
            gen = ', '.join(re.findall(r"['\"](\w+)['\"]", g.group(1))) if g else ''
            drv = ', '.join(re.findall(r"['\"](\w+)['\"]", d.group(1))) if d else ''
        ev = ''
        ep = os.path.join(V, 'evidence', pid + '.json')
        if os.path.exists(ep):
            try:
                c = json.load(open(ep))['coverage']
                ev = '%d / %d (%s)' % (c['correspondence']['cases'], c['search']['evaluations'], json.load(open(ep))['tier'])
            except Exception:
                ev = '?'
        status = 'claimed' if pid in claimed else 'not claimed'
        out.append('| %s | %s | %d: %s | %s | %s | %s |' % (pid, status, len(th), ', '.join(t[len(pid) + 1:] for t in th[:40]) + (' …' if len(th) > 40 else ''), gen or '—', drv or '—', ev or '—'))
    out.append('')
    out.append('### 11.2 Genuine defects of the pinned tree found by the checks and repaired (`fix:` commits in /repo; from known_findings.json)\n')
    for f in kf.get('fixed', []):
        out.append('* ' + f)
    if kf.get('findings'):
        out.append('\nOpen findings (reported as KNOWN-FINDING on every run):\n')
        for f in kf['findings']:
            out.append('* property=%s key=`%s`: %s' % (f.get('property'), f.get('key'), f.get('what')))
    else:
        out.append('\nNo open (unrepaired) findings are listed: every defect the checks found was small enough to repair.')
    out.append('')
    out.append('### 11.3 Seeded changes (independent sub-agents, property text only) and which checks catch them\n')
    rp = os.path.join(V, 'seeded', 'RESULTS.json')
    res = json.load(open(rp)) if os.path.exists(rp) else {}
    out.append('| seed | breaks | what was changed | needs | detected by `./check` | layers that saw it |')
    out.append('|---|---|---|---|---|---|')
    for d in sorted(glob.glob(os.path.join(V, 'seeded', '*', 'meta.json'))):
        sid = os.path.basename(os.path.dirname(d))
        meta = json.load(open(d))
        r = res.get(sid, {})
        det = ('yes' + (' (no-failing-input-found)' if r.get('no_failing_input') else '')) if r.get('detected') else ('NO' if r else 'not run yet')
        cut = lambda s: re.sub(r'\s+', ' ', str(s)).replace('|', '/')[:160]
        out.append('| %s | %s | %s | %s | %s | %s |' % (sid, meta.get('breaks') or meta.get('property'), cut(meta.get('summary', '')), cut(meta.get('needs', '')), det, ', '.join(r.get('layers', []))))
    out.append('')
    out.append('### 11.4 Per-property as-built paragraphs\n')
    out.append(open(os.path.join(V, 'tools', 'design_own.md')).read())
    for p_ in props:
        pid = p_['id']
        npth = os.path.join(V, 'notes', pid + '.md')
        if not os.path.exists(npth): continue
        txt = open(npth).read()
        mm = re.search(r'^## \(b\)[^\n]*\n(.*?)(?=^## \()', txt, flags=re.S | re.M)
        if mm:
            out.append('#### %s (built by a sub-task; from notes/%s.md)' % (pid, pid))
            out.append(mm.group(1).strip() + '\n')
    block = '\n'.join(out)
    dp = os.path.join(V, 'DESIGN.md')
    s = open(dp).read()
    if '<!-- STATUS:BEGIN -->' not in s:
        raise SystemExit('markers missing in DESIGN.md')
    s = re.sub(r'<!-- STATUS:BEGIN -->.*?<!-- STATUS:END -->', lambda _: '<!-- STATUS:BEGIN -->\n' + block + '\n<!-- STATUS:END -->', s, flags=re.S)
    open(dp, 'w').write(s)
    print('DESIGN.md status block rewritten (%d lines)' % len(out))

if __name__ == '__main__':
    main()
