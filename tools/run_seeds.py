#!/usr/bin/env python3
"""run_seeds.py [--inplace] [--tier quick] [seed ids...]

For every kept seeded change /verif/seeded/<id>/ (patch.diff + meta.json: breaks=<Cxx>): apply it, run that property's
check, undo it, and record in seeded/RESULTS.json whether the check raised a VIOLATION and which layers saw it
(proof/translation obligations broken, correspondence disagreements, failing inputs found by the direct oracle).
Default: scratch worktree + DADI_REPO (safe while other processes read /repo); --inplace: git -C /repo apply …;
run; git -C /repo checkout -- .  (the way the brief describes)."""
import os, sys, json, subprocess, shutil, time

V = os.path.dirname(os.path.dirname(os.path.abspath(__file__)))

def sh(cmd, cwd=None, env=None, timeout=7200):
    p = subprocess.run(cmd, shell=True, cwd=cwd, env=env, stdout=subprocess.PIPE, stderr=subprocess.STDOUT, timeout=timeout)
    return p.returncode, p.stdout.decode(errors='replace')

def main():
    args = sys.argv[1:]
    inplace = '--inplace' in args
    tier = 'quick'
    if '--tier' in args:
        tier = args[args.index('--tier') + 1]
    ids = [a for a in args if not a.startswith('--') and a not in ('quick', 'thorough')]
    sdir = os.path.join(V, 'seeded')
    allids = sorted(d for d in os.listdir(sdir) if os.path.isdir(os.path.join(sdir, d)))
    ids = ids or allids
    rpath = os.path.join(sdir, 'RESULTS.json')
    results = json.load(open(rpath)) if os.path.exists(rpath) else {}
    for sid in ids:
        meta = json.load(open(os.path.join(sdir, sid, 'meta.json')))
        prop = meta.get('breaks') or meta.get('property')
        patch = os.path.join(sdir, sid, 'patch.diff')
        if not os.path.exists(os.path.join(V, 'harness', prop.lower() + '.py')):
            print(sid, 'no check for', prop); continue
        t0 = time.time()
        env = dict(os.environ)
        if inplace:
            rc, out = sh('git -C /repo diff --quiet')
            if rc: print('repo dirty, stop'); return 1
            rc, out = sh('git -C /repo apply %s' % patch)
            if rc: print(sid, 'patch does not apply:', out); continue
            try:
                rc, out = sh('./check %s --tier %s' % (prop, tier), cwd=V, env=env)
            finally:
                sh('git -C /repo checkout -- .')
        else:
            wt = '/tmp/runseed_%s_%d' % (sid, os.getpid())
            rc, out = sh('sh %s/tools/seedtools/mkworktree.sh %s' % (V, wt))
            rc, o2 = sh('git apply %s' % patch, cwd=wt)
            if rc:
                print(sid, 'patch does not apply:', o2); sh('git -C /repo worktree remove --force %s' % wt); continue
            env['DADI_REPO'] = wt
            try:
                rc, out = sh('./check %s --tier %s' % (prop, tier), cwd=V, env=env)
            finally:
                sh('git -C /repo worktree remove --force %s' % wt); shutil.rmtree(wt, ignore_errors=True)
        viol = [l for l in out.splitlines() if l.startswith('VIOLATION')]
        ev = {}
        try:
            ev = json.load(open(os.path.join(V, 'evidence', prop + '.json')))['coverage']
        except Exception:
            pass
        layers = []
        broken = ev.get('broken', [])
        if any(b.startswith('theorem:') or b.startswith('translate:') for b in broken): layers.append('proof/translation')
        if ev.get('correspondence', {}).get('disagreements', 0): layers.append('correspondence')
        if ev.get('search', {}).get('failures', 0): layers.append('failing-input')
        results[sid] = dict(property=prop, detected=bool(viol), exit=rc, layers=layers,
                            no_failing_input=bool(viol and 'no-failing-input-found' in viol[0]),
                            broken=[b[:120] for b in broken][:6], tier=tier, mode='inplace' if inplace else 'worktree',
                            wall_s=round(time.time() - t0, 1), summary=meta.get('summary', '')[:300], needs=meta.get('needs', '')[:300])
        print(sid, prop, 'DETECTED' if viol else 'MISSED', layers, '%.0fs' % (time.time() - t0))
        json.dump(results, open(rpath, 'w'), indent=1)
    sh('/venv/bin/python %s/tools/translate.py' % V)     # Generated/*.lean back to the unchanged tree
    # restoring the evidence files of the unchanged tree is the caller's job (re-run the checks)
    return 0

if __name__ == '__main__':
    sys.exit(main())
