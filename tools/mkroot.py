#!/usr/bin/env python3
"""Regenerate lean/DadiVerif.lean (root import list): Props + Driver modules of the properties claimed in
MANIFEST.json (work-in-progress files of unclaimed properties are left out so that setup stays green)."""
import os, re, json
V = os.path.dirname(os.path.dirname(os.path.abspath(__file__)))
L = os.path.join(V, 'lean')
m = json.load(open(os.path.join(V, 'MANIFEST.json')))
mods = []
for c in m['checks']:
    pid = c['property_id']
    if os.path.exists(os.path.join(L, 'DadiVerif', 'Props', pid + '.lean')):
        mods.append('DadiVerif.Props.' + pid)
    h = os.path.join(V, 'harness', pid.lower() + '.py')
    if os.path.exists(h):
        src = open(h).read()
        mm = re.search(r'^DRIVER_MODULES\s*=\s*\[(.*?)\]', src, flags=re.M | re.S)
        for d in re.findall(r"['\"](\w+)['\"]", mm.group(1)) if mm else []:
            if 'DadiVerif.Driver.' + d not in mods:
                mods.append('DadiVerif.Driver.' + d)
# The root file stays minimal: properties built independently may define equal names in different modules that never
# import each other; importing them all into one root would clash.  setup builds the targets one by one instead.
root = 'import DadiVerif.Model.Prelude\n'
p = os.path.join(L, 'DadiVerif.lean')
if not os.path.exists(p) or open(p).read() != root:
    open(p, 'w').write(root)
t = os.path.join(L, 'targets.txt')
text = '\n'.join(mods) + '\n'
if not os.path.exists(t) or open(t).read() != text:
    open(t, 'w').write(text)
print(len(mods), 'modules')
