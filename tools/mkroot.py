#!/usr/bin/env python3
"""Regenerate lean/DadiVerif.lean (root import list) from the files present."""
import os
L = os.path.join(os.path.dirname(os.path.dirname(os.path.abspath(__file__))), 'lean')
mods = []
for sub in ['Model', 'Generated', 'Lemmas', 'Props', 'Driver']:
    d = os.path.join(L, 'DadiVerif', sub)
    if os.path.isdir(d):
        for f in sorted(os.listdir(d)):
            if f.endswith('.lean'):
                mods.append('DadiVerif.%s.%s' % (sub, f[:-5]))
text = ''.join('import %s\n' % m for m in mods)
p = os.path.join(L, 'DadiVerif.lean')
if not os.path.exists(p) or open(p).read() != text:
    open(p, 'w').write(text)
print(len(mods), 'modules')
