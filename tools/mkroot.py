#!/usr/bin/env python3
"""Regenerate lean/DadiVerif.lean (root import list): Props + Driver modules of the properties claimed in
MANIFEST.json (work-in-progress files of unclaimed properties are left out so that setup stays green)."""
import os, re, json
V = os.path.dirname(os.path.dirname(os.path.abspath(__file__)))
L = os.path.join(V, 'lean')
m = json.load(open(os.path.join(V, 'MANIFEST.json')))
mods = []
for c in m['checks']:
    pid = c['property_id']
    if os.path.exists(os.path.join(L, 'DadiVerif', 'Props', pid + '.lean')):
        mods.append('DadiVerif.Props.' + pid)
    h = os.path.join(V, 'harness', pid.lower() + '.py')
    if os.path.exists(h):
        src = open(h).read()
        mm = re.search(r'^DRIVER_MODULES\s*=\s*\[(.*?)\]', src, flags=re.M | re.S)
        for d in re.findall(r"['\"](\w+)['\"]", mm.group(1)) if mm else []:
            if 'DadiVerif.Driver.' + d not in mods:
                mods.append('DadiVerif.Driver.' + d)
text = ''.join('import %s\n' % x for x in mods)
p = os.path.join(L, 'DadiVerif.lean')
if not os.path.exists(p) or open(p).read() != text:
    open(p, 'w').write(text)
print(len(mods), 'modules')
