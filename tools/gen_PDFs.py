"""T tie for C17 (compiled bivariate densities): Generated/PDFs.lean — the *computable* facts of dadi/DFE/PDFs.c,
PDFs_cython.pyx and the wrappers of PDFs.py, read from the current source on every run:

  * for `biv_lognormal` and `biv_ind_gamma` (C): the parameter-count dispatch (which entry of `params` every variable is
    read from for which `Nparams`; `none` = left at its initial value), the extents of the two nested output loops,
    the flat index expression of `output[...]`, the malloc'ed size / fill extent / read extent of every work array,
  * the Lanczos coefficients of `gamma_func` as exact rationals (the series part is evaluated by the driver),
  * the Cython wrapper: shape of the allocated result, which Python quantity is bound to which C argument,
  * PDFs.py: the public wrappers hand (xx, yy, params) through `np.ascontiguousarray(..., dtype=float)` in that order; the
    parameter-count dispatch of the Python reference formulas (`biv_lognormal_py`, `biv_ind_gamma_py`).

This module also holds the mini parser for the C statement forms used in PDFs.c (declarations, assignments, if / else-if
chains, counted for loops, malloc / free, return) and the symbolic walk shared with tools/gen_PDFsReal.py, which emits
the real-valued per-cell expressions.  Anything outside the recognised shapes raises TranslateError (never guessed).
"""
import ast, os, re, math
from fractions import Fraction
import translate as T

NAME = 'PDFs'

def _p(*a):
    return os.path.join(T.REPO, 'dadi', 'DFE', *a)

# ------------------------------------------------------------------------------------------------
# C statements
# ------------------------------------------------------------------------------------------------
def strip_comments(src):
    src = re.sub(r'/\*.*?\*/', ' ', src, flags=re.S)
    return re.sub(r'//[^\n]*', ' ', src)

def _balanced(text, i, open_ch, close_ch):
    """text[i] == open_ch; returns (inner, index after the closing char)"""
    if i >= len(text) or text[i] != open_ch:
        raise T.TranslateError('expected %r at %r' % (open_ch, text[i:i + 30]))
    depth = 0; j = i
    while j < len(text):
        if text[j] == open_ch: depth += 1
        elif text[j] == close_ch:
            depth -= 1
            if depth == 0:
                return text[i + 1:j], j + 1
        j += 1
    raise T.TranslateError('unbalanced %r' % open_ch)

def _skip(text, i):
    while i < len(text) and text[i].isspace(): i += 1
    return i

def parse_block(text):
    """-> list of statements:
       ('decl', text) | ('assign', lhs, op, rhs) | ('if', [(cond, block), ...], else_block | None) |
       ('for', var, bound, block) | ('call', name, args) | ('return', expr)"""
    out = []; i = 0
    while True:
        i = _skip(text, i)
        if i >= len(text): break
        m = re.match(r'(if|for)\b\s*', text[i:])
        if m and m.group(1) == 'if':
            branches = []; els = None
            while True:
                i = _skip(text, i + len('if'))
                cond, i = _balanced(text, i, '(', ')')
                i = _skip(text, i)
                body, i = _balanced(text, i, '{', '}')
                branches.append((cond.strip(), parse_block(body)))
                j = _skip(text, i)
                m2 = re.match(r'else\b\s*', text[j:])
                if not m2: break
                j += m2.end()
                if re.match(r'if\b', text[j:]):
                    i = j; continue
                body, i = _balanced(text, j, '{', '}')
                els = parse_block(body)
                break
            out.append(('if', branches, els))
            continue
        if m and m.group(1) == 'for':
            i = _skip(text, i + len('for'))
            head, i = _balanced(text, i, '(', ')')
            i = _skip(text, i)
            body, i = _balanced(text, i, '{', '}')
            parts = [p.strip() for p in head.split(';')]
            if len(parts) != 3: raise T.TranslateError('for header %r' % head)
            m0 = re.fullmatch(r'(\w+)\s*=\s*0', parts[0]); m1 = re.fullmatch(r'(\w+)\s*<\s*(\w+)', parts[1]); m2 = re.fullmatch(r'(\w+)\s*\+\+', parts[2])
            if not (m0 and m1 and m2 and m0.group(1) == m1.group(1) == m2.group(1)):
                raise T.TranslateError('for loop is not `for(v=0; v<B; v++)`: %r' % head)
            out.append(('for', m0.group(1), m1.group(2), parse_block(body)))
            continue
        # simple statement up to ';' at brace depth 0
        j = i; depth = 0
        while j < len(text) and not (text[j] == ';' and depth == 0):
            if text[j] in '{(': depth += 1
            elif text[j] in '})': depth -= 1
            j += 1
        if j >= len(text): raise T.TranslateError('statement without `;`: %r' % text[i:i + 40])
        st = re.sub(r'\s+', ' ', text[i:j].strip()); i = j + 1
        if not st: continue
        if re.match(r'(double|int)\b', st):
            out.append(('decl', st)); continue
        m = re.fullmatch(r'return\s+(.*)', st)
        if m:
            out.append(('return', m.group(1))); continue
        m = re.fullmatch(r'(\w+)\s*\((.*)\)', st)
        if m and '=' not in st.split('(')[0]:
            out.append(('call', m.group(1), m.group(2).strip())); continue
        m = re.fullmatch(r'(\w+(?:\[[^\]]*\])?)\s*(=|\+=|-=|\*=|/=)\s*(.*)', st)
        if m:
            out.append(('assign', m.group(1), m.group(2), m.group(3).strip())); continue
        raise T.TranslateError('C statement %r' % st)
    return out

def c_source():
    path = _p('PDFs.c')
    src = strip_comments(open(path).read())
    fns = T.c_functions(path)
    m = re.search(r'#define\s+M_PI\s+([0-9.eE+-]+)', src)
    if not m or abs(float(m.group(1)) - math.pi) > 4e-16:
        raise T.TranslateError('M_PI is not pi to double precision')
    return src, fns

def c_sig(fns, name, want):
    if name not in fns: raise T.TranslateError('C function %s not found' % name)
    args, body = fns[name]
    got = [(a[0], a[1]) for a in args]
    if got != want: raise T.TranslateError('%s: signature %r' % (name, got))
    return parse_block(body)

BIV_SIG = [('xx', True), ('yy', True), ('params', True), ('n', False), ('m', False), ('Nparams', False), ('output', True)]

def cexpr(text):
    return T.c_expr_to_ast(text)[0].body

def nat_expr(node, names):
    """index arithmetic over Nat: names, integer literals, + and *"""
    if isinstance(node, ast.Name) and node.id in names: return node.id
    if isinstance(node, ast.Constant) and isinstance(node.value, int) and node.value >= 0: return str(node.value)
    if isinstance(node, ast.BinOp) and isinstance(node.op, (ast.Add, ast.Mult)):
        return '(%s %s %s)' % (nat_expr(node.left, names), '+' if isinstance(node.op, ast.Add) else '*', nat_expr(node.right, names))
    raise T.TranslateError('index expression %s' % ast.unparse(node))

def cond_lengths(text, var):
    """`Nparams == 3`, `Nparams == 2 || Nparams == 3` -> [3] / [2, 3]"""
    out = []
    for part in text.split('||'):
        m = re.fullmatch(r'\s*%s\s*==\s*(\d+)\s*' % var, part)
        if not m: raise T.TranslateError('dispatch condition %r' % text)
        out.append(int(m.group(1)))
    return out

class BivC:
    """symbolic walk of `biv_lognormal` / `biv_ind_gamma`:
       init     : var -> literal text (initial value)
       dispatch : [(lengths, {var: params index})] in source order
       scalars  : [(name, rhs text)] assigned at top level after the dispatch, in order (e.g. pre, cx, cy)
       arrays   : name -> dict(size, var, bound, rhs)      (malloc size, fill loop, element expression)
       outer/inner : (var, bound) of the nested output loops
       cell     : [(name, rhs text)] scalar assignments inside the inner loop, in order
       index    : text of the output subscript;  value : text of the stored expression
       reads    : array name -> set of index variables used when reading it in later statements"""
    def __init__(self, name, stmts):
        self.name = name
        self.init = {}; self.dispatch = []; self.scalars = []; self.arrays = {}; self.order = []
        self.outer = self.inner = None; self.cell = []; self.index = None; self.value = None
        self.freed = []
        seen_if = False
        for st in stmts:
            k = st[0]
            if k == 'decl':
                continue
            if k == 'assign':
                _, lhs, op, rhs = st
                if op != '=' or '[' in lhs: raise T.TranslateError('%s: top-level statement %r' % (name, st))
                m = re.fullmatch(r'malloc\(\s*(\w+)\s*\*\s*sizeof\(\s*\*\s*(\w+)\s*\)\s*\)', rhs)
                if m:
                    self.arrays[lhs] = dict(size=m.group(1), of=m.group(2)); continue
                if not seen_if:
                    if not re.fullmatch(r'[0-9.]+', rhs): raise T.TranslateError('%s: initialisation %r' % (name, st))
                    self.init[lhs] = rhs
                else:
                    self.scalars.append((lhs, rhs)); self.order.append(('scalar', lhs))
                continue
            if k == 'if':
                if seen_if: raise T.TranslateError('%s: second if' % name)
                seen_if = True
                _, branches, els = st
                if els is not None: raise T.TranslateError('%s: dispatch has an else block' % name)
                for cond, blk in branches:
                    asg = {}
                    for s in blk:
                        m = re.fullmatch(r'params\[(\d+)\]', s[3]) if s[0] == 'assign' and s[2] == '=' else None
                        if not m or '[' in s[1]: raise T.TranslateError('%s: dispatch statement %r' % (name, s))
                        if s[1] not in self.init: raise T.TranslateError('%s: %s assigned in the dispatch but not initialised' % (name, s[1]))
                        asg[s[1]] = int(m.group(1))
                    self.dispatch.append((cond_lengths(cond, 'Nparams'), asg))
                continue
            if k == 'for':
                _, var, bound, blk = st
                if len(blk) == 1 and blk[0][0] == 'for':
                    if self.outer is not None: raise T.TranslateError('%s: two nested loops' % name)
                    _, var2, bound2, blk2 = blk[0]
                    self.outer = (var, bound); self.inner = (var2, bound2)
                    for s in blk2:
                        if s[0] != 'assign' or s[2] != '=': raise T.TranslateError('%s: inner statement %r' % (name, s))
                        m = re.fullmatch(r'output\[(.*)\]', s[1])
                        if m:
                            if self.index is not None: raise T.TranslateError('%s: two writes to output' % name)
                            self.index = m.group(1); self.value = s[3]
                        elif '[' in s[1]: raise T.TranslateError('%s: inner statement %r' % (name, s))
                        else:
                            if self.index is not None: raise T.TranslateError('%s: statement after the write' % name)
                            self.cell.append((s[1], s[3]))
                    continue
                if len(blk) != 1 or blk[0][0] != 'assign' or blk[0][2] != '=':
                    raise T.TranslateError('%s: fill loop %r' % (name, st))
                m = re.fullmatch(r'(\w+)\[(\w+)\]', blk[0][1])
                if not m or m.group(1) not in self.arrays or m.group(2) != var or 'var' in self.arrays[m.group(1)]:
                    raise T.TranslateError('%s: fill loop writes %r' % (name, blk[0][1]))
                if self.outer is not None: raise T.TranslateError('%s: fill loop after the output loop' % name)
                self.arrays[m.group(1)].update(var=var, bound=bound, rhs=blk[0][3]); self.order.append(('array', m.group(1)))
                continue
            if k == 'call' and st[1] == 'free':
                self.freed.append(st[2]); continue
            raise T.TranslateError('%s: statement %r' % (name, st))
        if self.outer is None or self.index is None: raise T.TranslateError('%s: no output loop' % name)
        for a, d in self.arrays.items():
            if 'var' not in d: raise T.TranslateError('%s: array %s is never filled' % (name, a))
        if sorted(self.freed) != sorted(self.arrays): raise T.TranslateError('%s: malloc/free mismatch' % name)
        # which loop variable reads which array after it was filled
        self.reads = {a: set() for a in self.arrays}
        texts = [r for _, r in self.cell] + [self.value]
        for t in texts:
            for a, v in re.findall(r'\b(\w+)\[(\w+)\]', t):
                if a in self.reads: self.reads[a].add(v)
        for a, d in self.arrays.items():
            for a2, v in re.findall(r'\b(\w+)\[(\w+)\]', d['rhs']):
                if a2 in self.arrays: raise T.TranslateError('%s: array %s is defined from array %s' % (name, a, a2))

    def vars(self):
        return list(self.init)

    def handled(self):
        return [L for ls, _ in self.dispatch for L in ls]

    def loop_bound(self, var):
        for v, b in (self.outer, self.inner):
            if v == var: return b
        return None

def biv_c(name):
    src, fns = c_source()
    return BivC(name, c_sig(fns, name, BIV_SIG))

def lanczos():
    """gamma_func: coefficient table p, leading constant, g, the branch test — literal shape checked"""
    src, fns = c_source()
    if 'gamma_func' not in fns: raise T.TranslateError('gamma_func not found')
    args, body = fns['gamma_func']
    if [(a[0], a[1]) for a in args] != [('z', False)]: raise T.TranslateError('gamma_func signature')
    m = re.search(r'double\s+p\[(\d+)\]\s*=\s*\{([^}]*)\}', body)
    if not m: raise T.TranslateError('gamma_func: coefficient table')
    coeffs = [c.strip() for c in m.group(2).split(',') if c.strip()]
    if len(coeffs) != int(m.group(1)): raise T.TranslateError('gamma_func: table length')
    body2 = body[:m.start()] + body[m.end():]
    stmts = [s for s in parse_block(body2) if s[0] != 'decl' and s != ('decl', '')]
    stmts = [s for s in stmts if not (s[0] == 'decl')]
    if len(stmts) != 2 or stmts[0][0] != 'if' or stmts[1] != ('return', 'y'):
        raise T.TranslateError('gamma_func: body shape')
    _, branches, els = stmts[0]
    if len(branches) != 1 or els is None: raise T.TranslateError('gamma_func: branches')
    cond, refl = branches[0]
    mc = re.fullmatch(r'z\s*<\s*([0-9.]+)', cond)
    if not mc: raise T.TranslateError('gamma_func: branch test %r' % cond)
    if len(refl) != 1 or refl[0][:3] != ('assign', 'y', '='): raise T.TranslateError('gamma_func: reflection branch')
    if len(els) != 5: raise T.TranslateError('gamma_func: main branch has %d statements' % len(els))
    s0, s1, s2, s3, s4 = els
    if s0 != ('assign', 'z', '-=', '1'): raise T.TranslateError('gamma_func: z -= 1')
    if s1[:3] != ('assign', 'x', '='): raise T.TranslateError('gamma_func: x = c0')
    if not (s2[0] == 'for' and s2[1] == 'ii' and s2[2] == str(len(coeffs)) and len(s2[3]) == 1
            and s2[3][0][:3] == ('assign', 'x', '+=')):
        raise T.TranslateError('gamma_func: series loop')
    if s3[:3] != ('assign', 't', '=') or s4[:3] != ('assign', 'y', '='): raise T.TranslateError('gamma_func: t / y')
    return dict(coeffs=coeffs, c0=s1[3], term=s2[3][0][3], t=s3[3], y=s4[3], refl=refl[0][3], test=mc.group(1), n=len(coeffs))

# ------------------------------------------------------------------------------------------------
# Cython wrapper and PDFs.py
# ------------------------------------------------------------------------------------------------
def pyx_wrapper(cname):
    src = open(_p('PDFs_cython.pyx')).read()
    m = re.search(r'void\s+(\w+)\s+"%s"\s*\(([^)]*)\)' % cname, src)
    if not m: raise T.TranslateError('pyx: extern declaration of %s' % cname)
    alias = m.group(1)
    ext_args = [re.sub(r'[\s*]', '', a.split()[-1]) for a in m.group(2).split(',')]
    if ext_args != [a for a, _ in BIV_SIG]: raise T.TranslateError('pyx: extern arguments %r' % ext_args)
    m = re.search(r'def\s+%s\s*\(([^)]*)\)\s*:\s*\n(.*?)(?=\ndef\s|\Z)' % cname, src, flags=re.S)
    if not m: raise T.TranslateError('pyx: def %s' % cname)
    pyargs = [a.split()[-1] for a in m.group(1).split(',')]
    body = m.group(2)
    ma = re.search(r'(\w+)\s*=\s*np\.empty\(\(\s*([\w.]+)\s*,\s*([\w.]+)\s*\)\s*,\s*dtype=np\.float64\)', body)
    if not ma: raise T.TranslateError('pyx: allocation of the result')
    mc = re.search(r'%s\(([^)]*)\)' % alias, body, flags=re.S)
    if not mc: raise T.TranslateError('pyx: call of %s' % alias)
    call = [re.sub(r'<double\*>|\s', '', a) for a in mc.group(1).split(',')]
    mr = re.search(r'return\s+(\w+)', body)
    if not mr or mr.group(1) != ma.group(1): raise T.TranslateError('pyx: does not return the allocated array')
    if len(call) != len(BIV_SIG): raise T.TranslateError('pyx: call arity')
    return dict(pyargs=pyargs, shape=(ma.group(2), ma.group(3)), result=ma.group(1), bind=dict(zip([a for a, _ in BIV_SIG], call)))

def py_module():
    path = _p('PDFs.py')
    return (path,) + T.py_functions(path)

def _norm(node):
    return re.sub(r'\s+', '', ast.unparse(node))

def py_wrapper_ok(fns, name):
    """`return np.squeeze(PDFs_cython.<name>(np.ascontiguousarray(xx, dtype=float), …yy…, …params…))`"""
    fn = fns.get(name)
    if fn is None: raise T.TranslateError('PDFs.py: %s not found' % name)
    if [a.arg for a in fn.args.args] != ['xx', 'yy', 'params']: return False
    try:
        r = T.single_return(fn)
    except T.TranslateError:
        return False
    want = 'np.squeeze(PDFs_cython.%s(%s))' % (name, ','.join("np.ascontiguousarray(%s,dtype=float)" % a for a in ('xx', 'yy', 'params')))
    return _norm(r) == want

def len_test(node):
    """`len(params) == 3` -> [3];  `len(params) in [2, 3]` -> [2, 3]"""
    if isinstance(node, ast.Compare) and len(node.ops) == 1 and _norm(node.left) == 'len(params)':
        c = node.comparators[0]
        if isinstance(node.ops[0], ast.Eq) and isinstance(c, ast.Constant) and isinstance(c.value, int):
            return [c.value]
        if isinstance(node.ops[0], ast.In) and isinstance(c, (ast.List, ast.Tuple)) and all(isinstance(e, ast.Constant) and isinstance(e.value, int) for e in c.elts):
            return [e.value for e in c.elts]
    raise T.TranslateError('length test %s' % ast.unparse(node))

def py_dispatch(fn):
    """the if / elif / else-raise chain on len(params) -> [(lengths, {var: params index})]"""
    chain = [s for s in fn.body if isinstance(s, ast.If)]
    if len(chain) != 1: raise T.TranslateError('%s: expected one if-chain' % fn.name)
    node = chain[0]; out = []
    while True:
        ls = len_test(node.test)
        env = {}
        for s in node.body:
            if not isinstance(s, ast.Assign): raise T.TranslateError('%s: dispatch statement %s' % (fn.name, ast.unparse(s)))
            val = s.value
            tg = s.targets
            if len(tg) == 1 and isinstance(tg[0], ast.Tuple):
                names = [e.id for e in tg[0].elts]
                v = _norm(val)
                if v == 'params':
                    if len(ls) != 1 or ls[0] != len(names): raise T.TranslateError('%s: unpacking %d names from %r entries' % (fn.name, len(names), ls))
                elif re.fullmatch(r'params\[:(\d+)\]', v):
                    k = int(re.fullmatch(r'params\[:(\d+)\]', v).group(1))
                    if k != len(names) or min(ls) < k: raise T.TranslateError('%s: slice unpacking' % fn.name)
                else:
                    raise T.TranslateError('%s: unpacking from %s' % (fn.name, v))
                for i, nm in enumerate(names): env[nm] = i
            else:
                names = [t.id for t in tg if isinstance(t, ast.Name)]
                if len(names) != len(tg): raise T.TranslateError('%s: dispatch target' % fn.name)
                m = re.fullmatch(r'params\[(\d+)\]', _norm(val))
                if m: idx = int(m.group(1))
                elif isinstance(val, ast.Name) and val.id in env: idx = env[val.id]
                else: raise T.TranslateError('%s: dispatch value %s' % (fn.name, ast.unparse(val)))
                for nm in names: env[nm] = idx
        out.append((ls, env))
        if len(node.orelse) == 1 and isinstance(node.orelse[0], ast.If):
            node = node.orelse[0]; continue
        if not (len(node.orelse) == 1 and isinstance(node.orelse[0], ast.Raise)):
            raise T.TranslateError('%s: the chain does not end in raise' % fn.name)
        break
    return out

# ------------------------------------------------------------------------------------------------
# the generated file
# ------------------------------------------------------------------------------------------------
HEADER = '''/- GENERATED by tools/gen_PDFs.py from dadi/DFE/{PDFs.c,PDFs_cython.pyx,PDFs.py} — do not edit.  Regenerated on every check. -/
import DadiVerif.Model.Prelude
set_option linter.unusedVariables false
namespace DadiVerif
namespace Gen.PDFs
'''

def _opt(v):
    return 'none' if v is None else '(some %d)' % v

def disp_def(defname, var, vars_, dispatch, doc):
    lines = ['/-- %s -/' % doc, 'def %s (%s : Nat) : List (String × Option Nat) :=' % (defname, var)]
    body = '[%s]' % ', '.join('("%s", none)' % v for v in vars_)
    for ls, asg in reversed(dispatch):
        cond = ' || '.join('%s == %d' % (var, L) for L in ls)
        row = '[%s]' % ', '.join('("%s", %s)' % (v, _opt(asg.get(v))) for v in vars_)
        body = 'if %s then %s\n  else %s' % (cond, row, body)
    lines.append('  ' + body)
    return lines

def handled_def(defname, var, dispatch, doc):
    conds = [' || '.join('%s == %d' % (var, L) for L in ls) for ls, _ in dispatch]
    return ['/-- %s -/' % doc, 'def %s (%s : Nat) : Bool := %s' % (defname, var, ' || '.join('(%s)' % c for c in conds) or 'false')]

def ratlit(text):
    return T.lit(text)

def gen_biv(out, tag, cname, pyname, fns):
    b = biv_c(cname)
    names = {'n', 'm', b.outer[0], b.inner[0]}
    out.append('/-! ## %s (dadi/DFE/PDFs.c) -/' % cname)
    out += disp_def('c_%s_dispatch' % tag, 'Nparams', b.vars(), b.dispatch,
                    'which entry of `params` each variable of `%s` is assigned from, by `Nparams` (`none` = it keeps its initial value %s)'
                    % (cname, ', '.join('%s=%s' % kv for kv in b.init.items())))
    out += handled_def('c_%s_handled' % tag, 'Nparams', b.dispatch, 'the parameter counts for which `%s` assigns its variables' % cname)
    out.append('/-- `for(%s=0; %s<%s; %s++){ for(%s=0; %s<%s; %s++){ … output[%s] = … } }` -/'
               % (b.outer[0], b.outer[0], b.outer[1], b.outer[0], b.inner[0], b.inner[0], b.inner[1], b.inner[0], b.index))
    if b.outer[1] not in ('n', 'm') or b.inner[1] not in ('n', 'm'): raise T.TranslateError('%s: loop bounds' % cname)
    out.append('def c_%s_outer (n m : Nat) : Nat := %s' % (tag, b.outer[1]))
    out.append('def c_%s_inner (n m : Nat) : Nat := %s' % (tag, b.inner[1]))
    out.append('def c_%s_index (n m %s %s : Nat) : Nat := %s' % (tag, b.outer[0], b.inner[0], nat_expr(cexpr(b.index), names)))
    bufs = []
    for a in sorted(b.arrays):
        d = b.arrays[a]
        reads = sorted(b.loop_bound(v) or ('?' + v) for v in b.reads[a]) or ['-']
        src_idx = sorted(set((d['bound'] if v == d['var'] else '?' + v) for arr, v in re.findall(r'\b(\w+)\[(\w+)\]', d['rhs']) if arr == d['of']))
        others = [arr for arr, v in re.findall(r'\b(\w+)\[(\w+)\]', d['rhs']) if arr != d['of']]
        if others: raise T.TranslateError('%s: %s is computed from %r as well' % (cname, a, others))
        bufs.append('("%s", "%s", "%s", "%s", "%s", "%s")' % (a, d['size'], d['bound'], ','.join(reads), d['of'], ','.join(src_idx) or '-'))
    out.append('/-- work arrays: (name, malloc\'ed entries, extent of the loop filling it, extent(s) of the loop variable(s) reading it,\n'
               '    the input array it is computed from, extent of the loop variable indexing that input) -/')
    out.append('def c_%s_buffers : List (String × String × String × String × String × String) := [%s]' % (tag, ', '.join(bufs)))
    # which input array is read with which loop variable in the cell expression (besides the work arrays)
    direct = sorted(set((arr, b.loop_bound(v) or ('?' + v)) for t in [r for _, r in b.cell] + [b.value]
                        for arr, v in re.findall(r'\b(\w+)\[(\w+)\]', t) if arr in ('xx', 'yy')))
    out.append('/-- direct reads of the input arrays inside the output loop: (array, extent of the loop variable indexing it) -/')
    out.append('def c_%s_directReads : List (String × String) := [%s]' % (tag, ', '.join('("%s", "%s")' % p for p in direct)))
    w = pyx_wrapper(cname)
    out.append('/-! ## the Cython wrapper `%s` (dadi/DFE/PDFs_cython.pyx) and the public wrapper of PDFs.py -/' % cname)
    sizes = {'xx.size': 'xs', 'yy.size': 'ys', 'params.size': 'ps'}
    for k in ('n', 'm', 'Nparams'):
        if w['bind'][k] not in sizes: raise T.TranslateError('pyx %s: C argument %s bound to %s' % (cname, k, w['bind'][k]))
    if w['shape'][0] not in sizes or w['shape'][1] not in sizes: raise T.TranslateError('pyx %s: result shape' % cname)
    out.append('/-- result allocated as `np.empty((%s, %s))`; C arguments: %s -/' % (w['shape'][0], w['shape'][1],
               ', '.join('%s := %s' % (k, v) for k, v in w['bind'].items())))
    out.append('def pyx_%s_shape (xs ys ps : Nat) : Nat × Nat := (%s, %s)' % (tag, sizes[w['shape'][0]], sizes[w['shape'][1]]))
    out.append('def pyx_%s_n (xs ys ps : Nat) : Nat := %s' % (tag, sizes[w['bind']['n']]))
    out.append('def pyx_%s_m (xs ys ps : Nat) : Nat := %s' % (tag, sizes[w['bind']['m']]))
    out.append('def pyx_%s_Nparams (xs ys ps : Nat) : Nat := %s' % (tag, sizes[w['bind']['Nparams']]))
    ptr_ok = (w['pyargs'] == ['xx', 'yy', 'params'] and w['bind']['xx'] == 'xx.data' and w['bind']['yy'] == 'yy.data'
              and w['bind']['params'] == 'params.data' and w['bind']['output'] == w['result'] + '.data')
    out.append('/-- the data pointers are handed over in the order (xx, yy, params, result) -/')
    out.append('def pyx_%s_pointersOk : Bool := %s' % (tag, 'true' if ptr_ok else 'false'))
    out.append('/-- PDFs.%s = np.squeeze(PDFs_cython.%s(ascontiguousarray(xx, float), ascontiguousarray(yy, float), ascontiguousarray(params, float))) -/' % (cname, cname))
    out.append('def py_%s_wrapperOk : Bool := %s' % (tag, 'true' if py_wrapper_ok(fns, cname) else 'false'))
    fn = fns.get(pyname)
    if fn is None: raise T.TranslateError('PDFs.py: %s not found' % pyname)
    pd = py_dispatch(fn)
    pvars = []
    for _, env in pd:
        for v in env:
            if v not in pvars: pvars.append(v)
    # report only the variables the formula uses (those of the C code when they exist under the same name)
    keep = [v for v in b.vars() if all(v in env for _, env in pd)]
    if len(keep) != len(b.vars()): raise T.TranslateError('%s: variables %r not all assigned in every branch' % (pyname, b.vars()))
    out.append('/-! ## the reference formula `%s` (dadi/DFE/PDFs.py) -/' % pyname)
    out += disp_def('py_%s_dispatch' % tag, 'L', keep, [(ls, {v: env[v] for v in keep}) for ls, env in pd],
                    'which entry of `params` each variable of `%s` is, by `len(params)` (any other length raises ValueError)' % pyname)
    out += handled_def('py_%s_accepts' % tag, 'L', pd, 'the lengths `%s` accepts' % pyname)

def generate():
    path, src, tree, fns = py_module()
    out = [HEADER]
    gen_biv(out, 'ln', 'biv_lognormal', 'biv_lognormal_py', fns)
    gen_biv(out, 'g', 'biv_ind_gamma', 'biv_ind_gamma_py', fns)
    lz = lanczos()
    out.append('/-! ## gamma_func (Lanczos approximation, dadi/DFE/PDFs.c) -/')
    out.append('/-- the coefficient table `p[%d]` -/' % lz['n'])
    out.append('def lanczosCoeffs : List Rat := [%s]' % ', '.join(ratlit(c) for c in lz['coeffs']))
    out.append('/-- `x = %s` before the series loop -/' % lz['c0'])
    out.append('def lanczosC0 : Rat := %s' % ratlit(lz['c0']))
    ctx = T.Ctx(names={'z': 'z', 'x': 'x'}, subscript=None)
    # x += p[ii] / (z+ii+1): translate with p[ii] -> p, ii -> ii (as rational)
    term = cexpr(lz['term'])
    def sub(node, c):
        if _norm(node) == 'p[ii]': return 'p'
        raise T.TranslateError('gamma_func: subscript %s' % _norm(node))
    ctx = T.Ctx(names={'z': 'z', 'ii': 'ii'}, subscript=sub)
    out.append('/-- one term of the series: `x += %s` (`z` already decremented, `ii` the loop counter) -/' % lz['term'])
    out.append('def lanczosTerm (p z ii : Rat) : Rat := %s' % T.tr(term, ctx))
    out.append('/-- `t = %s` -/' % lz['t'])
    out.append('def lanczosT (z : Rat) : Rat := %s' % T.tr(cexpr(lz['t']), T.Ctx(names={'z': 'z'})))
    out.append('/-- the reflection branch is taken for `z < %s` -/' % lz['test'])
    out.append('def lanczosReflectBelow : Rat := %s' % ratlit(lz['test']))
    out.append('/-- `y = %s` (main branch) and `y = %s` (reflection) -/' % (lz['y'], lz['refl']))
    out.append('def lanczosShape : List String := ["%s", "%s"]' % (re.sub(r'\s+', '', lz['y']), re.sub(r'\s+', '', lz['refl'])))
    shape_ok = (re.sub(r'\s+', '', lz['y']) == 'sqrt(2*M_PI)*pow(t,z+0.5)*exp(-t)*x'
                and re.sub(r'\s+', '', lz['refl']) == 'M_PI/(sin(M_PI*z)*gamma_func(1.-z))')
    out.append('/-- the two closing expressions are the Lanczos formula and the reflection formula, literally (the correspondence harness\n'
               '    applies sqrt / pow / exp / sin in floating point around the exact series of the model) -/')
    out.append('def lanczosShapeOk : Bool := %s' % ('true' if shape_ok else 'false'))
    out.append('end Gen.PDFs\nend DadiVerif\n')
    return '\n'.join(out)
